#!/bin/bash
# Offline build of everything the checks need (MANIFEST.setup_cmd). The checks
# rebuild incrementally themselves; this only warms the caches.
set -e
cd "$(dirname "$0")"
export CARGO_NET_OFFLINE=true
mkdir -p out evidence
( cd harness && cargo build --offline -q --bin mb2-check --release && cargo build --offline -q --bin mb2-check )
if [ -x transcript/build.sh ]; then transcript/build.sh; fi
# warm the cargo-fuzz build (nightly, ASan); the checks build it on demand as well
( cargo +nightly fuzz build --fuzz-dir fuzz > out/fuzz-build.log 2>&1 && echo "fuzz targets built" ) || echo "note: fuzz targets not built now (see out/fuzz-build.log); the checks will try again"
# the panic=abort probe of C20 (optional: the check goes on without it)
( cd abortprobe && { [ -f Cargo.lock ] || cp ../harness/Cargo.lock Cargo.lock; } && cargo build --offline -q --release > ../out/abortprobe-build.log 2>&1 && echo "abort probe built" ) || echo "note: abort probe not built now (see out/abortprobe-build.log)"
echo "setup ok"
