#!/bin/bash
# Offline build of everything the checks need (MANIFEST.setup_cmd). The checks
# rebuild incrementally themselves; this only warms the caches.
set -e
cd "$(dirname "$0")"
export CARGO_NET_OFFLINE=true
mkdir -p out evidence
( cd harness && cargo build --offline -q --bin mb2-check --release && cargo build --offline -q --bin mb2-check )
if [ -x transcript/build.sh ]; then transcript/build.sh; fi
echo "setup ok"
