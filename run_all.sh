#!/bin/bash
# ./run_all.sh [quick|thorough] : every check once, summary at the end.
cd "$(dirname "$0")"
TIER="${1:-quick}"
rc_all=0
for i in 01 02 03 04 05 06 07 08 09 10 11 12 13 14 15 16 17 18 19 20; do
  out=$(./check C$i --tier "$TIER" 2>&1); rc=$?
  echo "C$i exit=$rc $(echo "$out" | tail -1)"
  echo "$out" | grep -E '^(VIOLATION|KNOWN-FINDING|INCONCLUSIVE)' | cut -c1-200
  [ $rc -ne 0 ] && rc_all=1
done
exit $rc_all
