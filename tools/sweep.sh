#!/bin/bash
# tools/sweep.sh <list-file> <out-file> : sensitivity sweep in a scratch copy of
# /repo and /verif (so that /repo itself is never touched). Each line of the
# list: <patch path> <check id>... ; for every line the patch is applied to the
# copy, the quick tier of the named checks is run there, and the patch is undone.
# Output: one line per (patch, check): exit code and first violation message.
set -u
LIST="$(realpath "$1")"; OUT="$(realpath -m "$2")"
W=/var/tmp/mb2-sweep.$$
rm -rf "$W"; mkdir -p "$W"
rsync -a --exclude target /repo/ "$W/repo/"
rsync -a --exclude 'target*' --exclude out --exclude work --exclude artifacts /verif/ "$W/verif/"
: > "$OUT"
while read -r patch ids; do
  [ -z "$patch" ] && continue
  case "$patch" in \#*) continue;; esac
  P="$(realpath "$patch")"
  if ! git -C "$W/repo" apply "$P" 2>/dev/null; then echo "$(basename $(dirname $P))/$(basename $P) PATCH-DOES-NOT-APPLY" >> "$OUT"; continue; fi
  for id in $ids; do
    out=$("$W/verif/check" "$id" --tier quick 2>&1); rc=$?
    msg=$(echo "$out" | grep -E "^\[$id\]" | head -1 | sed "s#$W##g" | cut -c1-240)
    echo "$patch $id exit=$rc :: $msg" >> "$OUT"
  done
  git -C "$W/repo" checkout -q -- . ; git -C "$W/repo" clean -fdq -e target
done < "$LIST"
rm -rf "$W"
echo "sweep finished" >> "$OUT"
