#!/usr/bin/env python3
"""Writes /verif/MANIFEST.json from the table below (kept next to the code so
that the manifest never drifts from what ./check implements)."""
import json, os, sys

HERE = os.path.dirname(os.path.dirname(os.path.abspath(__file__)))

# id -> (engine, technique, level text, level note, design ref)
CHECKS = {}
NOT_APPLICABLE = {}

def add(i, engine, technique, text, note, ref):
    CHECKS[i] = (engine, technique, text, note, ref)

exec(open(os.path.join(HERE, "tools", "manifest_table.py")).read())

checks = []
for i in sorted(CHECKS):
    engine, technique, text, note, ref = CHECKS[i]
    checks.append({
        "property_id": i,
        "quick_cmd": f"./check {i} --tier quick",
        "thorough_cmd": f"./check {i} --tier thorough",
        "evidence_file": f"evidence/{i}.json",
        "replay_cmd_template": f"./check {i} --replay {{path}}",
        "engine": engine,
        "level_claimed": {"category": "exploration", "text": text, "design_ref": ref},
        "level_note": note,
        "technique": technique,
    })

manifest = {
    "version": 1,
    "setup_cmd": "./setup.sh",
    "hooks": {
        "guard": "--cfg multiboot2_verif",
        "enable": "none needed: every observation uses the public API, guard pages, a tracking allocator in the harness and separately compiled drivers; no source of /repo is instrumented",
        "baseline_off_cmd": "cd /repo && cargo test --workspace --no-fail-fast --offline",
        "source_commits": [],
        "add_only": True,
    },
    "engines": ENGINES,
    "checks": checks,
    "notes": NOTES,
    "not_applicable": [{"property_id": k, "reason": v} for k, v in sorted(NOT_APPLICABLE.items())],
}
json.dump(manifest, open(os.path.join(HERE, "MANIFEST.json"), "w"), indent=1)
print("MANIFEST.json:", len(checks), "checks,", len(NOT_APPLICABLE), "not applicable")
