#!/bin/bash
# tools/seed_run.sh <seeded/dir> [check ids...] : apply the seeded change to
# /repo, run the quick tier of the named checks (default: the property the seed
# is for), undo. One line per check.
S="$(realpath "$1")"; shift
cd /verif
ids="$@"; [ -z "$ids" ] && ids=$(basename "$S" | cut -d- -f1)
git -C /repo apply "$S/patch.diff" || { echo "$(basename $S): patch does not apply"; exit 3; }
trap 'git -C /repo checkout -q -- . ; git -C /repo clean -fdq -e target' EXIT
for id in $ids; do
  out=$(./check "$id" --tier quick 2>&1); rc=$?
  echo "SEED $(basename "$S") $id exit=$rc :: $(echo "$out" | grep -E "^\[$id\]" | head -1 | cut -c1-260)"
done
