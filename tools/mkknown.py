#!/usr/bin/env python3
"""Regenerates /verif/known_findings.json from mutants/fixes.txt (the list of
"fix:" commits in /repo) and the table below. Run by hand after a fix commit;
the checks only ever read the file."""
import json, os
HERE = os.path.dirname(os.path.dirname(os.path.abspath(__file__)))
fixes = [l.strip().split(' ', 2) for l in open(os.path.join(HERE, 'mutants/fixes.txt')) if l.strip()]
props = {
 'fix01': (['C02','C08'], 'BootInformation::load panicked (dev) for a total-size word of 0..=7 instead of returning Memory(ShorterThanHeader); release returned the error'),
 'fix02': (['C10','C08'], 'Multiboot2Header::load panicked (dev) for a length word of 0..=15 instead of returning Memory(ShorterThanHeader)'),
 'fix03': (['C14','C01'], 'DynSizedStructure::ref_from_slice accepted a declared size up to 8 (16) bytes larger than the slice: 16-byte slice, tag header declaring 17..=24 -> size_of_val 24'),
 'fix04': (['C16'], 'clone_dyn cloned the padded payload: CommandLineTag::new("") (size 9) cloned to declared size 16'),
 'fix05': (['C13'], 'find_header panicked for every buffer shorter than 8192 bytes and for a stored length reaching past the buffer'),
 'fix06': (['C18','C01'], 'EFI memory-map iterator with desc_size 8 over an 8-byte map yielded a 40-byte descriptor reference past the tag; desc_size not a multiple of 8 yielded misaligned references'),
 'fix07': (['C18'], 'EFIMemoryAreaIter::len() stayed at the total count after items had been yielded'),
 'fix08': (['C01','C05'], 'FramebufferTag::buffer_type() returned a palette slice of the stored colour count (e.g. 65535) regardless of the tag size'),
 'fix09': (['C04','C08','C20'], 'framebuffer type bytes 3..=255 were reported as a known type in release builds (enum-typed field)'),
 'fix10': (['C01'], 'RsdpV2Tag::checksum_is_valid summed `length` bytes without bound: length 60 read past the tag, 10^6 segfaulted'),
 'fix11': (['C19','C01','C08'], 'ELF section iteration trusted count/entry size/shndx: count 1000 over an empty table segfaulted; shndx*entry_size overflowed u32'),
 'fix12': (['C06'], 'multiboot2::Builder::build dropped the tag supplied through network()'),
 'fix13': (['C07'], 'BootdevTag::new wrote size 24 (spec 20) and ApmTag::new wrote size 32 (spec 28)'),
 'fix14': (['C07','C12'], 'EndHeaderTag::new() created a tag of type 3 (entry address) and the struct was only 4-aligned (as_bytes() panicked at some placements)'),
 'fix15': (['C12'], 'multiboot2_header::Builder::build emitted no terminating end tag'),
 'fix19': (['C01'], 'VBEInfoTag::mode_info() materialised an invalid VBEMemoryModel for mode-info byte 27 > 7 (tag offset 555): Debug-formatting crashed the process (SIGSEGV/SIGABRT), Option/Result wrappers misread the value through the enum niche (found as D16 in round 0, kept open at first, repaired after the false-alarm audit showed how easily it is triggered)'),
 'fix18': (['C08'], 'deprecated BootInformation::elf_sections(): entry_size * shndx was multiplied in u32 - dev panicked on overflow, release wrapped and accepted (e.g. entry_size 40, shndx 0x80000000, n 0)'),
 'fix17': (['C08'], 'header tag iterator: after the controlled panic for a header tag with size 0..=7, polling the iterator again panicked again in dev but yielded the following tag in release (unchecked size - 8 in HeaderTagHeader::payload_len)'),
 'fix16': (['C10','C08'], 'calc_checksum(magic, arch, len) panicked (dev) whenever magic+arch+len > 2^32, e.g. calc_checksum(0xe85250d6, I386, 0x20000000); release wrapped correctly'),
}
findings = []
for tag, commit, subj in fixes:
    ps, what = props[tag]
    for p in ps:
        findings.append({"id": tag, "property": p, "status": "fixed", "commit": commit,
                         "record": f"fixed: property={p} {commit} {what}"})
json.dump({"findings": findings}, open(os.path.join(HERE, 'known_findings.json'), 'w'), indent=1)
print(len(findings), "entries")
