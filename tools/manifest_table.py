ENGINES = [
    {"name": "model", "path": "harness/model", "serves_properties": ["C01","C02","C03","C04","C05","C08","C09","C10","C11","C13","C14","C15","C17","C18","C19"],
     "kind_free_text": "independent reference model of the Multiboot2 structures (spec walk, per-kind field decoding, load precedence, encoders) + exercise interpreters that record the real crates' results as address-free transcripts"},
    {"name": "mb2-check", "path": "harness/checks", "serves_properties": [],
     "kind_free_text": "proptest TestRunner driven from a binary (seeded by VERIF_SEED, shrinking, replay files), bounded-exhaustive enumerations, dev+release profiles, worker processes, evidence writer"},
    {"name": "sandbox", "path": "harness/sandbox", "serves_properties": ["C01","C02","C09","C10","C13","C18","C19"],
     "kind_free_text": "mmap with PROT_NONE guard pages flush against the input + fork/pipe/waitpid case isolation with watchdog"},
    {"name": "fuzz", "path": "fuzz", "serves_properties": ["C01","C06","C07","C09","C13","C16"],
     "kind_free_text": "cargo-fuzz project (nightly, libFuzzer + AddressSanitizer with manual poisoning outside the region / outside the tag in use): fuzz_mbi, fuzz_tag, fuzz_hdr, fuzz_find, fuzz_build; the semantic oracle (extent check, reference model, independent encoder) is inside each target; fixed-run campaigns in the quick (short) and thorough tier, seeded by VERIF_SEED"},
]
NOTES = "All checks are property-based tests / bounded-exhaustive enumerations against an explicit oracle (reference model, round-trip, differential). Exit 0 held, 1 violation (VIOLATION line), 2 inconclusive. See DESIGN.md."

PENDING = "check not built yet in this revision of /verif (work in progress); will be claimed once its machinery exists"

add("C01", "mb2-check+sandbox+fuzz", "property-based testing over generated adversarial regions in a guard-page sandbox; extent oracle; coverage-guided fuzzing (libFuzzer + ASan) with the same oracle inside the target",
    "Generated adversarial boot informations (all kinds, tampered sizes/counts/strides/indices) are loaded and fully exercised in a forked child with the region flush against PROT_NONE pages; any signal, step-bound overrun or returned reference outside its tag is a violation. Also: stand-alone tags ending at the guard page, tag lists of up to 60 000 (200 000) tags on a 1 MiB stack, sequences of regions at one address in one process, polling after a caught panic, secondary iterator methods, Debug of advanced iterators; ELF section names resolved in harness-owned memory, relations (==, cmp, hash) with a second live object; libFuzzer/ASan campaigns (fuzz_mbi, fuzz_tag) with out-of-tag poisoning, short in the quick tier and long in the thorough tier. Exploration: finds crashes and escaping references, cannot prove their absence.",
    "guard pages are byte-exact only on the flush side; reads removed by the optimiser are invisible; no known finding is open (the exclusion machinery for D16 is inert)", "DESIGN.md §4 C01")
add("C02", "mb2-check+sandbox+transcript", "bounded-exhaustive + property-based testing of load() against the statement's decision table",
    "Other structures handed to load by mistake, the decision in all four build configurations, loads at special addresses, and every total-size word 0..=72 and every multiple of 8 with its neighbours up to 1024/4096, 8 end-tag variants, plus generated sizes up to 1 MiB on a mapping that provides exactly the declared bytes, sizes up to 2^32-1 on a lazily mapped 4 GiB region, interiors with end-tag look-alikes, and regions whose interior is a (well-formed or broken) tag chain; oracle is the precedence table of the statement.",
    "memory behind the pointer is valid for max(8, r8(total size)) bytes, as the statement grants", "DESIGN.md §4 C02")
add("C03", "mb2-check", "bounded-exhaustive + property-based differential against the reference walk; model-based iterator histories",
    "All walks over regions of up to 5 (6) payload words by DFS over size words, generated regions with tampered sizes, and next/clone/fresh histories checked against an index-into-the-walk model.",
    "in-process (no sandbox): the walk is bounds-checked; crashes are C01's business", "DESIGN.md §4 C03")
add("C14", "mb2-check", "bounded-exhaustive enumeration + property-based testing against the precedence oracle; exhaustive 2^32 loop for rounding",
    "Complete enumeration of slice length x misalignment x declared size for five header kinds, each case repeated for the other four kinds on the same memory (the header's other words varied: markers, zero, defined ids, correct values), generated slices to 70000 bytes with declared sizes around 4096..65536, and the rounding function over all 2^32 arguments (thorough, release).",
    "enumerated header fields of the header-crate headers hold defined values", "DESIGN.md §4 C14")

add("C04", "mb2-check", "property-based differential against the reference decoder over encoder-built conformant regions",
    "Spec-conformant boot informations whose every field byte is a distinct marker are decoded through every getter and accessor in dev and release builds and compared line by line with the reference model (first-match selection, every field's offset/width, EFI-map withholding, all 256 framebuffer type bytes).",
    "conformance constraints of the generator (entry size 24, EFI version 1, VBE memory model 0..=7, RSDP length 36) are part of the quantifier", "DESIGN.md §4 C04")
add("C05", "mb2-check+sandbox", "bounded-exhaustive size sweep + property-based differential against the total reference model",
    "Every declared size 0..=image+16 for each variable-length kind (both crates) with marker padding/neighbour, plus adversarial regions compared in full with the total model.",
    "network contents and EFI-map length are observed through Debug output because the crate has no accessor for them", "DESIGN.md §4 C05")
add("C06", "mb2-check+fuzz", "model-based testing of builder call histories; exhaustive subset enumeration; round-trip through load; coverage-guided fuzzing (libFuzzer + ASan) of constructions against the independent encoder",
    "Generated call histories and all singletons/pairs/triples, plus all 2^14 (quick) / 2^22 (thorough) subsets, are built, loaded and compared as a multiset with the model of the builder.",
    "tag images are captured from the supplied tags themselves (the statement compares against the supplied tag), constructors' documented preconditions are respected", "DESIGN.md §4 C06")
add("C07", "mb2-check+fuzz", "property-based testing of constructors against an independent encoder (round-trip + differential); coverage-guided fuzzing (libFuzzer + ASan) of constructions against the independent encoder",
    "All 38 public constructors with byte-marked/boundary/random arguments and every content length 0..=40 compared with the independent little-endian encoder, the ID constants, accessor read-back and placement probes for as_bytes(); the 22 fixed-size constructors additionally inside four separately compiled configurations ({dev, release} x {default, no default features}).",
    "padding bytes inside argument structures (EFIMemoryDesc) are masked; constructor preconditions respected", "DESIGN.md §4 C07")
add("C09", "mb2-check+sandbox+fuzz", "property-based testing over generated adversarial headers in a guard-page sandbox; extent oracle; coverage-guided fuzzing (libFuzzer + ASan) with the same oracle inside the target",
    "As C01 for multiboot2-header: adversarial headers with defined enumerated fields are loaded and fully exercised in a forked child flush against PROT_NONE pages.",
    "enumerated fields are rewritten to defined values by the generator (the statement's precondition); guard pages are byte-exact on the flush side only", "DESIGN.md §4 C09")
add("C10", "mb2-check+sandbox", "bounded-exhaustive + property-based testing of load() against the decision table; exhaustive 2^32 loop for the checksum law",
    "Every length 0..=80 (256) x architectures x 11 magics x 3 checksum deltas and generated lengths to 1 MiB against the precedence table; the checksum congruence for all 2^32 lengths x 2 architectures x 4 magics (thorough, release).",
    "lengths above 1 MiB are not mapped for load(); the checksum law covers them", "DESIGN.md §4 C10")
add("C11", "mb2-check", "property-based differential against the reference decoder over encoder-built valid headers",
    "Valid headers with marker field bytes decoded through all accessors/getters/iterator and compared line by line with the reference model.",
    "enumerated fields in range by construction", "DESIGN.md §4 C11")
add("C12", "mb2-check", "exhaustive subset enumeration + model-based call histories; round-trip through load",
    "All 2^10 subsets x 2 architectures and all single-tag headers with 0/8 field patterns (tails that look like an end tag) in every tier, plus generated histories with marker / special-value fields and request lists up to 8100 entries (headers to 32 KiB): alignment, load, magic, arch, length, checksum, tag multiset, terminating end tag.",
    "tag images captured from the supplied tags", "DESIGN.md §4 C12")
add("C13", "mb2-check+sandbox+fuzz", "bounded-exhaustive + property-based testing of find_header against a reference search; coverage-guided fuzzing (libFuzzer + ASan) with the same oracle inside the target",
    "Sequences of searches in one process, look-alike decoys (big-endian header, other magics), and every buffer length around 0 and around the 8192 window with magics planted at every boundary position and stored lengths at/over the end, plus generated buffers to 16 KiB, optionally starting with an ELF/PE/a.out file identification, compared with the reference search by address and length.",
    "any Err variant is accepted where the statement says 'an error'", "DESIGN.md §4 C13")
add("C15", "mb2-check+sandbox", "bounded-exhaustive enumeration over a family of user-defined tag types and all built-in kinds",
    "34 harness-defined sized/DST tag types x every tag size 8..=96 through get_tag (also after lookups with other view types of the same ID), cast on the iterated tag, ref_from_slice over the tag plus slack bytes and ref_from_ptr followed by cast, a tag that claims more than the region holds, and all 22 built-in kinds x sizes, checking address, size_of_val and aliasing or a panic; exact fits must be accepted.",
    "the family's BASE_SIZE/dst_len are truthful by construction", "DESIGN.md §4 C15")
add("C16", "mb2-check+fuzz", "bounded-exhaustive + property-based testing under a recording global allocator; coverage-guided fuzzing (libFuzzer + ASan) of constructions against the independent encoder",
    "Every composition of content length 0..=12 into 0..=4 slices x 13 targets (6 generic structures, 7 tag kinds with a sized part) and generated larger ones up to ~64 KiB: one allocation of the exact layout, exact byte layout, one matching deallocation, clone identity; clone_dyn of all 11 DST kinds at content lengths 0..=40.",
    "single-threaded harness; the allocator log is armed around a single call", "DESIGN.md §4 C16")
add("C17", "mb2-check", "bounded-exhaustive enumeration over small alphabets + property-based round-trip",
    "All strings over a 4-character alphabet up to length 5 (6) through the three constructors, and all byte strings over a 6-byte alphabet up to length 5 (6) x every declared-size cut through the parsers (as a single tag, and inside a loaded boot information through the typed getter), plus generated long multi-byte texts, against the NUL/UTF-8 rule of the statement.",
    "in-process: string parsing is slice-bounded safe code", "DESIGN.md §4 C17")
add("C18", "mb2-check+sandbox", "bounded-exhaustive + property-based testing against the reference descriptor walk in a guard-page sandbox",
    "Descriptor size 0..=128 x version x count x length slack, generated maps (marker and firmware-style descriptors), and maps beyond 2^16 descriptors: valid combinations decode exactly with exact remaining-length reports; all others must panic before completing and never produce a misplaced descriptor.",
    "where the statement leaves the rejection point open (memory_areas() vs next()) both are accepted", "DESIGN.md §4 C18")
add("C19", "mb2-check+sandbox", "bounded-exhaustive + property-based testing against the reference ELF32/ELF64 decoder in a guard-page sandbox",
    "Entry count x entry size x table length x string-table index (incl. reserved ELF indices) x raw type classes, generated tables, sequences of tags at one address, and tables beyond 2^16 entries: fitting tags yield exactly the in-use entries with decoded fields and names; others must be rejected by a panic without reading outside.",
    "section names live in harness-owned memory the tag points at (documented external address)", "DESIGN.md §4 C19")
add("C20", "mb2-check", "exhaustive 2^32 enumeration (thorough) / stratified sampling (quick) of conversion laws",
    "All conversion, naming and equality laws for every 32-bit value, ELF type classification through the public iterator (in forked children: a fault is a verdict) for all 2^32 raw values, all 256 framebuffer type bytes (stand-alone, through the getter with other tags present, and in a panic=abort build of the crates), both magics.",
    "the exhaustive sweep runs in the release build; the dev build runs the stratified sample", "DESIGN.md §4 C20")

add("C08", "mb2-check+transcript", "differential testing of four separately compiled configurations over generated inputs",
    "Generated well-formed and malformed boot informations and headers are sent to four transcript servers built from the same driver source as {dev, release} x {default features, no default features}; the address-free transcripts of load/walk/decode (incl. nth/count, polling after a caught panic), of 16-byte basic headers with lengths up to 2^32-1, and of find_header must be byte-identical.",
    "four configurations on one 64-bit host and toolchain; Debug renderings and derived sums are outside 'decoding stored data' and not compared", "DESIGN.md §4 C08")
ENGINES.append({"name": "transcript", "path": "transcript", "serves_properties": ["C02","C07","C08"],
     "kind_free_text": "stand-alone transcript server built in four configurations; serves each request in a forked child on guarded memory"})
