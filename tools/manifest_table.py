ENGINES = [
    {"name": "model", "path": "harness/model", "serves_properties": ["C01","C02","C03","C04","C05","C08","C09","C10","C11","C13","C14","C15","C17","C18","C19"],
     "kind_free_text": "independent reference model of the Multiboot2 structures (spec walk, per-kind field decoding, load precedence, encoders) + exercise interpreters that record the real crates' results as address-free transcripts"},
    {"name": "mb2-check", "path": "harness/checks", "serves_properties": [],
     "kind_free_text": "proptest TestRunner driven from a binary (seeded by VERIF_SEED, shrinking, replay files), bounded-exhaustive enumerations, dev+release profiles, worker processes, evidence writer"},
    {"name": "sandbox", "path": "harness/sandbox", "serves_properties": ["C01","C02","C09","C10","C13","C18","C19"],
     "kind_free_text": "mmap with PROT_NONE guard pages flush against the input + fork/pipe/waitpid case isolation with watchdog"},
]
NOTES = "All checks are property-based tests / bounded-exhaustive enumerations against an explicit oracle (reference model, round-trip, differential). Exit 0 held, 1 violation (VIOLATION line), 2 inconclusive. See DESIGN.md."

PENDING = "check not built yet in this revision of /verif (work in progress); will be claimed once its machinery exists"

add("C01", "mb2-check+sandbox", "property-based testing over generated adversarial regions in a guard-page sandbox; extent oracle",
    "Generated adversarial boot informations (all kinds, tampered sizes/counts/strides/indices) are loaded and fully exercised in a forked child with the region flush against PROT_NONE pages; any signal, step-bound overrun or returned reference outside its tag is a violation. Exploration: finds crashes and escaping references, cannot prove their absence.",
    "guard pages are byte-exact only on the flush side; reads removed by the optimiser are invisible; D16 (VBE memory-model enum) is an open known finding excluded by construction", "DESIGN.md §4 C01")
add("C02", "mb2-check+sandbox", "bounded-exhaustive + property-based testing of load() against the statement's decision table",
    "Every total-size word 0..=72 and every multiple of 8 with its neighbours up to 1024/4096, 8 end-tag variants, plus generated sizes up to 1 MiB, on a mapping that provides exactly the declared bytes; oracle is the precedence table of the statement.",
    "memory behind the pointer is valid for max(8, r8(total size)) bytes, as the statement grants", "DESIGN.md §4 C02")
add("C03", "mb2-check", "bounded-exhaustive + property-based differential against the reference walk; model-based iterator histories",
    "All walks over regions of up to 5 (6) payload words by DFS over size words, generated regions with tampered sizes, and next/clone/fresh histories checked against an index-into-the-walk model.",
    "in-process (no sandbox): the walk is bounds-checked; crashes are C01's business", "DESIGN.md §4 C03")
add("C14", "mb2-check", "bounded-exhaustive enumeration + property-based testing against the precedence oracle; exhaustive 2^32 loop for rounding",
    "Complete enumeration of slice length x misalignment x declared size for five header kinds, generated larger slices, and the rounding function over all 2^32 arguments (thorough, release).",
    "enumerated header fields of the header-crate headers hold defined values", "DESIGN.md §4 C14")

for i in ["C04","C05","C06","C07","C08","C09","C10","C11","C12","C13","C15","C16","C17","C18","C19","C20"]:
    if i not in CHECKS:
        NOT_APPLICABLE[i] = PENDING
