#!/usr/bin/env python3
"""Builds seeded/RESULTS.md and mutants/RESULTS.md from the sweep outputs
(seeded/sweep-*.txt, mutants/sweep-*.txt) and the seeds' meta.json files."""
import json, glob, os, re
HERE = os.path.dirname(os.path.dirname(os.path.abspath(__file__)))

def parse(files):
    rows = {}
    for f in files:
        for l in open(f):
            m = re.match(r'(\S+) (C\d+) exit=(\d+) :: ?(.*)', l.strip())
            if not m:
                continue
            patch, cid, rc, msg = m.groups()
            msg = re.sub(r'\(/\S*?/out/violations/\S+\): ', '', msg)
            rows[(patch, cid)] = (int(rc), msg)   # later files override earlier ones
    return rows

def table(rows, describe):
    out = ["| change | what it does / needs | check | result | first report |", "|---|---|---|---|---|"]
    for (patch, cid), (rc, msg) in sorted(rows.items()):
        name = describe(patch)
        res = {0: "**MISSED**", 1: "caught", 2: "inconclusive"}.get(rc, str(rc))
        out.append(f"| `{name[0]}` | {name[1]} | {cid} | {res} | {msg[:160].replace('|', '/')} |")
    return "\n".join(out)

def seed_desc(patch):
    d = os.path.dirname(os.path.join(HERE, patch))
    try:
        m = json.load(open(os.path.join(d, "meta.json")))
        s = (m.get("summary", "") + " NEEDS: " + str(m.get("needs", "")))[:330].replace("|", "/").replace("\n", " ")
    except Exception:
        s = ""
    return (os.path.basename(d), s)

def mut_desc(patch):
    b = os.path.basename(patch).replace(".patch", "")
    desc = ""
    if b.startswith("revert-fix"):
        k = b.split("-")[1]
        for l in open(os.path.join(HERE, "mutants/fixes.txt")):
            if l.startswith(k + " "):
                desc = "reintroduces the defect repaired by: " + l.split(" ", 2)[2].strip()
    return (b, desc.replace("|", "/"))

sr = parse(sorted(glob.glob(os.path.join(HERE, "seeded/sweep-*.txt"))))
n_seed = len({p for (p, _) in sr})
caught = len({p for (p, c), (rc, _) in sr.items() if rc == 1})
open(os.path.join(HERE, "seeded/RESULTS.md"), "w").write(
    f"# Independently seeded changes vs. the checks (quick tier)\n\n{caught} of {n_seed} changes are reported by at least one check.\n"
    "Each change was authored by a sub-agent that saw only the property text, confirmed in a scratch worktree\n"
    "(59 tests pass with the patch, demo fails with it and passes without), then run through `tools/sweep.sh`.\n\n" + table(sr, seed_desc) + "\n")
mr = parse(sorted(glob.glob(os.path.join(HERE, "mutants/sweep-*.txt"))))
n_m = len({p for (p, _) in mr})
caught_m = len({p for (p, c), (rc, _) in mr.items() if rc == 1})
open(os.path.join(HERE, "mutants/RESULTS.md"), "w").write(
    f"# Reverse patches of the fixes and hand-written mutants vs. the checks (quick tier)\n\n{caught_m} of {n_m} changes are reported by at least one of the checks they were run against.\n\n" + table(mr, mut_desc) + "\n")
print("seeded:", caught, "/", n_seed, " mutants:", caught_m, "/", n_m)
