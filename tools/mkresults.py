#!/usr/bin/env python3
"""Builds seeded/RESULTS.md and mutants/RESULTS.md from the sweep outputs
(seeded/sweep-*.txt, mutants/sweep-*.txt) and the seeds' meta.json files."""
import json, glob, os, re
HERE = os.path.dirname(os.path.dirname(os.path.abspath(__file__)))

def parse(files):
    rows = {}
    for f in files:
        for l in open(f, errors="replace"):
            m = re.match(r'(\S+) (C\d+) exit=(\d+) :: ?(.*)', l.strip())
            if not m:
                continue
            patch, cid, rc, msg = m.groups()
            msg = re.sub(r'\(/\S*?/out/violations/\S+\): ', '', msg)
            rows[(patch, cid)] = (int(rc), msg)   # later files override earlier ones
    return rows

def table(rows, describe):
    out = ["| change | what it does / needs | check | result | first report |", "|---|---|---|---|---|"]
    for (patch, cid), (rc, msg) in sorted(rows.items()):
        name = describe(patch)
        res = {0: "**MISSED**", 1: "caught", 2: "inconclusive"}.get(rc, str(rc))
        out.append(f"| `{name[0]}` | {name[1]} | {cid} | {res} | {msg[:160].replace('|', '/')} |")
    return "\n".join(out)

def seed_desc(patch):
    d = os.path.dirname(os.path.join(HERE, patch))
    try:
        m = json.load(open(os.path.join(d, "meta.json")))
        s = (m.get("summary", "") + " NEEDS: " + str(m.get("needs", "")))[:330].replace("|", "/").replace("\n", " ")
    except Exception:
        s = ""
    return (os.path.basename(d), s)

HAND = {
 "c01-tagiter-unchecked-slice": "TagIter::next slices the buffer with get_unchecked instead of the bounds-checked index",
 "c01-fb-reader-unchecked": "framebuffer colour-info Reader reads through a raw pointer without its bounds check",
 "c02-endtag-type-only": "has_valid_end_tag compares the type only, not the size 8",
 "c04-apm-swap-cseg-dseg": "ApmTag fields cseg and dseg swapped in the #[repr(C)] struct",
 "c04-getter-last-match": "get_tag returns the last matching tag instead of the first",
 "c05-mmap-drop-divisibility": "MemoryMapTag::dst_len without the remainder assertion - EQUIVALENT: any remainder changes size_of_val, so cast() still panics",
 "c06-modules-reversed": "Builder::build pushes the module tags in reverse order",
 "c06-smbios-pushed-twice": "Builder::build pushes the first SMBIOS tag again when more than two were added",
 "c07-efi64-ih-be-bytes": "EFIImageHandle64Tag::new rotates pointers above 4 GiB by 32 bits",
 "c07-address-swap-args": "AddressHeaderTag::new stores load_end_addr and bss_end_addr swapped",
 "c08-mmap-assert-debug-only": "MemoryMapTag::memory_areas entry-size assertion demoted to debug_assert",
 "c10-checks-swapped": "Multiboot2Header::load verifies the checksum before the magic",
 "c11-fbhdr-swap-width-height": "FramebufferHeaderTag::width() returns the height field",
 "c12-drop-efi64-when-relocatable": "header Builder drops the EFI64 entry tag when relocatable and EFI32 tags are both present",
 "c13-idx-mod-4": "find_header accepts a magic at a 4-aligned (not 8-aligned) offset",
 "c16-write-offset-skips-empty": "new_boxed advances the write offset for an empty slice at one particular residue",
 "c19-elf32-addr-wrong-offset": "ElfSectionInner32: addr and offset fields swapped",
 "c20-memarea-custom-5": "MemoryAreaType::from maps 0x80000005 to Defective as well",
 "c15-cast-le": "cast() accepts a typed view up to 8 bytes larger than the tag",
 "c17-blname-always-append": "BootLoaderNameTag::new rewritten with strip_suffix - EQUIVALENT: produces the same bytes for every input",
 "c09-inforeq-no-rem-check": "InformationRequestHeaderTag::dst_len without the remainder assertion (caught by C05, which owns the remainder rule; C09 only states memory safety)",
}

def mut_desc(patch):
    b = os.path.basename(patch).replace(".patch", "")
    desc = HAND.get(b, "")
    if b.startswith("revert-fix"):
        k = b.split("-")[1]
        for l in open(os.path.join(HERE, "mutants/fixes.txt")):
            if l.startswith(k + " "):
                desc = "reintroduces the defect repaired by: " + l.split(" ", 2)[2].strip()
    return (b, desc.replace("|", "/"))

sr = parse(sorted(glob.glob(os.path.join(HERE, "seeded/sweep-*.txt"))))
n_seed = len({p for (p, _) in sr})
caught = len({p for (p, c), (rc, _) in sr.items() if rc == 1})
open(os.path.join(HERE, "seeded/RESULTS.md"), "w").write(
    f"# Independently seeded changes vs. the checks (quick tier)\n\n{caught} of {n_seed} changes are reported by at least one check.\n"
    "Each change was authored by a sub-agent that saw only the property text, confirmed in a scratch worktree\n"
    "(59 tests pass with the patch, demo fails with it and passes without), then run through `tools/sweep.sh`.\n\n" + table(sr, seed_desc) + "\n")
mr = parse(sorted(glob.glob(os.path.join(HERE, "mutants/sweep-*.txt"))))
n_m = len({p for (p, _) in mr})
caught_m = len({p for (p, c), (rc, _) in mr.items() if rc == 1})
open(os.path.join(HERE, "mutants/RESULTS.md"), "w").write(
    f"# Reverse patches of the fixes and hand-written mutants vs. the checks (quick tier)\n\n{caught_m} of {n_m} changes are reported by at least one of the checks they were run against.\n\n" + table(mr, mut_desc) + "\n")
print("seeded:", caught, "/", n_seed, " mutants:", caught_m, "/", n_m)
