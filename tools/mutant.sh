#!/bin/bash
# tools/mutant.sh <patch> <check-id>... : apply a patch to /repo, run the named
# checks (quick), undo the patch. Prints one line per check: id exit-code.
set -u
P="$(realpath "$1")"; shift
cd /verif
if ! git -C /repo apply --check "$P" 2>/dev/null; then echo "PATCH DOES NOT APPLY: $P"; exit 3; fi
git -C /repo apply "$P"
trap 'git -C /repo checkout -- . ; git -C /repo clean -fdq -e target' EXIT
for id in "$@"; do
  out=$(VERIF_SEED=${VERIF_SEED:-0} ./check "$id" --tier quick 2>&1); rc=$?
  echo "$(basename "$P") $id exit=$rc $(echo "$out" | grep -c '^VIOLATION') violation line(s)"
  echo "$out" | grep -E "^\[$id\]" | head -3 | cut -c1-330
done
