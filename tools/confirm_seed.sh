#!/bin/bash
# tools/confirm_seed.sh <seed-dir> : confirm a seeded change in the scratch
# worktree /tmp/wt-confirm: with the patch the repository's own tests pass and
# the demo fails; without it the demo passes. Prints one summary line.
S="$(realpath "$1")"
W=/tmp/wt-confirm
cd $W || exit 3
git checkout -q -- . ; git clean -fdq -e target
if ! git apply --check "$S/patch.diff" 2>/dev/null; then echo "$(basename $S): PATCH-DOES-NOT-APPLY"; exit 1; fi
git apply "$S/patch.diff"
t=$(cargo test --workspace --offline 2>&1 | grep -E "^test result" | awk '{p+=$4; f+=$6} END {print p" passed "f" failed"}')
cb=$(cargo build --offline --release --workspace 2>&1 | grep -c "^error")
bash "$S/run_demo.sh" > /tmp/demo_with.log 2>&1; with=$?
git checkout -q -- . ; git clean -fdq -e target
bash "$S/run_demo.sh" > /tmp/demo_without.log 2>&1; without=$?
git checkout -q -- . ; git clean -fdq -e target
echo "$(basename $(dirname $(dirname $S)))/$(basename $S): tests-with-patch=[$t] release-build-errors=$cb demo-with-patch-exit=$with demo-without-patch-exit=$without"
