#![no_main]
// C13: find_header on an arbitrary 8-aligned buffer vs the reference search.
include!("common.rs");

use libfuzzer_sys::fuzz_target;
use mb2_model::fuzzdec::{model_find, Find};
use mb2_model::panics::catch;

fuzz_target!(|data: &[u8]| {
    init();
    let p = Poisoned::new(data);
    let slice = unsafe { std::slice::from_raw_parts(p.ptr(), p.len()) };
    let want = model_find(data);
    let got = catch(|| multiboot2_header::Multiboot2Header::find_header(slice));
    let ok = match (&want, &got) {
        (Find::NoHeader, Some(Ok(None))) => true,
        (Find::SomeErr, Some(Err(_))) => true,
        (Find::Found(i, l), Some(Ok(Some((s, idx))))) => s.as_ptr() as usize == p.ptr() as usize + i && s.len() == *l && *idx as usize == *i,
        _ => false,
    };
    if !ok {
        oracle_violation("fuzz_find", &format!("buffer of {} bytes: expected {want:?}, got {:?}", data.len(), got.map(|r| r.map(|o| o.map(|(s, i)| (s.len(), i))))));
    }
});
