#![no_main]
// C16 / C07 / C06: heap construction from fuzzer-chosen content. The input is
// a selector byte, four cut bytes and the content; the oracle is the
// independent encoder: header with the size field set to header + content,
// then the content, nothing else - whatever the content is.
include!("common.rs");
include!("build_logic.rs");

use libfuzzer_sys::fuzz_target;

fuzz_target!(|data: &[u8]| {
    init();
    if let Err(m) = build_check(data) {
        oracle_violation("fuzz_build", &m);
    }
});
