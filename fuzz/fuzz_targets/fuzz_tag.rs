#![no_main]
// C01 / C05 / C15: a stand-alone tag viewed as a chosen kind; everything
// outside the image is poisoned.
include!("common.rs");

use libfuzzer_sys::fuzz_target;
use mb2_model::exercise_mbi::{exercise_single_tag, MbiOpts};
use mb2_model::expect_mbi::expect_single_tag;
use mb2_model::transcript::Val;
use mb2_model::*;

fn stored(k: &str) -> bool {
    !k.split('.').any(|seg| seg == "dbg" || seg.starts_with('~'))
}

fuzz_target!(|data: &[u8]| {
    init();
    let (kind, img) = fuzzdec::decode_tag(data, exclude_d16());
    let p = Poisoned::new(&img);
    let t = unsafe { exercise_single_tag(p.ptr(), p.len(), kind, &MbiOpts { debug: true, max_steps: img.len() / 8 + 4, typed_all: true }) };
    let tag_len = match t.get("ref") {
        Some(Val::Ext(0, l)) => *l,
        _ => 0,
    };
    for (k, v) in &t.lines {
        if let Val::Txt(s) = v {
            if s == "step-bound" {
                oracle_violation("fuzz_tag", &format!("{k}: step bound exceeded"));
            }
        }
        if let Some((o, l)) = v.extent() {
            if o.checked_add(l).map_or(true, |e| e > tag_len) || tag_len > img.len() {
                oracle_violation("fuzz_tag", &format!("{k}: reference ({o},{l}) leaves the tag ({tag_len} bytes, image {})", img.len()));
            }
        }
    }
    // D14-style acceptance of an oversized declaration is covered by the model
    let d = expect_single_tag(&img, kind).diff(&t, &stored);
    if !d.is_empty() {
        oracle_violation("fuzz_tag", &format!("kind {kind}: model: {}", d.join("; ")));
    }
});
