#![no_main]
// C01 / C05: decode the fuzzer's bytes into a boot information, run the full
// exercise with ASan poisoning outside the region and - while a typed tag is
// being used - outside that tag; check the extent oracle and the total model.
include!("common.rs");

use libfuzzer_sys::fuzz_target;
use mb2_model::exercise_mbi::{exercise_loaded, typed_tag, MbiOpts};
use mb2_model::expect_mbi::{expect_mbi, ExpectOpts};
use mb2_model::panics::catch;
use mb2_model::transcript::{Rec, Val};
use mb2_model::*;

fn stored(k: &str) -> bool {
    !k.split('.').any(|seg| seg == "dbg" || seg.starts_with('~'))
}

fuzz_target!(|data: &[u8]| {
    init();
    let (region, _) = fuzzdec::decode_mbi(data, exclude_d16());
    let p = Poisoned::new(&region);
    // Debug formatting dominates the run time: do it for a quarter of the inputs
    let debug = data.first().map_or(true, |b| b & 0x30 == 0);
    let opts = MbiOpts { debug, max_steps: region.len() / 8 + 4, typed_all: false };
    let mut rec = Rec::new(p.ptr() as usize);
    let loaded = catch(|| unsafe { multiboot2::BootInformation::load(p.ptr().cast()) });
    match loaded {
        None => rec.t.push("load", Val::Panic),
        Some(Err(e)) => rec.t.push("load", Val::Err(format!("{e:?}"))),
        Some(Ok(mbi)) => {
            rec.t.push("load", Val::Txt("Ok".into()));
            // every item as its typed view, with the rest of the region poisoned
            // items up to (not including) the one at which the walk panics
            let mut items = Vec::new();
            if let Some(mut it) = catch(|| mbi.tags()) {
                while items.len() <= region.len() / 8 {
                    match catch(|| it.next()) {
                        Some(Some(t)) => items.push(t),
                        _ => break,
                    }
                }
            }
            {
                for (i, tag) in items.iter().enumerate() {
                    let off = *tag as *const _ as *const u8 as usize - p.ptr() as usize;
                    p.poison_outside(off, std::mem::size_of_val(*tag));
                    typed_tag(&mut rec, &format!("t{i}"), tag, &MbiOpts { typed_all: true, ..opts });
                    p.unpoison_region();
                }
            }
            exercise_loaded(&mut rec, &mbi, &opts);
        }
    }
    let ts = le32(&region, 0) as usize;
    if let Err(m) = extent::validate(&rec.t, ts) {
        oracle_violation("fuzz_mbi", &format!("extent: {m}"));
    }
    let exp = expect_mbi(&region, &ExpectOpts { typed_all: true });
    let d = exp.diff(&rec.t, &stored);
    if !d.is_empty() {
        oracle_violation("fuzz_mbi", &format!("model: {}", d.join("; ")));
    }
});
