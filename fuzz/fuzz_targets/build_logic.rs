// Shared by the fuzz target `fuzz_build` and the harness (replay of saved
// inputs): decodes a raw input into a construction and compares the result
// with the independent encoder.

use mb2_model::bytes::*;
use mb2_model::encode::{hdr_tag, tag};
use mb2_model::panics::catch;
use multiboot2_common::{clone_dyn, new_boxed, DynSizedStructure, MaybeDynSized};

fn image<T: MaybeDynSized + ?Sized>(t: &T) -> Vec<u8> {
    t.as_bytes().to_vec()
}

fn check(what: &str, got: Option<Vec<u8>>, spec: &[u8]) -> Result<(), String> {
    match got {
        None => Err(format!("{what}: construction panicked for {} content bytes (spec image {})", spec.len(), hex(&spec[..spec.len().min(48)]))),
        Some(b) => {
            if b.len() != r8(spec.len()) || b[..spec.len()] != spec[..] {
                Err(format!("{what}: built {} / specification {}", hex(&b[..b.len().min(64)]), hex(&spec[..spec.len().min(64)])))
            } else {
                Ok(())
            }
        }
    }
}

pub fn build_check(data: &[u8]) -> Result<(), String> {

    if data.len() < 5 {
        return Ok(());
    }
    let sel = data[0];
    let cuts = &data[1..5];
    let content = &data[5..];
    match sel % 7 {
        0 => {
            // generic structure from 1..=5 slices cut at the given fractions
            let mut at: Vec<usize> = cuts.iter().take((sel as usize >> 4) % 5).map(|c| *c as usize * content.len() / 255).collect();
            at.sort_unstable();
            let mut slices: Vec<&[u8]> = Vec::new();
            let mut prev = 0;
            for a in at {
                slices.push(&content[prev..a.max(prev)]);
                prev = a.max(prev);
            }
            slices.push(&content[prev..]);
            let spec = tag(0x99, content);
            let got = catch(|| {
                let b = new_boxed::<DynSizedStructure<multiboot2::TagHeader>>(multiboot2::TagHeader::new(multiboot2::TagType::Custom(0x99), 0), &slices);
                let c = clone_dyn(&*b);
                (image(&*b), image(&*c))
            });
            check("new_boxed", got.as_ref().map(|x| x.0.clone()), &spec)?;
            check("clone_dyn", got.map(|x| x.1), &spec)?;
        }
        1 => {
            let mut body = vec![cuts[0], cuts[1], 0, 0, 0, 0, 0, 0];
            body.extend_from_slice(content);
            check("SmbiosTag::new", catch(|| image(&*multiboot2::SmbiosTag::new(cuts[0], cuts[1], content))), &tag(13, &body))?;
        }
        2 => check("NetworkTag::new", catch(|| image(&*multiboot2::NetworkTag::new(content))), &tag(16, content))?,
        3 => {
            let (n, es, sh) = (cuts[0] as u32, [40u32, 64, cuts[1] as u32][cuts[2] as usize % 3], [cuts[3] as u32, 0xffff, 0xfff1][(sel as usize >> 4) % 3]);
            let mut body = vec![];
            body.extend(n.to_le_bytes());
            body.extend(es.to_le_bytes());
            body.extend(sh.to_le_bytes());
            body.extend_from_slice(content);
            check("ElfSectionsTag::new", catch(|| image(&*multiboot2::ElfSectionsTag::new(n, es, sh, content))), &tag(9, &body))?;
        }
        4 => {
            if let Ok(text) = std::str::from_utf8(content) {
                let mut body = content.to_vec();
                if !text.ends_with('\0') {
                    body.push(0);
                }
                check("CommandLineTag::new", catch(|| image(&*multiboot2::CommandLineTag::new(text))), &tag(1, &body))?;
                let mut mb = vec![];
                // (documented precondition: end > start)
                let end = cuts[0] as u32 + cuts[1] as u32 + 1;
                mb.extend((cuts[0] as u32).to_le_bytes());
                mb.extend(end.to_le_bytes());
                mb.extend_from_slice(&body);
                check("ModuleTag::new", catch(|| image(&*multiboot2::ModuleTag::new(cuts[0] as u32, end, text))), &tag(3, &mb))?;
            }
        }
        5 => {
            let ids: Vec<u32> = content.chunks_exact(4).map(|c| u32::from_le_bytes(c.try_into().unwrap())).collect();
            let reqs: Vec<multiboot2_header::MbiTagTypeId> = ids.iter().map(|i| multiboot2_header::MbiTagTypeId::new(*i)).collect();
            let fl = if sel & 0x80 == 0 { multiboot2_header::HeaderTagFlag::Required } else { multiboot2_header::HeaderTagFlag::Optional };
            let body: Vec<u8> = ids.iter().flat_map(|i| i.to_le_bytes()).collect();
            check("InformationRequestHeaderTag::new", catch(|| image(&*multiboot2_header::InformationRequestHeaderTag::new(fl, &reqs))), &hdr_tag(1, (sel >> 7) as u16, &body))?;
        }
        _ => {
            // boot-information builder: a custom tag, an SMBIOS tag and a network tag
            // made of the content; the walk of the built structure is those tags
            let k = cuts[0] as usize * content.len() / 255;
            let (a, b) = content.split_at(k.min(content.len()));
            let got = catch(|| {
                let custom = new_boxed::<DynSizedStructure<multiboot2::TagHeader>>(multiboot2::TagHeader::new(multiboot2::TagType::Custom(0x1234), 0), &[a]);
                let built = multiboot2::Builder::new().add_custom_tag(custom).add_smbios(multiboot2::SmbiosTag::new(2, 8, b)).network(multiboot2::NetworkTag::new(a)).build();
                image(&*built)
            });
            let mut sm = vec![2u8, 8, 0, 0, 0, 0, 0, 0];
            sm.extend_from_slice(b);
            match got {
                None => return Err("Builder: construction panicked".into()),
                Some(bytes) => {
                    let w = mb2_model::walk::walk_mbi(&bytes);
                    let found: Vec<Vec<u8>> = w.items.iter().map(|i| bytes[i.off..i.off + i.size as usize].to_vec()).collect();
                    let mut want = vec![tag(13, &sm), tag(16, a), tag(0x1234, a), mb2_model::encode::END_TAG.to_vec()];
                    let mut f = found.clone();
                    f.sort();
                    want.sort();
                    if w.panic_at.is_some() || f != want || found.last().map(|x| &x[..]) != Some(&mb2_model::encode::END_TAG[..]) || le32(&bytes, 0) as usize != bytes.len() {
                        return Err(format!("Builder: the built structure {} does not consist of the supplied tags", hex(&bytes[..bytes.len().min(96)])));
                    }
                }
            }
        }
    }
    Ok(())
}
