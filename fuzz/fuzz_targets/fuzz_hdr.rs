#![no_main]
// C09 / C11: header equivalent of fuzz_mbi.
include!("common.rs");

use libfuzzer_sys::fuzz_target;
use mb2_model::exercise_hdr::{exercise_loaded_hdr, typed_hdr_tag, HdrOpts};
use mb2_model::expect_hdr::expect_hdr;
use mb2_model::panics::catch;
use mb2_model::transcript::{Rec, Val};
use mb2_model::*;

fn stored(k: &str) -> bool {
    !k.split('.').any(|seg| seg == "dbg" || seg.starts_with('~'))
}

fuzz_target!(|data: &[u8]| {
    init();
    let region = fuzzdec::decode_hdr(data);
    let p = Poisoned::new(&region);
    let debug = data.first().map_or(true, |b| b & 0xC0 == 0);
    let opts = HdrOpts { debug, max_steps: region.len() / 8 + 4 };
    let mut rec = Rec::new(p.ptr() as usize);
    match catch(|| unsafe { multiboot2_header::Multiboot2Header::load(p.ptr().cast()) }) {
        None => rec.t.push("load", Val::Panic),
        Some(Err(e)) => rec.t.push("load", Val::Err(format!("{e:?}"))),
        Some(Ok(hdr)) => {
            rec.t.push("load", Val::Txt("Ok".into()));
            // items up to (not including) the one at which the walk panics
            let mut items = Vec::new();
            if let Some(mut it) = catch(|| hdr.iter()) {
                while items.len() <= region.len() / 8 {
                    match catch(|| it.next()) {
                        Some(Some(t)) => items.push(t),
                        _ => break,
                    }
                }
            }
            {
                for (i, tag) in items.iter().enumerate() {
                    let off = *tag as *const _ as *const u8 as usize - p.ptr() as usize;
                    p.poison_outside(off, std::mem::size_of_val(*tag));
                    typed_hdr_tag(&mut rec, &format!("x{i}"), tag, tag.header().typ() as u16 as u32, &opts);
                    p.unpoison_region();
                }
            }
            exercise_loaded_hdr(&mut rec, &hdr, &opts);
        }
    }
    let len = le32(&region, 8) as usize;
    // the x{i} lines duplicate t{i}; the oracles look at the regular keys
    rec.t.lines.retain(|(k, _)| !k.starts_with('x'));
    if let Err(m) = extent::validate_from(&rec.t, len, 16) {
        oracle_violation("fuzz_hdr", &format!("extent: {m}"));
    }
    let d = expect_hdr(&region).diff(&rec.t, &stored);
    if !d.is_empty() {
        oracle_violation("fuzz_hdr", &format!("model: {}", d.join("; ")));
    }
});
