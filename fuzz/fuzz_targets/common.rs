// Shared by the fuzz targets (included with `include!`).

use std::sync::Once;

extern "C" {
    fn __asan_poison_memory_region(addr: *const u8, size: usize);
    fn __asan_unpoison_memory_region(addr: *const u8, size: usize);
}

/// An 8-aligned copy of `bytes` with 64 poisoned bytes before and after it.
pub struct Poisoned {
    buf: Vec<u64>,
    len: usize,
}

const RED: usize = 64;

impl Poisoned {
    pub fn new(bytes: &[u8]) -> Self {
        let words = (bytes.len() + 7) / 8 + 2 * RED / 8;
        let mut buf = vec![0u64; words];
        unsafe {
            let base = buf.as_mut_ptr() as *mut u8;
            std::ptr::copy_nonoverlapping(bytes.as_ptr(), base.add(RED), bytes.len());
            __asan_poison_memory_region(base, RED);
            let tail = base.add(RED + bytes.len());
            __asan_poison_memory_region(tail, words * 8 - RED - bytes.len());
        }
        Self { buf, len: bytes.len() }
    }
    pub fn ptr(&self) -> *const u8 {
        unsafe { (self.buf.as_ptr() as *const u8).add(RED) }
    }
    pub fn len(&self) -> usize {
        self.len
    }
    /// Poisons everything of the region outside `[off, off+len)`.
    pub fn poison_outside(&self, off: usize, len: usize) {
        unsafe {
            __asan_poison_memory_region(self.ptr(), off.min(self.len));
            let end = (off + len).min(self.len);
            __asan_poison_memory_region(self.ptr().add(end), self.len - end);
        }
    }
    pub fn unpoison_region(&self) {
        unsafe { __asan_unpoison_memory_region(self.ptr(), self.len) }
    }
}

impl Drop for Poisoned {
    fn drop(&mut self) {
        unsafe { __asan_unpoison_memory_region(self.buf.as_ptr() as *const u8, self.buf.len() * 8) }
    }
}

static HOOK: Once = Once::new();

/// libfuzzer-sys installs an aborting panic hook; controlled panics are legal
/// outcomes here, so replace it once with the harness's quiet hook.
pub fn init() {
    HOOK.call_once(|| {
        mb2_model::panics::install_hook();
    });
}

pub fn exclude_d16() -> bool {
    std::env::var("MB2_EXCLUDE_D16").map(|v| v == "1").unwrap_or(false)
}

/// Oracle failures abort so that libFuzzer keeps the input.
pub fn oracle_violation(target: &str, msg: &str) -> ! {
    eprintln!("ORACLE-VIOLATION target={target} {msg}");
    std::process::abort()
}
