//! Prints `<type byte> <colours> <slack> <via> -> <classification>` for
//! conformant framebuffer tags (written field by field here, never through the
//! crate's constructors), classified directly and through the getter of a
//! loaded boot information. Built with panic=abort.

use multiboot2::{BootInformation, FramebufferTag, FramebufferType, TagHeader};
use multiboot2_common::DynSizedStructure;

fn fb_tag(ty: u8, colours: usize, slack: usize) -> Vec<u8> {
    let mut body = vec![0u8; 24];
    body[0..8].copy_from_slice(&0xb8000u64.to_le_bytes());
    body[8..12].copy_from_slice(&160u32.to_le_bytes());
    body[12..16].copy_from_slice(&80u32.to_le_bytes());
    body[16..20].copy_from_slice(&25u32.to_le_bytes());
    body[20] = 16;
    body[21] = ty;
    match ty {
        0 => {
            body.extend_from_slice(&(colours as u16).to_le_bytes());
            for c in 0..colours {
                body.extend_from_slice(&[c as u8, 1, 2]);
            }
        }
        1 => body.extend_from_slice(&[16, 8, 8, 8, 0, 8]),
        _ => {}
    }
    body.extend(std::iter::repeat(0x5A).take(slack));
    let mut t = Vec::new();
    t.extend_from_slice(&8u32.to_le_bytes());
    t.extend_from_slice(&((8 + body.len()) as u32).to_le_bytes());
    t.extend_from_slice(&body);
    while t.len() % 8 != 0 {
        t.push(0);
    }
    t
}

fn unknown(e: &dyn core::fmt::Debug) -> String {
    let s = format!("{e:?}");
    let digits: String = s.chars().filter(|c| c.is_ascii_digit()).collect();
    format!("unknown:{digits}")
}

fn class<E: core::fmt::Debug>(r: Result<FramebufferType, E>) -> String {
    match r {
        Ok(FramebufferType::Indexed { palette }) => format!("indexed:{}", palette.len()),
        Ok(FramebufferType::RGB { .. }) => "rgb".into(),
        Ok(FramebufferType::Text) => "text".into(),
        Err(e) => unknown(&e),
    }
}

fn aligned(b: &[u8]) -> Vec<u64> {
    let mut w = vec![0u64; b.len() / 8 + 1];
    unsafe { std::ptr::copy_nonoverlapping(b.as_ptr(), w.as_mut_ptr() as *mut u8, b.len()) };
    w
}

fn main() {
    println!("cfg-panic-abort={}", cfg!(panic = "abort"));
    for ty in 0..=255u8 {
        for colours in [0usize, 1, 2, 5] {
            if ty != 0 && colours != 0 {
                continue;
            }
            for slack in [0usize, 3] {
                let t = fb_tag(ty, colours, slack);
                let a = aligned(&t);
                let bytes = unsafe { core::slice::from_raw_parts(a.as_ptr() as *const u8, t.len()) };
                let g = DynSizedStructure::<TagHeader>::ref_from_slice(bytes).expect("conformant tag");
                let direct = class(g.cast::<FramebufferTag>().buffer_type());
                // the same tag as the only tag of a boot information
                let mut region = vec![0u8; 8];
                region.extend_from_slice(&t);
                region.extend_from_slice(&[0, 0, 0, 0, 8, 0, 0, 0]);
                let total = region.len() as u32;
                region[0..4].copy_from_slice(&total.to_le_bytes());
                let ra = aligned(&region);
                let mbi = unsafe { BootInformation::load(ra.as_ptr().cast()) }.expect("conformant boot information");
                let getter = match mbi.framebuffer_tag() {
                    None => "absent".to_string(),
                    Some(Ok(t)) => class(t.buffer_type()),
                    Some(Err(e)) => unknown(&e),
                };
                println!("{ty} {colours} {slack} direct -> {direct}");
                println!("{ty} {colours} {slack} getter -> {getter}");
            }
        }
    }
}
