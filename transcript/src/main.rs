//! C08 transcript server. Reads requests from stdin, one per line:
//!
//! ```text
//! M <hex>     boot information region (length = max(8, r8(total size)))
//! H <hex>     header region (length = max(16, r8(length)); defined enums)
//! ```
//!
//! and answers each with the address-free transcript of "load, walk, decode
//! stored data" (no Debug renderings, no derived sums), one `key = value` line
//! per API call, terminated by a line `.`. Every request is served in a forked
//! child with the region flush against a PROT_NONE page, so a crash of the code
//! under test becomes the outcome `CRASH <signal>` of that request.

use mb2_model::exercise_hdr::{exercise_hdr, HdrOpts};
use mb2_model::exercise_mbi::{exercise_mbi, MbiOpts};
use mb2_sandbox::{run_child, ChildResult, Guarded};
use std::io::{BufRead, Write};

fn main() {
    mb2_model::panics::install_hook();
    let mut g = Guarded::new(2 << 20);
    let stdin = std::io::stdin();
    let stdout = std::io::stdout();
    let mut out = stdout.lock();
    if std::env::args().any(|a| a == "--config") {
        let _ = writeln!(out, "profile={} builder={}", if cfg!(debug_assertions) { "dev" } else { "release" }, cfg!(feature = "builder"));
        return;
    }
    for line in stdin.lock().lines() {
        let Ok(line) = line else { break };
        let Some((kind, hex)) = line.split_once(' ') else {
            let _ = writeln!(out, "ERROR bad request\n.");
            let _ = out.flush();
            continue;
        };
        let Some(bytes) = mb2_model::unhex(hex.trim()) else {
            let _ = writeln!(out, "ERROR bad hex\n.");
            let _ = out.flush();
            continue;
        };
        let steps = bytes.len() / 8 + 8;
        let res = match kind {
            "M" => {
                let p = g.place_padded(&bytes, 8, 0xEE);
                run_child(|| {
                    let t = unsafe { exercise_mbi(p, &MbiOpts { debug: false, max_steps: steps, typed_all: true }) };
                    t.stored_only().render().into_bytes()
                })
            }
            "H" => {
                let p = g.place_padded(&bytes, 16, 0xEE);
                run_child(|| {
                    let t = unsafe { exercise_hdr(p, &HdrOpts { debug: false, max_steps: steps }) };
                    t.stored_only().render().into_bytes()
                })
            }
            _ => ChildResult::Broken(-2),
        };
        match res {
            ChildResult::Done(b) => {
                let _ = out.write_all(&b);
            }
            ChildResult::Signal(s) => {
                let _ = writeln!(out, "CRASH {}", ChildResult::signal_name(s));
            }
            ChildResult::Timeout => {
                let _ = writeln!(out, "TIMEOUT");
            }
            ChildResult::Broken(c) => {
                let _ = writeln!(out, "ERROR child {c}");
            }
        }
        let _ = writeln!(out, ".");
        let _ = out.flush();
    }
}
