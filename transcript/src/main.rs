//! C08 transcript server. Reads requests from stdin, one per line:
//!
//! ```text
//! M <hex>     boot information region (length = max(8, r8(total size)))
//! H <hex>     header region (length = max(16, r8(length)); defined enums)
//! K <n> <hex>  construct fixed-size tag number n (C07 numbering) from argument words
//! S <hex>     16-byte basic header: accessors, verify_checksum, calc_checksum
//! F <hex>     8-aligned image: find_header
//! ```
//!
//! and answers each with the address-free transcript of "load, walk, decode
//! stored data" (no Debug renderings, no derived sums), one `key = value` line
//! per API call, terminated by a line `.`. Every request is served in a forked
//! child with the region flush against a PROT_NONE page, so a crash of the code
//! under test becomes the outcome `CRASH <signal>` of that request.

use mb2_model::exercise_hdr::{exercise_hdr, HdrOpts};
use mb2_model::exercise_mbi::{exercise_mbi, MbiOpts};
use mb2_sandbox::{run_child, ChildResult, Guarded};
use std::io::{BufRead, Write};

/// Argument words consumed in declaration order (mirrors the C07 check).
struct Args<'a> {
    w: &'a [u64],
    i: usize,
}

impl Args<'_> {
    fn next(&mut self) -> u64 {
        let v = self.w.get(self.i).copied().unwrap_or(0x0102_0304_0506_0708u64.wrapping_mul(self.i as u64 + 1));
        self.i += 1;
        v
    }
    fn u8(&mut self) -> u8 {
        self.next() as u8
    }
    fn u16(&mut self) -> u16 {
        self.next() as u16
    }
    fn u32(&mut self) -> u32 {
        self.next() as u32
    }
    fn u64(&mut self) -> u64 {
        self.next()
    }
}

/// Builds the fixed-size tag that C07 numbers `ctor` from the argument words
/// and returns its `as_bytes()` (these constructors exist without the builder
/// feature, so every configuration can be asked).
fn construct(ctor: u8, words: &[u64]) -> Option<Vec<u8>> {
    use multiboot2 as m;
    use multiboot2_common::MaybeDynSized;
    use multiboot2_header as h;
    let mut a = Args { w: words, i: 0 };
    let flag = |x: u64| if x & 1 == 0 { h::HeaderTagFlag::Required } else { h::HeaderTagFlag::Optional };
    Some(match ctor {
        0 => {
            let (v, cs, of, c16, ds, fl, cl, c16l, dl) = (a.u16(), a.u16(), a.u32(), a.u16(), a.u16(), a.u16(), a.u16(), a.u16(), a.u16());
            m::ApmTag::new(v, cs, of, c16, ds, fl, cl, c16l, dl).as_bytes().to_vec()
        }
        1 => {
            let (lo, up) = (a.u32(), a.u32());
            m::BasicMemoryInfoTag::new(lo, up).as_bytes().to_vec()
        }
        2 => {
            let (bd, sl, pt) = (a.u32(), a.u32(), a.u32());
            m::BootdevTag::new(bd, sl, pt).as_bytes().to_vec()
        }
        5 => m::EFISdt32Tag::new(a.u32()).as_bytes().to_vec(),
        6 => m::EFISdt64Tag::new(a.u64()).as_bytes().to_vec(),
        7 => m::EFIImageHandle32Tag::new(a.u32()).as_bytes().to_vec(),
        8 => m::EFIImageHandle64Tag::new(a.u64()).as_bytes().to_vec(),
        9 => m::EFIBootServicesNotExitedTag::new().as_bytes().to_vec(),
        11 => m::EndTag::default().as_bytes().to_vec(),
        15 => m::ImageLoadPhysAddrTag::new(a.u32()).as_bytes().to_vec(),
        21 => {
            let (ck, rev, rs) = (a.u8(), a.u8(), a.u32());
            let oem: [u8; 6] = core::array::from_fn(|i| 0x41 + ((words.first().copied().unwrap_or(0) >> (8 * i)) as u8) % 26);
            m::RsdpV1Tag::new(ck, oem, rev, rs).as_bytes().to_vec()
        }
        22 => {
            let (ck, rev, rs, len, xs, ek) = (a.u8(), a.u8(), a.u32(), a.u32(), a.u64(), a.u8());
            let oem: [u8; 6] = core::array::from_fn(|i| 0x61 + ((words.first().copied().unwrap_or(0) >> (8 * i)) as u8) % 26);
            m::RsdpV2Tag::new(ck, oem, rev, rs, len, xs, ek).as_bytes().to_vec()
        }
        26 => {
            let fl = flag(a.u64());
            let (ha, la, le, be) = (a.u32(), a.u32(), a.u32(), a.u32());
            h::AddressHeaderTag::new(fl, ha, la, le, be).as_bytes().to_vec()
        }
        27 => {
            let fl = flag(a.u64());
            let cf = if a.u64() & 1 == 0 { h::ConsoleHeaderTagFlags::ConsoleRequired } else { h::ConsoleHeaderTagFlags::EgaTextSupported };
            h::ConsoleHeaderTag::new(fl, cf).as_bytes().to_vec()
        }
        28 => h::EndHeaderTag::new().as_bytes().to_vec(),
        29 => {
            let fl = flag(a.u64());
            h::EntryAddressHeaderTag::new(fl, a.u32()).as_bytes().to_vec()
        }
        30 => {
            let fl = flag(a.u64());
            h::EntryEfi32HeaderTag::new(fl, a.u32()).as_bytes().to_vec()
        }
        31 => {
            let fl = flag(a.u64());
            h::EntryEfi64HeaderTag::new(fl, a.u32()).as_bytes().to_vec()
        }
        32 => {
            let fl = flag(a.u64());
            let (wi, he, de) = (a.u32(), a.u32(), a.u32());
            h::FramebufferHeaderTag::new(fl, wi, he, de).as_bytes().to_vec()
        }
        34 => h::ModuleAlignHeaderTag::new(flag(a.u64())).as_bytes().to_vec(),
        35 => {
            let fl = flag(a.u64());
            let (mn, mx, al) = (a.u32(), a.u32(), a.u32());
            let pf = match a.u64() % 3 {
                0 => h::RelocatableHeaderTagPreference::None,
                1 => h::RelocatableHeaderTagPreference::Low,
                _ => h::RelocatableHeaderTagPreference::High,
            };
            h::RelocatableHeaderTag::new(fl, mn, mx, al, pf).as_bytes().to_vec()
        }
        36 => h::EfiBootServiceHeaderTag::new(flag(a.u64())).as_bytes().to_vec(),
        _ => return None,
    })
}

fn main() {
    mb2_model::panics::install_hook();
    // the names buffer for ELF section names must sit at the same address in
    // all four servers, or their transcripts would differ for that reason
    if mb2_model::elfnames::install().is_none() {
        eprintln!("transcript server: cannot map the names buffer at its fixed address");
        std::process::exit(3);
    }
    let _ = mb2_model::panics::catch(mb2_model::warm::warmup);
    let mut g = Guarded::new(8 << 20);
    let stdin = std::io::stdin();
    let stdout = std::io::stdout();
    let mut out = stdout.lock();
    if std::env::args().any(|a| a == "--config") {
        let _ = writeln!(out, "profile={} builder={}", if cfg!(debug_assertions) { "dev" } else { "release" }, cfg!(feature = "builder"));
        return;
    }
    for line in stdin.lock().lines() {
        let Ok(line) = line else { break };
        let Some((kind, hex)) = line.split_once(' ') else {
            let _ = writeln!(out, "ERROR bad request\n.");
            let _ = out.flush();
            continue;
        };
        if kind == "K" {
            // K <ctor> <hex of little-endian u64 argument words>
            let mut it = hex.split(' ');
            let ctor: u8 = it.next().and_then(|x| x.parse().ok()).unwrap_or(255);
            let raw = it.next().and_then(|x| mb2_model::unhex(x.trim())).unwrap_or_default();
            let words: Vec<u64> = raw.chunks_exact(8).map(|c| u64::from_le_bytes(c.try_into().unwrap())).collect();
            match mb2_model::panics::catch(|| construct(ctor, &words)) {
                Some(Some(b)) => {
                    let _ = writeln!(out, "bytes = '{}'", mb2_model::hex(&b));
                }
                Some(None) => {
                    let _ = writeln!(out, "ERROR unknown constructor");
                }
                None => {
                    let _ = writeln!(out, "bytes = PANIC");
                }
            }
            let _ = writeln!(out, ".");
            let _ = out.flush();
            continue;
        }
        if kind == "S" {
            // S <hex of 16 bytes>: the fixed part of a header viewed as
            // Multiboot2BasicHeader (no memory behind it is needed)
            let raw = mb2_model::unhex(hex.trim()).unwrap_or_default();
            if raw.len() != 16 {
                let _ = writeln!(out, "ERROR bad basic header\n.");
                let _ = out.flush();
                continue;
            }
            let mut words = [0u64; 2];
            unsafe { std::ptr::copy_nonoverlapping(raw.as_ptr(), words.as_mut_ptr() as *mut u8, 16) };
            let h = unsafe { &*(words.as_ptr() as *const multiboot2_header::Multiboot2BasicHeader) };
            let mut rec = mb2_model::transcript::Rec::new(0);
            rec.call("magic".into(), || mb2_model::Val::U(h.header_magic() as u64));
            rec.call("arch".into(), || mb2_model::Val::U(h.arch() as u32 as u64));
            rec.call("length".into(), || mb2_model::Val::U(h.length() as u64));
            rec.call("checksum".into(), || mb2_model::Val::U(h.checksum() as u64));
            rec.call("verify".into(), || mb2_model::Val::B(h.verify_checksum()));
            rec.call("calc".into(), || mb2_model::Val::U(multiboot2_header::Multiboot2Header::calc_checksum(h.header_magic(), h.arch(), h.length()) as u64));
            let _ = out.write_all(rec.t.render().as_bytes());
            let _ = writeln!(out, ".");
            let _ = out.flush();
            continue;
        }
        let Some(bytes) = mb2_model::unhex(hex.trim()) else {
            let _ = writeln!(out, "ERROR bad hex\n.");
            let _ = out.flush();
            continue;
        };
        if kind == "F" {
            // F <hex>: search an 8-aligned image for the header
            let p = g.place_padded(&bytes, 0, 0xEE);
            let len = bytes.len();
            let res = run_child(|| {
                let slice = unsafe { core::slice::from_raw_parts(p as *const u8, len) };
                let mut rec = mb2_model::transcript::Rec::new(p as usize);
                match mb2_model::panics::catch(|| multiboot2_header::Multiboot2Header::find_header(slice)) {
                    None => rec.t.push("r", mb2_model::Val::Panic),
                    Some(Ok(None)) => rec.t.push("r", mb2_model::Val::None),
                    Some(Err(e)) => rec.t.push("r", mb2_model::Val::Err(format!("{e:?}"))),
                    Some(Ok(Some((s, idx)))) => {
                        let v = rec.ext_raw(s.as_ptr(), s.len());
                        rec.t.push("r", v);
                        rec.t.push("idx", mb2_model::Val::U(idx as u64));
                    }
                }
                rec.t.render().into_bytes()
            });
            match res {
                ChildResult::Done(b) => {
                    let _ = out.write_all(&b);
                }
                ChildResult::Signal(s) => {
                    let _ = writeln!(out, "CRASH {}", ChildResult::signal_name(s));
                }
                ChildResult::Timeout => {
                    let _ = writeln!(out, "TIMEOUT");
                }
                ChildResult::Broken(c) => {
                    let _ = writeln!(out, "ERROR child {c}");
                }
            }
            let _ = writeln!(out, ".");
            let _ = out.flush();
            continue;
        }
        let steps = bytes.len() / 8 + 8;
        let res = match kind {
            "M" => {
                let p = g.place_padded(&bytes, 8, 0xEE);
                run_child(|| {
                    let t = unsafe { exercise_mbi(p, &MbiOpts { debug: false, max_steps: steps, typed_all: true }) };
                    t.stored_only().render().into_bytes()
                })
            }
            "H" => {
                let p = g.place_padded(&bytes, 16, 0xEE);
                run_child(|| {
                    let t = unsafe { exercise_hdr(p, &HdrOpts { debug: false, max_steps: steps }) };
                    t.stored_only().render().into_bytes()
                })
            }
            _ => ChildResult::Broken(-2),
        };
        match res {
            ChildResult::Done(b) => {
                let _ = out.write_all(&b);
            }
            ChildResult::Signal(s) => {
                let _ = writeln!(out, "CRASH {}", ChildResult::signal_name(s));
            }
            ChildResult::Timeout => {
                let _ = writeln!(out, "TIMEOUT");
            }
            ChildResult::Broken(c) => {
                let _ = writeln!(out, "ERROR child {c}");
            }
        }
        let _ = writeln!(out, ".");
        let _ = out.flush();
    }
}
