#!/bin/bash
# Builds the transcript server in its four configurations:
# {dev, release} x {default features, --no-default-features}.
set -e
cd "$(dirname "$0")"
export CARGO_NET_OFFLINE=true
[ -f Cargo.lock ] || cp ../harness/Cargo.lock Cargo.lock
cargo build --offline -q --target-dir target-default
cargo build --offline -q --target-dir target-default --release
cargo build --offline -q --target-dir target-nodef --no-default-features
cargo build --offline -q --target-dir target-nodef --no-default-features --release
