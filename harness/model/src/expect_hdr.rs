//! Reference model of the Multiboot2 header (spec §3.1): expected transcript
//! for any region whose enumerated fields hold defined values.

use crate::bytes::*;
use crate::transcript::{Expected, Val};
use crate::walk::*;

pub const HDR_KIND_NAMES: [(&str, u32); 10] = [
    ("information_request", 1),
    ("address", 2),
    ("entry_address", 3),
    ("entry_efi32", 8),
    ("entry_efi64", 9),
    ("console", 4),
    ("framebuffer", 5),
    ("module_align", 6),
    ("efi_bs", 7),
    ("relocatable", 10),
];

/// Unpadded spec size of the fixed-size header tags.
pub fn hdr_sized_spec_size(kind: u32) -> Option<usize> {
    Some(match kind {
        0 => 8,
        2 => 24,
        3 => 12,
        4 => 12,
        5 => 20,
        6 => 8,
        7 => 8,
        8 => 12,
        9 => 12,
        10 => 24,
        _ => return None,
    })
}

pub fn hdr_cast_succeeds(kind: u32, size: usize) -> bool {
    if kind == 1 {
        return size >= 8 && (size - 8) % 4 == 0;
    }
    match hdr_sized_spec_size(kind) {
        Some(spec) => r8(size) == r8(spec),
        None => true,
    }
}

pub fn expect_hdr_tag(exp: &mut Expected, p: &str, b: &[u8], it: &Item, kind: u32) {
    let off = it.off;
    let size = it.size as usize;
    if kind > 10 {
        return;
    }
    if !hdr_cast_succeeds(kind, size) {
        exp.panic(format!("{p}.cast"));
        return;
    }
    exp.is(format!("{p}.cast"), Val::Ext(off, r8(size)));
    let k = |n: &str| format!("{p}.{n}");
    exp.u(k("typ"), le16(b, off) as u64);
    exp.u(k("flags"), le16(b, off + 2) as u64);
    exp.u(k("size"), size as u64);
    match kind {
        1 => {
            exp.is(k("requests"), Val::Ext(off + 8, size - 8));
            for j in 0..(size - 8) / 4 {
                exp.u(format!("{p}.r{j}"), le32(b, off + 8 + 4 * j) as u64);
            }
        }
        2 => {
            exp.u(k("header_addr"), le32(b, off + 8) as u64);
            exp.u(k("load_addr"), le32(b, off + 12) as u64);
            exp.u(k("load_end_addr"), le32(b, off + 16) as u64);
            exp.u(k("bss_end_addr"), le32(b, off + 20) as u64);
        }
        3 | 8 | 9 => exp.u(k("entry_addr"), le32(b, off + 8) as u64),
        4 => exp.u(k("console_flags"), le32(b, off + 8) as u64),
        5 => {
            exp.u(k("width"), le32(b, off + 8) as u64);
            exp.u(k("height"), le32(b, off + 12) as u64);
            exp.u(k("depth"), le32(b, off + 16) as u64);
        }
        10 => {
            exp.u(k("min_addr"), le32(b, off + 8) as u64);
            exp.u(k("max_addr"), le32(b, off + 12) as u64);
            exp.u(k("align"), le32(b, off + 16) as u64);
            exp.u(k("preference"), le32(b, off + 20) as u64);
        }
        _ => {}
    }
}

/// Expected transcript of `exercise_hdr` (region holds `max(16, r8(length))`
/// bytes).
pub fn expect_hdr(region: &[u8]) -> Expected {
    let mut exp = Expected::new();
    let load = predict_hdr_load(region);
    if load != HdrLoad::Ok {
        exp.is("load", Val::Err(load.text().into()));
        return exp;
    }
    exp.is("load", Val::Txt("Ok".into()));
    exp.u("h.magic", le32(region, 0) as u64);
    exp.u("h.arch", le32(region, 4) as u64);
    exp.u("h.length", le32(region, 8) as u64);
    exp.u("h.checksum", le32(region, 12) as u64);
    exp.is("h.verify", Val::B(true));
    let w = walk_hdr(region);
    for (i, it) in w.items.iter().enumerate() {
        let p = format!("w{i}");
        exp.is(p.clone(), Val::Ext(it.off, r8(it.size as usize)));
        exp.u(format!("{p}.typ"), it.typ as u64);
        exp.u(format!("{p}.flags"), it.flags as u64);
        exp.u(format!("{p}.size"), it.size as u64);
        exp.is(format!("{p}.payload"), Val::Ext(it.off + 8, it.size as usize - 8));
    }
    {
        let n = w.items.len();
        let mut ks = vec![0usize, 1, 2, n / 2, n.saturating_sub(1), n, n + 1, n + 2, n + 3, n + 9];
        ks.sort_unstable();
        ks.dedup();
        for k in ks {
            let key = format!("w.nth{k}");
            if k < n {
                exp.is(key, Val::Ext(w.items[k].off, r8(w.items[k].size as usize)));
            } else if w.panic_at.is_some() {
                exp.panic(key);
            } else {
                exp.is(key, Val::None);
            }
        }
        if w.panic_at.is_some() {
            exp.panic("w.count_after1");
        } else {
            exp.u("w.count_after1", n.saturating_sub(1) as u64);
        }
        if n >= 2 {
            exp.is("w.clone_after1", Val::Ext(w.items[1].off, r8(w.items[1].size as usize)));
        } else if w.panic_at.is_some() {
            exp.panic("w.clone_after1");
        } else {
            exp.is("w.clone_after1", Val::None);
        }
        if w.panic_at.is_some() {
            exp.panic("w.last");
        } else if n == 0 {
            exp.is("w.last", Val::None);
        } else {
            exp.is("w.last", Val::Ext(w.items[n - 1].off, r8(w.items[n - 1].size as usize)));
        }
    }
    match w.panic_at {
        Some(k) => {
            exp.panic(format!("w{k}"));
            // polling again after the caught panic: any controlled outcome
            exp.any("w.after_panic");
        }
        None => {
            exp.is("w.end", Val::None);
            exp.is("w.after", Val::None);
        }
    }
    for (i, it) in w.items.iter().enumerate() {
        expect_hdr_tag(&mut exp, &format!("t{i}"), region, it, it.typ);
    }
    for (name, kind) in HDR_KIND_NAMES {
        if w.first_of(kind).map_or(false, |(_, it)| !hdr_cast_succeeds(kind, it.size as usize)) {
            // malformed first match: rejected by a panic, or treated as absent
            exp.either(format!("g.{name}"), vec![Val::Panic, Val::None]);
            continue;
        }
        let v = match w.first_of(kind) {
            Some((_, it)) => {
                if hdr_cast_succeeds(kind, it.size as usize) {
                    Val::Ext(it.off, r8(it.size as usize))
                } else {
                    Val::Panic
                }
            }
            None => {
                if w.panic_at.is_some() {
                    Val::Panic
                } else {
                    Val::None
                }
            }
        };
        exp.is(format!("g.{name}"), v);
    }
    exp
}

/// Rewrites every enumerated field the crate will interpret to a defined value
/// (C09–C11 quantify over such inputs only). Sizes are untouched, so the walk
/// is unchanged. Returns the number of fields rewritten.
pub fn sanitize_hdr_enums(region: &mut [u8]) -> usize {
    let mut n = 0;
    if region.len() < 16 {
        return 0;
    }
    let arch = le32(region, 4);
    if arch != 0 && arch != 4 {
        put32(region, 4, if arch & 1 == 0 { 0 } else { 4 });
        n += 1;
    }
    let len = le32(region, 8) as usize;
    if len < 16 || len % 8 != 0 || len > region.len() {
        return n;
    }
    let mut off = 16;
    while off < len {
        let typ = le16(region, off);
        if typ > 10 {
            put16(region, off, typ % 11);
            n += 1;
        }
        let flags = le16(region, off + 2);
        if flags > 1 {
            put16(region, off + 2, flags & 1);
            n += 1;
        }
        let typ = le16(region, off);
        let size = le32(region, off + 4) as usize;
        if size < 8 || off + size > len {
            break;
        }
        if typ == 4 && r8(size) == 16 {
            let v = le32(region, off + 8);
            if v > 1 {
                put32(region, off + 8, v & 1);
                n += 1;
            }
        }
        if typ == 10 && r8(size) == 24 {
            let v = le32(region, off + 20);
            if v > 2 {
                put32(region, off + 20, v % 3);
                n += 1;
            }
        }
        off += r8(size);
    }
    n
}
