//! Warm-up: every harness process uses the library once on a fixed, rich,
//! spec-conformant boot information and header *before* any case runs. A
//! result that the library kept from an earlier call (a cache, a once-
//! initialised value) would then be a result about this decoy, and every
//! oracle would see it in the cases that follow. The forked sandbox children
//! inherit the state.

use crate::bytes::Aligned;
use crate::encode::{conformant_hdr_tag, conformant_tag, hdr, hdr_end_tag, mbi};
use crate::exercise_hdr::{exercise_hdr, HdrOpts};
use crate::exercise_mbi::{exercise_mbi, MbiOpts};

/// Returns the two decoy transcripts (rendered), for callers that want to
/// compare a later repetition with the first run.
pub fn warmup() -> (String, String) {
    crate::elfnames::install();
    let tags: Vec<Vec<u8>> = (1u32..=21).map(|k| conformant_tag(k, 0xDEC0 + k as u64, 2, 0x0201_0000 | k)).collect();
    let region = mbi(&tags, 0, 0, true);
    let a: &'static Aligned = Box::leak(Box::new(Aligned::new(&region)));
    let t1 = unsafe { exercise_mbi(a.as_ptr(), &MbiOpts { debug: true, max_steps: 1 << 12, typed_all: true }) }.render();
    let mut htags: Vec<Vec<u8>> = (1u32..=10).map(|k| conformant_hdr_tag(k, 0xDEC0 + k as u64, 3, k)).collect();
    htags.push(hdr_end_tag());
    let h = hdr(0, &htags, 0);
    let b: &'static Aligned = Box::leak(Box::new(Aligned::new(&h)));
    let t2 = unsafe { exercise_hdr(b.as_ptr(), &HdrOpts::default()) }.render();
    (t1, t2)
}
