//! Warm-up: every harness process uses the library once on a fixed, rich,
//! spec-conformant boot information and header *before* any case runs. A
//! result that the library kept from an earlier call (a cache, a once-
//! initialised value) would then be a result about this decoy, and every
//! oracle would see it in the cases that follow. The forked sandbox children
//! inherit the state.

use crate::bytes::Aligned;
use crate::encode::{conformant_hdr_tag, conformant_tag, hdr, hdr_end_tag, mbi};
use crate::exercise_hdr::{exercise_hdr, HdrOpts};
use crate::exercise_mbi::{exercise_mbi, MbiOpts};

/// The decoy boot information: every kind once; the ELF-sections tag has two
/// 64-byte headers in use whose names resolve in the harness-owned buffer.
pub fn decoy_region() -> &'static Aligned {
    static R: std::sync::OnceLock<&'static Aligned> = std::sync::OnceLock::new();
    R.get_or_init(|| {
        let base = crate::elfnames::install().unwrap_or(0x10_0000) as u64;
        let mut tags: Vec<Vec<u8>> = (1u32..=21).filter(|k| *k != 9).map(|k| conformant_tag(k, 0xDEC0 + k as u64, 2, 0x0201_0000 | k)).collect();
        let mut body = vec![0u8; 12];
        crate::bytes::put32(&mut body, 0, 2);
        crate::bytes::put32(&mut body, 4, 64);
        crate::bytes::put32(&mut body, 8, 1);
        body.extend(crate::realistic::elf_section_header(64, 1, 1, 6, base, 0x40, 1, 0xDEC0, 0));
        body.extend(crate::realistic::elf_section_header(64, 7, 3, 2, base, crate::elfnames::names().len() as u64, 0, 0xDEC0, 1));
        tags.insert(8, crate::encode::tag(9, &body));
        let region = mbi(&tags, 0, 0, true);
        Box::leak(Box::new(Aligned::new(&region)))
    })
}

/// The loaded decoy (None if it does not load - then nothing is related to it).
pub fn decoy_mbi() -> Option<&'static multiboot2::BootInformation<'static>> {
    static M: std::sync::OnceLock<Option<usize>> = std::sync::OnceLock::new();
    let p = M.get_or_init(|| {
        let a = decoy_region();
        let m = crate::panics::catch(|| unsafe { multiboot2::BootInformation::load(a.as_ptr().cast()) })?.ok()?;
        Some(Box::leak(Box::new(m)) as *const multiboot2::BootInformation<'static> as usize)
    });
    p.map(|p| unsafe { &*(p as *const multiboot2::BootInformation<'static>) })
}

/// Returns the two decoy transcripts (rendered), for callers that want to
/// compare a later repetition with the first run.
pub fn warmup() -> (String, String) {
    crate::elfnames::install();
    let a = decoy_region();
    let t1 = unsafe { exercise_mbi(a.as_ptr(), &MbiOpts { debug: true, max_steps: 1 << 12, typed_all: true }) }.render();
    let mut htags: Vec<Vec<u8>> = (1u32..=10).map(|k| conformant_hdr_tag(k, 0xDEC0 + k as u64, 3, k)).collect();
    htags.push(hdr_end_tag());
    let h = hdr(0, &htags, 0);
    let b: &'static Aligned = Box::leak(Box::new(Aligned::new(&h)));
    let t2 = unsafe { exercise_hdr(b.as_ptr(), &HdrOpts::default()) }.render();
    (t1, t2)
}
