//! Drives the public API of `multiboot2-header` over a loaded header and
//! records a transcript (same conventions as `exercise_mbi`).

use crate::transcript::{Rec, Transcript, Val};
use multiboot2_common::DynSizedStructure;
use multiboot2_header::*;
use crate::panics::catch;

type Generic = DynSizedStructure<HeaderTagHeader>;

#[derive(Clone, Copy, Debug)]
pub struct HdrOpts {
    pub debug: bool,
    pub max_steps: usize,
}

impl Default for HdrOpts {
    fn default() -> Self {
        Self { debug: true, max_steps: 1 << 16 }
    }
}

macro_rules! u {
    ($rec:expr, $p:expr, $name:expr, $e:expr) => {
        $rec.call(format!("{}.{}", $p, $name), || Val::U(($e) as u64))
    };
}

fn dbg<T: core::fmt::Debug + ?Sized>(rec: &mut Rec, key: String, t: &T, on: bool) {
    if !on {
        return;
    }
    match catch(|| format!("{:?}", t)) {
        Some(_) => rec.t.push(key, Val::Ok),
        None => rec.t.push(key, Val::Panic),
    }
}

/// # Safety
/// `ptr` must be 8-aligned and valid for reads of `max(16, r8(length word))`
/// bytes; all enumerated fields the crate will look at must hold defined values.
pub unsafe fn exercise_hdr(ptr: *const u8, opts: &HdrOpts) -> Transcript {
    let mut rec = Rec::new(ptr as usize);
    let loaded = catch(|| unsafe { Multiboot2Header::load(ptr.cast()) });
    let hdr = match loaded {
        None => {
            rec.t.push("load", Val::Panic);
            return rec.t;
        }
        Some(Err(e)) => {
            rec.t.push("load", Val::Err(format!("{e:?}")));
            return rec.t;
        }
        Some(Ok(h)) => {
            rec.t.push("load", Val::Txt("Ok".into()));
            h
        }
    };
    exercise_loaded_hdr(&mut rec, &hdr, opts);
    rec.t
}

pub fn exercise_loaded_hdr(rec: &mut Rec, hdr: &Multiboot2Header, opts: &HdrOpts) {
    u!(rec, "h", "magic", hdr.header_magic());
    u!(rec, "h", "arch", hdr.arch() as u32);
    u!(rec, "h", "length", hdr.length());
    u!(rec, "h", "checksum", hdr.checksum());
    rec.call("h.verify".into(), || Val::B(hdr.verify_checksum()));

    let mut items: Vec<&Generic> = Vec::new();
    if let Some(mut it) = catch(|| hdr.iter()) {
        loop {
            let i = items.len();
            if i > opts.max_steps {
                rec.t.push("w.end", Val::Txt("step-bound".into()));
                break;
            }
            if i < 8 {
                let sh = catch(|| it.size_hint());
                rec.t.push(format!("w.dbg.size_hint{i}"), sh.map_or(Val::Panic, |(lo, hi)| Val::Txt(format!("{lo}..{hi:?}"))));
                if opts.debug && i < 2 {
                    dbg(rec, format!("w.dbg.iter{i}"), &it, true);
                }
            }
            match catch(|| it.next()) {
                None => {
                    rec.t.push(format!("w{i}"), Val::Panic);
                    let again = catch(|| it.next().map(|t| rec.ext(t)));
                    rec.t.push(
                        "w.after_panic",
                        match again {
                            None => Val::Panic,
                            Some(None) => Val::None,
                            Some(Some(v)) => v,
                        },
                    );
                    break;
                }
                Some(None) => {
                    rec.t.push("w.end", Val::None);
                    let again = catch(|| (it.next().is_none(), it.next().is_none()));
                    rec.t.push(
                        "w.after",
                        match again {
                            Some((true, true)) => Val::None,
                            Some(_) => Val::Txt("revived".into()),
                            None => Val::Panic,
                        },
                    );
                    break;
                }
                Some(Some(tag)) => {
                    let v = rec.ext(tag);
                    let p = format!("w{i}");
                    rec.t.push(p.clone(), v);
                    u!(rec, p, "typ", tag.header().typ() as u16);
                    u!(rec, p, "flags", tag.header().flags() as u16);
                    u!(rec, p, "size", tag.header().size());
                    let pv = catch(|| rec.ext(tag.payload()));
                    rec.t.push(format!("{p}.payload"), pv.unwrap_or(Val::Panic));
                    items.push(tag);
                }
            }
        }
    } else {
        rec.t.push("w.new", Val::Panic);
    }

    // --- the same walk through nth() / count() (secondary iterator methods) ---
    {
        let n = items.len();
        let mut ks = vec![0usize, 1, 2, n / 2, n.saturating_sub(1), n, n + 1, n + 2, n + 3, n + 9];
        ks.sort_unstable();
        ks.dedup();
        for k in ks {
            let v = catch(|| hdr.iter().nth(k).map(|t| rec.ext(t)));
            rec.t.push(format!("w.nth{k}"), match v { None => Val::Panic, Some(None) => Val::None, Some(Some(v)) => v });
        }
        let v = catch(|| {
            let mut it = hdr.iter();
            it.next();
            it.count()
        });
        rec.t.push("w.count_after1", v.map_or(Val::Panic, |c| Val::U(c as u64)));
        let v = catch(|| {
            let mut it = hdr.iter();
            it.next();
            let mut c = it.clone();
            c.next().map(|t| rec.ext(t))
        });
        rec.t.push("w.clone_after1", match v { None => Val::Panic, Some(None) => Val::None, Some(Some(v)) => v });
        let v = catch(|| hdr.iter().last().map(|t| rec.ext(t)));
        rec.t.push("w.last", match v { None => Val::Panic, Some(None) => Val::None, Some(Some(v)) => v });
    }

    for (i, tag) in items.iter().enumerate() {
        typed_hdr_tag(rec, &format!("t{i}"), tag, tag.header().typ() as u16 as u32, opts);
        dbg(rec, format!("w{i}.dbg"), *tag, opts.debug);
    }

    macro_rules! g {
        ($name:expr, $e:expr) => {{
            let v = catch(|| match $e {
                None => Val::None,
                Some(t) => rec.ext(t),
            });
            rec.t.push(format!("g.{}", $name), v.unwrap_or(Val::Panic));
        }};
    }
    g!("information_request", hdr.information_request_tag());
    g!("address", hdr.address_tag());
    g!("entry_address", hdr.entry_address_tag());
    g!("entry_efi32", hdr.entry_address_efi32_tag());
    g!("entry_efi64", hdr.entry_address_efi64_tag());
    g!("console", hdr.console_flags_tag());
    g!("framebuffer", hdr.framebuffer_tag());
    g!("module_align", hdr.module_align_tag());
    g!("efi_bs", hdr.efi_boot_services_tag());
    g!("relocatable", hdr.relocatable_tag());

    dbg(rec, "dbg.hdr".into(), hdr, opts.debug);
}

macro_rules! cast {
    ($rec:expr, $p:expr, $tag:expr, $T:ty) => {{
        match catch(|| $tag.cast::<$T>()) {
            None => {
                $rec.t.push(format!("{}.cast", $p), Val::Panic);
                return;
            }
            Some(t) => {
                let v = $rec.ext(t);
                $rec.t.push(format!("{}.cast", $p), v);
                t
            }
        }
    }};
}

macro_rules! common {
    ($rec:expr, $p:expr, $t:expr) => {
        u!($rec, $p, "typ", $t.typ() as u16);
        u!($rec, $p, "flags", $t.flags() as u16);
        u!($rec, $p, "size", $t.size());
    };
}

pub fn typed_hdr_tag(rec: &mut Rec, p: &str, tag: &Generic, kind: u32, opts: &HdrOpts) {
    let d = opts.debug;
    match kind {
        0 => {
            let t = cast!(rec, p, tag, EndHeaderTag);
            common!(rec, p, t);
            dbg(rec, format!("{p}.dbg"), t, d);
        }
        1 => {
            let t = cast!(rec, p, tag, InformationRequestHeaderTag);
            common!(rec, p, t);
            match catch(|| t.requests()) {
                None => rec.t.push(format!("{p}.requests"), Val::Panic),
                Some(r) => {
                    let v = rec.ext(r);
                    rec.t.push(format!("{p}.requests"), v);
                    for (j, x) in r.iter().enumerate() {
                        u!(rec, p, format!("r{j}"), u32::from(*x));
                    }
                }
            }
            dbg(rec, format!("{p}.dbg"), t, d);
        }
        2 => {
            let t = cast!(rec, p, tag, AddressHeaderTag);
            common!(rec, p, t);
            u!(rec, p, "header_addr", t.header_addr());
            u!(rec, p, "load_addr", t.load_addr());
            u!(rec, p, "load_end_addr", t.load_end_addr());
            u!(rec, p, "bss_end_addr", t.bss_end_addr());
            dbg(rec, format!("{p}.dbg"), t, d);
        }
        3 => {
            let t = cast!(rec, p, tag, EntryAddressHeaderTag);
            common!(rec, p, t);
            u!(rec, p, "entry_addr", t.entry_addr());
            dbg(rec, format!("{p}.dbg"), t, d);
        }
        4 => {
            let t = cast!(rec, p, tag, ConsoleHeaderTag);
            common!(rec, p, t);
            u!(rec, p, "console_flags", t.console_flags() as u32);
            dbg(rec, format!("{p}.dbg"), t, d);
        }
        5 => {
            let t = cast!(rec, p, tag, FramebufferHeaderTag);
            common!(rec, p, t);
            u!(rec, p, "width", t.width());
            u!(rec, p, "height", t.height());
            u!(rec, p, "depth", t.depth());
            dbg(rec, format!("{p}.dbg"), t, d);
        }
        6 => {
            let t = cast!(rec, p, tag, ModuleAlignHeaderTag);
            common!(rec, p, t);
            dbg(rec, format!("{p}.dbg"), t, d);
        }
        7 => {
            let t = cast!(rec, p, tag, EfiBootServiceHeaderTag);
            common!(rec, p, t);
            dbg(rec, format!("{p}.dbg"), t, d);
        }
        8 => {
            let t = cast!(rec, p, tag, EntryEfi32HeaderTag);
            common!(rec, p, t);
            u!(rec, p, "entry_addr", t.entry_addr());
            dbg(rec, format!("{p}.dbg"), t, d);
        }
        9 => {
            let t = cast!(rec, p, tag, EntryEfi64HeaderTag);
            common!(rec, p, t);
            u!(rec, p, "entry_addr", t.entry_addr());
            dbg(rec, format!("{p}.dbg"), t, d);
        }
        10 => {
            let t = cast!(rec, p, tag, RelocatableHeaderTag);
            common!(rec, p, t);
            u!(rec, p, "min_addr", t.min_addr());
            u!(rec, p, "max_addr", t.max_addr());
            u!(rec, p, "align", t.align());
            u!(rec, p, "preference", t.preference() as u32);
            dbg(rec, format!("{p}.dbg"), t, d);
        }
        _ => {}
    }
}

/// Stand-alone header tag through `ref_from_slice` + `cast` (size sweeps).
///
/// # Safety
/// `ptr` valid for `len` bytes; enumerated fields defined.
pub unsafe fn exercise_single_hdr_tag(ptr: *const u8, len: usize, kind: u32, opts: &HdrOpts) -> Transcript {
    let mut rec = Rec::new(ptr as usize);
    let slice = unsafe { core::slice::from_raw_parts(ptr, len) };
    match catch(|| Generic::ref_from_slice(slice)) {
        None => rec.t.push("ref", Val::Panic),
        Some(Err(e)) => rec.t.push("ref", Val::Err(format!("{e:?}"))),
        Some(Ok(tag)) => {
            let v = rec.ext(tag);
            rec.t.push("ref", v);
            typed_hdr_tag(&mut rec, "t0", tag, kind, opts);
        }
    }
    rec.t
}
