//! Relations between two tags of the same kind that are alive at the same
//! time: equality, ordering and hashing through the types' own trait
//! implementations. Used with a tag and an independent object (only the laws
//! that hold for any two values are required) and with a tag and a copy of it
//! that differs outside its declared size only (the two must be equal).

use crate::panics::catch;
use crate::transcript::Val;
use core::cmp::Ordering;
use multiboot2::*;
use multiboot2_common::DynSizedStructure;
use std::hash::{Hash, Hasher};

type Generic = DynSizedStructure<TagHeader>;

pub fn hash_of<T: Hash + ?Sized>(t: &T) -> u64 {
    let mut h = std::collections::hash_map::DefaultHasher::new();
    t.hash(&mut h);
    h.finish()
}

/// The laws for `x` and `y`; with `must_be_equal` also `x == y`.
fn laws_full<T: PartialEq + Eq + Ord + Hash + ?Sized>(x: &T, y: &T, must_be_equal: bool) -> bool {
    let e = *x == *y;
    let mut ok = e == (*y == *x) && (*x != *y) == !e && *x == *x && x.cmp(x) == Ordering::Equal;
    ok &= x.cmp(y) == y.cmp(x).reverse();
    ok &= (x.cmp(y) == Ordering::Equal) == e;
    ok &= x.partial_cmp(y) == Some(x.cmp(y));
    if e {
        ok &= hash_of(x) == hash_of(y);
    }
    ok &= hash_of(x) == hash_of(x);
    ok && (!must_be_equal || e)
}

fn laws_eq<T: PartialEq + ?Sized>(x: &T, y: &T, must_be_equal: bool) -> bool {
    let e = *x == *y;
    let ok = e == (*y == *x) && (*x != *y) == !e && *x == *x;
    ok && (!must_be_equal || e)
}

/// `a` and `b` viewed as the built-in `kind`: `B(true)` when the laws hold,
/// `B(false)` when one is broken, `Panic` when a comparison (or the cast)
/// panicked, `None` for kinds without comparison traits.
pub fn relate(kind: u32, a: &Generic, b: &Generic, must_be_equal: bool) -> Val {
    macro_rules! full {
        ($T:ty) => {
            catch(|| laws_full::<$T>(a.cast::<$T>(), b.cast::<$T>(), must_be_equal)).map_or(Val::Panic, Val::B)
        };
    }
    macro_rules! eq {
        ($T:ty) => {
            catch(|| laws_eq::<$T>(a.cast::<$T>(), b.cast::<$T>(), must_be_equal)).map_or(Val::Panic, Val::B)
        };
    }
    match kind {
        1 => full!(CommandLineTag),
        2 => full!(BootLoaderNameTag),
        3 => full!(ModuleTag),
        4 => full!(BasicMemoryInfoTag),
        6 => eq!(MemoryMapTag),
        7 => full!(VBEInfoTag),
        8 => eq!(FramebufferTag),
        9 => eq!(ElfSectionsTag),
        11 => full!(EFISdt32Tag),
        12 => full!(EFISdt64Tag),
        13 => full!(SmbiosTag),
        14 => full!(RsdpV1Tag),
        15 => full!(RsdpV2Tag),
        17 => full!(EFIMemoryMapTag),
        19 => full!(EFIImageHandle32Tag),
        20 => full!(EFIImageHandle64Tag),
        21 => full!(ImageLoadPhysAddrTag),
        _ => Val::None,
    }
}

/// The same for two ELF sections (of possibly different tags and layouts).
pub fn relate_sections(x: &ElfSection, y: &ElfSection) -> Val {
    catch(|| {
        let e = *x == *y;
        let mut ok = e == (*y == *x) && (*x != *y) == !e && *x == *x;
        ok &= x.cmp(y) == y.cmp(x).reverse();
        ok &= (x.cmp(y) == Ordering::Equal) == e;
        if e {
            ok &= hash_of(x) == hash_of(y);
        }
        ok
    })
    .map_or(Val::Panic, Val::B)
}

/// For an ELF-sections tag image: one companion tag per section-header slot
/// (at most 8) that holds a single header with the same leading bytes in the
/// *other* entry size (40 <-> 64). A section of the original and the section
/// of its companion have equal leading bytes but different lengths - what a
/// comparison must not be confused by.
pub fn elf_twins(raw: &[u8]) -> Vec<crate::bytes::Aligned> {
    use crate::bytes::*;
    let mut out = Vec::new();
    if raw.len() < 20 {
        return out;
    }
    let size = (le32(raw, 4) as usize).min(raw.len());
    let n = le32(raw, 8) as usize;
    let es = le32(raw, 12) as usize;
    if size < 20 || (es != 40 && es != 64) {
        return out;
    }
    let other = 104 - es;
    let slots = n.min((size - 20) / es).min(8);
    for e in 0..slots {
        let src = &raw[20 + e * es..20 + (e + 1) * es];
        let mut body = vec![0u8; 12 + other];
        put32(&mut body, 0, 1);
        put32(&mut body, 4, other as u32);
        put32(&mut body, 8, 0);
        let k = es.min(other);
        body[12..12 + k].copy_from_slice(&src[..k]);
        for i in k..other {
            body[12 + i] = marker(0x7717, i);
        }
        let mut img = crate::encode::tag(9, &body);
        crate::encode::pad8(&mut img, 0);
        out.push(Aligned::new(&img));
    }
    out
}
