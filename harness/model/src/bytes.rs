//! Little-endian field access by literal offset, rounding, hex.

/// `x` rounded up to the next multiple of 8 (wide arithmetic: never wraps for
/// 32-bit inputs).
pub const fn r8(x: usize) -> usize {
    (x + 7) / 8 * 8
}

pub fn le16(b: &[u8], off: usize) -> u16 {
    u16::from_le_bytes([b[off], b[off + 1]])
}

pub fn le32(b: &[u8], off: usize) -> u32 {
    u32::from_le_bytes([b[off], b[off + 1], b[off + 2], b[off + 3]])
}

pub fn le64(b: &[u8], off: usize) -> u64 {
    let mut a = [0u8; 8];
    a.copy_from_slice(&b[off..off + 8]);
    u64::from_le_bytes(a)
}

pub fn put16(b: &mut [u8], off: usize, v: u16) {
    b[off..off + 2].copy_from_slice(&v.to_le_bytes());
}

pub fn put32(b: &mut [u8], off: usize, v: u32) {
    b[off..off + 4].copy_from_slice(&v.to_le_bytes());
}

pub fn put64(b: &mut [u8], off: usize, v: u64) {
    b[off..off + 8].copy_from_slice(&v.to_le_bytes());
}

pub fn hex(b: &[u8]) -> String {
    const D: &[u8; 16] = b"0123456789abcdef";
    let mut s = String::with_capacity(b.len() * 2);
    for &x in b {
        s.push(D[(x >> 4) as usize] as char);
        s.push(D[(x & 15) as usize] as char);
    }
    s
}

pub fn unhex(s: &str) -> Option<Vec<u8>> {
    let s = s.as_bytes();
    if s.len() % 2 != 0 {
        return None;
    }
    let d = |c: u8| -> Option<u8> {
        match c {
            b'0'..=b'9' => Some(c - b'0'),
            b'a'..=b'f' => Some(c - b'a' + 10),
            b'A'..=b'F' => Some(c - b'A' + 10),
            _ => None,
        }
    };
    let mut v = Vec::with_capacity(s.len() / 2);
    for p in s.chunks(2) {
        v.push(d(p[0])? << 4 | d(p[1])?);
    }
    Some(v)
}

/// FNV-1a, used for "distinct case" bookkeeping and marker bytes. Not from any
/// library so that results are stable across toolchains.
pub fn fnv(b: &[u8]) -> u64 {
    let mut h: u64 = 0xcbf29ce484222325;
    for &x in b {
        h ^= x as u64;
        h = h.wrapping_mul(0x100000001b3);
    }
    h
}

/// Position-dependent marker byte: never 0, differs between neighbouring
/// offsets, depends on `key`. Used so that a field read from the wrong offset
/// or width yields a different value.
pub fn marker(key: u64, off: usize) -> u8 {
    let mut x = key ^ (off as u64).wrapping_mul(0x9E3779B97F4A7C15);
    x ^= x >> 29;
    x = x.wrapping_mul(0xBF58476D1CE4E5B9);
    x ^= x >> 32;
    let b = (x & 0xff) as u8;
    if b == 0 {
        0xA7
    } else {
        b
    }
}

/// An 8-aligned heap copy of some bytes (length preserved exactly).
pub struct Aligned {
    words: Vec<u64>,
    len: usize,
}

impl Aligned {
    pub fn new(b: &[u8]) -> Self {
        let mut words = vec![0u64; (b.len() + 7) / 8 + 1];
        unsafe {
            std::ptr::copy_nonoverlapping(b.as_ptr(), words.as_mut_ptr() as *mut u8, b.len());
        }
        Self { words, len: b.len() }
    }
    pub fn as_slice(&self) -> &[u8] {
        unsafe { std::slice::from_raw_parts(self.words.as_ptr() as *const u8, self.len) }
    }
    pub fn as_ptr(&self) -> *const u8 {
        self.words.as_ptr() as *const u8
    }
    /// Overwrites the content in place (same address, same length).
    pub fn overwrite(&mut self, b: &[u8]) {
        assert_eq!(b.len(), self.len);
        unsafe {
            std::ptr::copy_nonoverlapping(b.as_ptr(), self.words.as_mut_ptr() as *mut u8, b.len());
        }
    }
    /// A view that starts `mis` bytes after an 8-aligned address.
    pub fn with_offset(b: &[u8], mis: usize) -> (Self, usize) {
        let mut v = vec![0u8; mis];
        v.extend_from_slice(b);
        (Self::new(&v), mis)
    }
}
