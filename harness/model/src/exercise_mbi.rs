//! Drives the public API of the `multiboot2` crate over a loaded boot
//! information and records every result as a transcript line.
//!
//! Key scheme (`{i}` = index in `tags()` order, `{j}` = index inside a tag):
//!
//! * `load`                       – `'Ok'`, `Err(<LoadError Debug>)` or `PANIC`
//! * `mbi.start|end|total|ptr`    – offsets relative to the input pointer
//! * `w{i}` / `.typ/.size/.payload` – generic item of `tags()`; `w.end`, `w.after`
//! * `t{i}.cast`, `t{i}.<field>`  – item `i` viewed as the type its type word names
//! * `g.<kind>`                   – typed getter: `None` / extent of the tag / `PANIC`
//! * `m{i}`, `m.end`              – `module_tags()`
//! * `….dbg…`                     – Debug formatting outcome (`ok` / `PANIC`)
//! * `….~name`                    – derived sums/differences (not "stored data")

use crate::transcript::{Rec, Transcript, Val};
use multiboot2::*;
use multiboot2_common::DynSizedStructure;
use crate::panics::catch;

type Generic = DynSizedStructure<TagHeader>;

#[derive(Clone, Copy, Debug)]
pub struct MbiOpts {
    /// Run the Debug formatters too.
    pub debug: bool,
    /// Upper bound for items any iterator may yield before the run is declared
    /// non-terminating (`'step-bound'`).
    pub max_steps: usize,
    /// View every walked item as the type its type word names (not only the
    /// first of each kind through the getters).
    pub typed_all: bool,
}

impl Default for MbiOpts {
    fn default() -> Self {
        Self { debug: true, max_steps: 1 << 16, typed_all: true }
    }
}

fn str_val(rec: &Rec, r: Result<&str, StringError>) -> Val {
    rec.str_res(r, |e| match e {
        StringError::MissingNul(_) => Val::ErrNul,
        StringError::Utf8(_) => Val::ErrUtf8,
    })
}

fn utf8_val(rec: &Rec, r: Result<&str, core::str::Utf8Error>) -> Val {
    rec.str_res(r, |_| Val::ErrUtf8)
}

macro_rules! u {
    ($rec:expr, $p:expr, $name:expr, $e:expr) => {
        $rec.call(format!("{}.{}", $p, $name), || Val::U(($e) as u64))
    };
}

fn dbg<T: core::fmt::Debug + ?Sized>(rec: &mut Rec, key: String, t: &T, on: bool) -> Option<String> {
    if !on {
        return None;
    }
    match catch(|| format!("{:?}", t)) {
        Some(s) => {
            rec.t.push(key, Val::Ok);
            Some(s)
        }
        None => {
            rec.t.push(key, Val::Panic);
            None
        }
    }
}

/// Loads the boot information at `ptr` and exercises it.
///
/// # Safety
/// `ptr` must be 8-aligned and valid for reads of `max(8, r8(first word))` bytes.
pub unsafe fn exercise_mbi(ptr: *const u8, opts: &MbiOpts) -> Transcript {
    let mut rec = Rec::new(ptr as usize);
    let loaded = catch(|| unsafe { BootInformation::load(ptr.cast()) });
    let mbi = match loaded {
        None => {
            rec.t.push("load", Val::Panic);
            return rec.t;
        }
        Some(Err(e)) => {
            rec.t.push("load", Val::Err(format!("{e:?}")));
            return rec.t;
        }
        Some(Ok(m)) => {
            rec.t.push("load", Val::Txt("Ok".into()));
            m
        }
    };
    exercise_loaded(&mut rec, &mbi, opts);
    rec.t
}

pub fn exercise_loaded(rec: &mut Rec, mbi: &BootInformation, opts: &MbiOpts) {
    let base = rec.base;
    rec.call("mbi.start".into(), || Val::U(mbi.start_address().wrapping_sub(base) as u64));
    rec.call("mbi.end".into(), || Val::U(mbi.end_address().wrapping_sub(base) as u64));
    rec.call("mbi.total".into(), || Val::U(mbi.total_size() as u64));
    rec.call("mbi.ptr".into(), || Val::U((mbi.as_ptr() as usize).wrapping_sub(base) as u64));

    // --- generic walk ---------------------------------------------------
    let mut items: Vec<&Generic> = Vec::new();
    if let Some(mut it) = {
        let r = catch(|| mbi.tags());
        if r.is_none() {
            rec.t.push("w.new", Val::Panic);
        }
        r
    } {
        loop {
            let i = items.len();
            if i > opts.max_steps {
                rec.t.push("w.end", Val::Txt("step-bound".into()));
                break;
            }
            // size_hint() must be callable at every point (it may be conservative)
            if i < 8 {
                let sh = catch(|| it.size_hint());
                rec.t.push(format!("w.dbg.size_hint{i}"), sh.map_or(Val::Panic, |(lo, hi)| Val::Txt(format!("{lo}..{hi:?}"))));
            }
            match catch(|| it.next()) {
                None => {
                    rec.t.push(format!("w{i}"), Val::Panic);
                    // a caller that caught the panic may poll again: still no crash,
                    // and anything handed out must still lie inside the region
                    let again = catch(|| it.next().map(|t| rec.ext(t)));
                    rec.t.push(
                        "w.after_panic",
                        match again {
                            None => Val::Panic,
                            Some(None) => Val::None,
                            Some(Some(v)) => v,
                        },
                    );
                    break;
                }
                Some(None) => {
                    rec.t.push("w.end", Val::None);
                    let again = catch(|| (it.next().is_none(), it.next().is_none()));
                    rec.t.push(
                        "w.after",
                        match again {
                            Some((true, true)) => Val::None,
                            Some(_) => Val::Txt("revived".into()),
                            None => Val::Panic,
                        },
                    );
                    break;
                }
                Some(Some(tag)) => {
                    let v = rec.ext(tag);
                    rec.t.push(format!("w{i}"), v);
                    let p = format!("w{i}");
                    u!(rec, p, "typ", u32::from(tag.header().typ));
                    u!(rec, p, "size", tag.header().size);
                    let pv = catch(|| rec.ext(tag.payload()));
                    rec.t.push(format!("{p}.payload"), pv.unwrap_or(Val::Panic));
                    items.push(tag);
                }
            }
        }
    }

    // --- the same walk through nth() / count() (secondary iterator methods) ---
    {
        let n = items.len();
        let mut ks = vec![0usize, 1, 2, n / 2, n.saturating_sub(1), n, n + 1, n + 2, n + 3, n + 9];
        ks.sort_unstable();
        ks.dedup();
        for k in ks {
            let v = catch(|| mbi.tags().nth(k).map(|t| rec.ext(t)));
            rec.t.push(format!("w.nth{k}"), match v { None => Val::Panic, Some(None) => Val::None, Some(Some(v)) => v });
        }
        let v = catch(|| {
            let mut it = mbi.tags();
            it.next();
            it.count()
        });
        rec.t.push("w.count_after1", v.map_or(Val::Panic, |c| Val::U(c as u64)));
        let v = catch(|| {
            let mut it = mbi.tags();
            it.next();
            let mut c = it.clone();
            c.next().map(|t| rec.ext(t))
        });
        rec.t.push("w.clone_after1", match v { None => Val::Panic, Some(None) => Val::None, Some(Some(v)) => v });
        let v = catch(|| mbi.tags().last().map(|t| rec.ext(t)));
        rec.t.push("w.last", match v { None => Val::Panic, Some(None) => Val::None, Some(Some(v)) => v });
    }

    // --- every item through the type its type word names ------------------
    if opts.typed_all {
        for (i, tag) in items.iter().enumerate() {
            typed_tag(rec, &format!("t{i}"), tag, opts);
            if opts.debug {
                dbg(rec, format!("w{i}.dbg"), *tag, true);
            }
        }
    }

    // --- typed getters ------------------------------------------------------
    macro_rules! g {
        ($name:expr, $e:expr) => {{
            let v = catch(|| match $e {
                None => Val::None,
                Some(t) => rec.ext(t),
            });
            rec.t.push(format!("g.{}", $name), v.unwrap_or(Val::Panic));
        }};
    }
    g!("apm", mbi.apm_tag());
    g!("basic_meminfo", mbi.basic_memory_info_tag());
    g!("boot_loader_name", mbi.boot_loader_name_tag());
    g!("bootdev", mbi.bootdev_tag());
    g!("cmdline", mbi.command_line_tag());
    g!("efi_bs", mbi.efi_bs_not_exited_tag());
    g!("efi_mmap", mbi.efi_memory_map_tag());
    g!("efi_sdt32", mbi.efi_sdt32_tag());
    g!("efi_sdt64", mbi.efi_sdt64_tag());
    g!("efi_ih32", mbi.efi_ih32_tag());
    g!("efi_ih64", mbi.efi_ih64_tag());
    g!("elf", mbi.elf_sections_tag());
    {
        let v = catch(|| match mbi.framebuffer_tag() {
            None => Val::None,
            Some(Ok(t)) => rec.ext(t),
            Some(Err(e)) => fb_err(&e),
        });
        rec.t.push("g.framebuffer", v.unwrap_or(Val::Panic));
    }
    g!("load_base", mbi.load_base_addr_tag());
    g!("mmap", mbi.memory_map_tag());
    g!("network", mbi.network_tag());
    g!("rsdp1", mbi.rsdp_v1_tag());
    g!("rsdp2", mbi.rsdp_v2_tag());
    g!("smbios", mbi.smbios_tag());
    g!("vbe", mbi.vbe_info_tag());
    g!("end", mbi.get_tag::<EndTag>());
    g!("module", mbi.get_tag::<ModuleTag>());
    {
        #[allow(deprecated)]
        let v = catch(|| match mbi.elf_sections() {
            None => Val::None,
            Some(_) => Val::Ok,
        });
        rec.t.push("g.elf_depr", v.unwrap_or(Val::Panic));
    }

    // --- module iterator ------------------------------------------------------
    if let Some(mut it) = catch(|| mbi.module_tags()) {
        let mut i = 0usize;
        loop {
            if i > opts.max_steps {
                rec.t.push("m.end", Val::Txt("step-bound".into()));
                break;
            }
            match catch(|| it.next()) {
                None => {
                    rec.t.push(format!("m{i}"), Val::Panic);
                    break;
                }
                Some(None) => {
                    rec.t.push("m.end", Val::None);
                    break;
                }
                Some(Some(m)) => {
                    let v = rec.ext(m);
                    rec.t.push(format!("m{i}"), v);
                    if opts.debug && i < 2 {
                        dbg(rec, format!("m{i}.dbg.iter"), &it, true);
                        let _ = catch(|| it.size_hint());
                    }
                    i += 1;
                }
            }
        }
        if opts.debug {
            if let Some(it2) = catch(|| mbi.module_tags()) {
                dbg(rec, "m.dbg".into(), &it2, true);
            }
        }
    }

    if opts.debug {
        dbg(rec, "dbg.mbi".into(), mbi, true);
        if let Some(r) = catch(|| format!("{:#?}", mbi)) {
            let _ = r;
            rec.t.push("dbg.mbi#", Val::Ok);
        } else {
            rec.t.push("dbg.mbi#", Val::Panic);
        }
    }
}

/// Views `tag` as the built-in type its type word names and records all
/// accessors under prefix `p`.
pub fn typed_tag(rec: &mut Rec, p: &str, tag: &Generic, opts: &MbiOpts) {
    let typ = u32::from(tag.header().typ);
    typed_tag_as(rec, p, tag, typ, opts)
}

macro_rules! cast {
    ($rec:expr, $p:expr, $tag:expr, $T:ty) => {{
        match catch(|| $tag.cast::<$T>()) {
            None => {
                $rec.t.push(format!("{}.cast", $p), Val::Panic);
                return;
            }
            Some(t) => {
                let v = $rec.ext(t);
                $rec.t.push(format!("{}.cast", $p), v);
                t
            }
        }
    }};
}

/// Like [`typed_tag`] but with the kind chosen by the caller (`kind` is the
/// specification's type number).
pub fn typed_tag_as(rec: &mut Rec, p: &str, tag: &Generic, kind: u32, opts: &MbiOpts) {
    typed_tag_fields(rec, p, tag, kind, opts);
    // a second object of the same kind is alive (the decoy's tag): equality,
    // ordering and hashing between the two obey their laws and touch nothing
    // outside either tag
    let ck = format!("{p}.cast");
    let cast_ok = matches!(rec.t.lines.iter().rev().find(|(k, _)| *k == ck), Some((_, Val::Ext(..))));
    // (not for structures of megabytes: the relations hash and compare every byte)
    if cast_ok && (tag.header().size as usize) < (1 << 20) {
        if let Some(d) = crate::warm::decoy_mbi() {
            let other = catch(|| d.tags().find(|t| u32::from(t.header().typ) == kind)).flatten();
            if let Some(o) = other {
                let v = crate::relate::relate(kind, tag, o, false);
                if v != Val::None {
                    rec.t.push(format!("{p}.rel"), v);
                }
            }
        }
    }
}

fn typed_tag_fields(rec: &mut Rec, p: &str, tag: &Generic, kind: u32, opts: &MbiOpts) {
    let d = opts.debug;
    match kind {
        0 => {
            let t = cast!(rec, p, tag, EndTag);
            dbg(rec, format!("{p}.dbg"), t, d);
        }
        1 => {
            let t = cast!(rec, p, tag, CommandLineTag);
            let v = catch(|| str_val(rec, t.cmdline())).unwrap_or(Val::Panic);
            rec.t.push(format!("{p}.cmdline"), v);
            dbg(rec, format!("{p}.dbg"), t, d);
        }
        2 => {
            let t = cast!(rec, p, tag, BootLoaderNameTag);
            let v = catch(|| str_val(rec, t.name())).unwrap_or(Val::Panic);
            rec.t.push(format!("{p}.name"), v);
            u!(rec, p, "typ", u32::from(t.typ()));
            u!(rec, p, "size", t.size());
            dbg(rec, format!("{p}.dbg"), t, d);
        }
        3 => {
            let t = cast!(rec, p, tag, ModuleTag);
            u!(rec, p, "start", t.start_address());
            u!(rec, p, "end", t.end_address());
            let v = catch(|| str_val(rec, t.cmdline())).unwrap_or(Val::Panic);
            rec.t.push(format!("{p}.cmdline"), v);
            u!(rec, p, "~module_size", t.module_size());
            dbg(rec, format!("{p}.dbg"), t, d);
        }
        4 => {
            let t = cast!(rec, p, tag, BasicMemoryInfoTag);
            u!(rec, p, "lower", t.memory_lower());
            u!(rec, p, "upper", t.memory_upper());
            dbg(rec, format!("{p}.dbg"), t, d);
        }
        5 => {
            let t = cast!(rec, p, tag, BootdevTag);
            u!(rec, p, "biosdev", t.biosdev());
            u!(rec, p, "slice", t.slice());
            u!(rec, p, "part", t.part());
            dbg(rec, format!("{p}.dbg"), t, d);
        }
        6 => {
            let t = cast!(rec, p, tag, MemoryMapTag);
            u!(rec, p, "entry_size", t.entry_size());
            u!(rec, p, "entry_version", t.entry_version());
            match catch(|| t.memory_areas()) {
                None => rec.t.push(format!("{p}.areas"), Val::Panic),
                Some(areas) => {
                    let v = rec.ext(areas);
                    rec.t.push(format!("{p}.areas"), v);
                    for (j, a) in areas.iter().enumerate() {
                        let q = format!("{p}.a{j}");
                        u!(rec, q, "base", a.start_address());
                        u!(rec, q, "len", a.size());
                        u!(rec, q, "typ", u32::from(a.typ()));
                        u!(rec, q, "~end", a.end_address());
                    }
                }
            }
            dbg(rec, format!("{p}.dbg"), t, d);
        }
        7 => {
            let t = cast!(rec, p, tag, VBEInfoTag);
            u!(rec, p, "mode", t.mode());
            u!(rec, p, "if_seg", t.interface_segment());
            u!(rec, p, "if_off", t.interface_offset());
            u!(rec, p, "if_len", t.interface_length());
            if let Some(ci) = catch(|| t.control_info()) {
                let q = format!("{p}.ci");
                u!(rec, q, "signature", u32::from_le_bytes(ci.signature));
                u!(rec, q, "version", { ci.version });
                u!(rec, q, "oem_string_ptr", { ci.oem_string_ptr });
                u!(rec, q, "capabilities", { ci.capabilities }.bits());
                u!(rec, q, "mode_list_ptr", { ci.mode_list_ptr });
                u!(rec, q, "total_memory", { ci.total_memory });
                u!(rec, q, "oem_software_revision", { ci.oem_software_revision });
                u!(rec, q, "oem_vendor_name_ptr", { ci.oem_vendor_name_ptr });
                u!(rec, q, "oem_product_name_ptr", { ci.oem_product_name_ptr });
                u!(rec, q, "oem_product_revision_ptr", { ci.oem_product_revision_ptr });
                dbg(rec, format!("{q}.dbg"), &ci, d);
            } else {
                rec.t.push(format!("{p}.ci"), Val::Panic);
            }
            if let Some(mi) = catch(|| t.mode_info()) {
                let q = format!("{p}.mi");
                u!(rec, q, "mode_attributes", { mi.mode_attributes }.bits());
                u!(rec, q, "window_a_attributes", { mi.window_a_attributes }.bits());
                u!(rec, q, "window_b_attributes", { mi.window_b_attributes }.bits());
                u!(rec, q, "window_granularity", { mi.window_granularity });
                u!(rec, q, "window_size", { mi.window_size });
                u!(rec, q, "window_a_segment", { mi.window_a_segment });
                u!(rec, q, "window_b_segment", { mi.window_b_segment });
                u!(rec, q, "window_function_ptr", { mi.window_function_ptr });
                u!(rec, q, "pitch", { mi.pitch });
                u!(rec, q, "resolution_x", { mi.resolution }.0);
                u!(rec, q, "resolution_y", { mi.resolution }.1);
                u!(rec, q, "char_x", { mi.character_size }.0);
                u!(rec, q, "char_y", { mi.character_size }.1);
                u!(rec, q, "number_of_planes", { mi.number_of_planes });
                u!(rec, q, "bpp", { mi.bpp });
                u!(rec, q, "number_of_banks", { mi.number_of_banks });
                u!(rec, q, "memory_model", { mi.memory_model } as u8);
                u!(rec, q, "bank_size", { mi.bank_size });
                u!(rec, q, "number_of_image_pages", { mi.number_of_image_pages });
                u!(rec, q, "red_size", { mi.red_field }.size);
                u!(rec, q, "red_pos", { mi.red_field }.position);
                u!(rec, q, "green_size", { mi.green_field }.size);
                u!(rec, q, "green_pos", { mi.green_field }.position);
                u!(rec, q, "blue_size", { mi.blue_field }.size);
                u!(rec, q, "blue_pos", { mi.blue_field }.position);
                u!(rec, q, "rsvd_size", { mi.reserved_field }.size);
                u!(rec, q, "rsvd_pos", { mi.reserved_field }.position);
                u!(rec, q, "direct_color_attributes", { mi.direct_color_attributes }.bits());
                u!(rec, q, "framebuffer_base_ptr", { mi.framebuffer_base_ptr });
                u!(rec, q, "offscreen_memory_offset", { mi.offscreen_memory_offset });
                u!(rec, q, "offscreen_memory_size", { mi.offscreen_memory_size });
                dbg(rec, format!("{q}.dbg"), &mi, d);
            } else {
                rec.t.push(format!("{p}.mi"), Val::Panic);
            }
            dbg(rec, format!("{p}.dbg"), t, d);
        }
        8 => {
            let t = cast!(rec, p, tag, FramebufferTag);
            u!(rec, p, "address", t.address());
            u!(rec, p, "pitch", t.pitch());
            u!(rec, p, "width", t.width());
            u!(rec, p, "height", t.height());
            u!(rec, p, "bpp", t.bpp());
            match catch(|| t.buffer_type()) {
                None => rec.t.push(format!("{p}.bt"), Val::Panic),
                Some(Err(e)) => rec.t.push(format!("{p}.bt"), fb_err(&e)),
                Some(Ok(FramebufferType::Text)) => rec.t.push(format!("{p}.bt"), Val::Txt("text".into())),
                Some(Ok(FramebufferType::RGB { red, green, blue })) => {
                    rec.t.push(format!("{p}.bt"), Val::Txt("rgb".into()));
                    let packed = u64::from_le_bytes([
                        red.position,
                        red.size,
                        green.position,
                        green.size,
                        blue.position,
                        blue.size,
                        0,
                        0,
                    ]);
                    rec.t.push(format!("{p}.bt.rgb"), Val::U(packed));
                }
                Some(Ok(FramebufferType::Indexed { palette })) => {
                    rec.t.push(format!("{p}.bt"), Val::Txt("indexed".into()));
                    let v = rec.ext(palette);
                    rec.t.push(format!("{p}.bt.palette"), v);
                }
            }
            dbg(rec, format!("{p}.dbg"), t, d);
        }
        9 => {
            let t = cast!(rec, p, tag, ElfSectionsTag);
            u!(rec, p, "num", t.number_of_sections());
            u!(rec, p, "entsize", t.entry_size());
            u!(rec, p, "shndx", t.shndx());
            match catch(|| t.sections()) {
                None => rec.t.push(format!("{p}.s.new"), Val::Panic),
                Some(mut it) => {
                    rec.t.push(format!("{p}.s.new"), Val::Ok);
                    let v = catch(|| Val::U(it.len() as u64)).unwrap_or(Val::Panic);
                    rec.t.push(format!("{p}.s.len0"), v);
                    // name() follows an address stored in the tag: only where every
                    // header refers to the harness-owned names buffer
                    let names_ok = {
                        let sz = tag.header().size as usize;
                        let raw = unsafe { core::slice::from_raw_parts(tag as *const Generic as *const u8, sz.min(1 << 24)) };
                        let (grub, spec) = crate::elfnames::names_mode(raw);
                        grub || spec
                    };
                    // companions: every header once more, with the same leading bytes
                    // in the other entry size, as a section of its own tag
                    let twins = {
                        let sz = tag.header().size as usize;
                        let raw = unsafe { core::slice::from_raw_parts(tag as *const Generic as *const u8, sz.min(1 << 24)) };
                        crate::relate::elf_twins(raw)
                    };
                    let twin_secs: Vec<ElfSection> = twins
                        .iter()
                        .filter_map(|a| catch(|| Generic::ref_from_slice(a.as_slice()).ok().and_then(|g| g.cast::<ElfSectionsTag>().sections().next())).flatten())
                        .collect();
                    if d {
                        dbg(rec, format!("{p}.s.dbg"), &it, true);
                    }
                    let mut j = 0usize;
                    loop {
                        if j > opts.max_steps {
                            rec.t.push(format!("{p}.s.end"), Val::Txt("step-bound".into()));
                            break;
                        }
                        match catch(|| it.next()) {
                            None => {
                                rec.t.push(format!("{p}.s{j}"), Val::Panic);
                                break;
                            }
                            Some(None) => {
                                rec.t.push(format!("{p}.s.end"), Val::None);
                                break;
                            }
                            Some(Some(s)) => {
                                let q = format!("{p}.s{j}");
                                rec.t.push(q.clone(), Val::Ok);
                                u!(rec, q, "raw_type", s.section_type_raw());
                                rec.call(format!("{q}.type"), || Val::U(s.section_type() as u32 as u64));
                                u!(rec, q, "flags", s.flags().bits());
                                rec.call(format!("{q}.allocated"), || Val::B(s.is_allocated()));
                                u!(rec, q, "addr", s.start_address());
                                u!(rec, q, "size", s.size());
                                u!(rec, q, "addralign", s.addralign());
                                u!(rec, q, "~end", s.end_address());
                                u!(rec, q, "len_after", it.len());
                                if let Some(ds) = crate::warm::decoy_mbi().and_then(|m| catch(|| m.elf_sections_tag().and_then(|t| t.sections().next())).flatten()) {
                                    let v = crate::relate::relate_sections(&s, &ds);
                                    let v2 = crate::relate::relate_sections(&ds, &s);
                                    rec.t.push(format!("{q}.rel"), if v == v2 { v } else { Val::B(false) });
                                }
                                if !twin_secs.is_empty() && j < 8 {
                                    let mut all = Val::B(true);
                                    for ts in &twin_secs {
                                        for v in [crate::relate::relate_sections(ts, &s), crate::relate::relate_sections(&s, ts)] {
                                            if v != Val::B(true) {
                                                all = v;
                                            }
                                        }
                                    }
                                    rec.t.push(format!("{q}.rel_twins"), all);
                                }
                                if names_ok {
                                    rec.call(format!("{q}.name"), || match s.name() {
                                        Ok(n) => Val::Txt(crate::bytes::hex(n.as_bytes())),
                                        Err(_) => Val::ErrUtf8,
                                    });
                                }
                                dbg(rec, format!("{q}.dbg"), &s, d);
                                if d && j < 2 {
                                    dbg(rec, format!("{q}.dbg.iter"), &it, true);
                                }
                                j += 1;
                            }
                        }
                    }
                    if d {
                        dbg(rec, format!("{p}.s.dbg.end"), &it, true);
                        let _ = catch(|| it.size_hint());
                    }
                }
            }
            dbg(rec, format!("{p}.dbg"), t, d);
        }
        10 => {
            let t = cast!(rec, p, tag, ApmTag);
            u!(rec, p, "version", t.version());
            u!(rec, p, "cseg", t.cseg());
            u!(rec, p, "offset", t.offset());
            u!(rec, p, "cseg_16", t.cset_16());
            u!(rec, p, "dseg", t.dseg());
            u!(rec, p, "flags", t.flags());
            u!(rec, p, "cseg_len", t.cseg_len());
            u!(rec, p, "cseg_16_len", t.cseg_16_len());
            u!(rec, p, "dseg_len", t.dseg_len());
            dbg(rec, format!("{p}.dbg"), t, d);
        }
        11 => {
            let t = cast!(rec, p, tag, EFISdt32Tag);
            u!(rec, p, "addr", t.sdt_address());
            dbg(rec, format!("{p}.dbg"), t, d);
        }
        12 => {
            let t = cast!(rec, p, tag, EFISdt64Tag);
            u!(rec, p, "addr", t.sdt_address());
            dbg(rec, format!("{p}.dbg"), t, d);
        }
        13 => {
            let t = cast!(rec, p, tag, SmbiosTag);
            u!(rec, p, "major", t.major());
            u!(rec, p, "minor", t.minor());
            let v = catch(|| rec.ext(t.tables())).unwrap_or(Val::Panic);
            rec.t.push(format!("{p}.tables"), v);
            dbg(rec, format!("{p}.dbg"), t, d);
        }
        14 => {
            let t = cast!(rec, p, tag, RsdpV1Tag);
            let v = catch(|| utf8_val(rec, t.signature())).unwrap_or(Val::Panic);
            rec.t.push(format!("{p}.signature"), v);
            rec.call(format!("{p}.checksum_valid"), || Val::B(t.checksum_is_valid()));
            let v = catch(|| utf8_val(rec, t.oem_id())).unwrap_or(Val::Panic);
            rec.t.push(format!("{p}.oem_id"), v);
            u!(rec, p, "revision", t.revision());
            u!(rec, p, "rsdt", t.rsdt_address());
            dbg(rec, format!("{p}.dbg"), t, d);
        }
        15 => {
            let t = cast!(rec, p, tag, RsdpV2Tag);
            let v = catch(|| utf8_val(rec, t.signature())).unwrap_or(Val::Panic);
            rec.t.push(format!("{p}.signature"), v);
            rec.call(format!("{p}.checksum_valid"), || Val::B(t.checksum_is_valid()));
            let v = catch(|| utf8_val(rec, t.oem_id())).unwrap_or(Val::Panic);
            rec.t.push(format!("{p}.oem_id"), v);
            u!(rec, p, "revision", t.revision());
            u!(rec, p, "xsdt", t.xsdt_address());
            u!(rec, p, "ext_checksum", t.ext_checksum());
            dbg(rec, format!("{p}.dbg"), t, d);
        }
        16 => {
            let t = cast!(rec, p, tag, NetworkTag);
            // The DHCP data has no accessor; its derived Debug lists the bytes.
            if let Some(s) = dbg(rec, format!("{p}.dbg"), t, true) {
                // not recorded at all if the rendering is not the derived one
                if let Some(b) = parse_debug_byte_list(&s, "dhcpack: [") {
                    rec.t.push(format!("{p}.dhcp"), Val::Txt(crate::bytes::hex(&b)));
                }
            }
        }
        17 => {
            let t = cast!(rec, p, tag, EFIMemoryMapTag);
            match catch(|| t.memory_areas()) {
                None => rec.t.push(format!("{p}.e.new"), Val::Panic),
                Some(mut it) => {
                    rec.t.push(format!("{p}.e.new"), Val::Ok);
                    let v = catch(|| Val::U(it.len() as u64)).unwrap_or(Val::Panic);
                    rec.t.push(format!("{p}.e.len0"), v);
                    if d {
                        dbg(rec, format!("{p}.e.dbg"), &it, true);
                    }
                    let mut j = 0usize;
                    loop {
                        if j > opts.max_steps {
                            rec.t.push(format!("{p}.e.end"), Val::Txt("step-bound".into()));
                            break;
                        }
                        match catch(|| it.next()) {
                            None => {
                                rec.t.push(format!("{p}.e{j}"), Val::Panic);
                                let again = catch(|| it.next().map(|d| rec.ext(d)));
                                rec.t.push(format!("{p}.e.after_panic"), match again { None => Val::Panic, Some(None) => Val::None, Some(Some(v)) => v });
                                break;
                            }
                            Some(None) => {
                                rec.t.push(format!("{p}.e.end"), Val::None);
                                u!(rec, format!("{p}.e"), "len_end", it.len());
                                // the same map through nth(): first, middle, one past
                                // the last, two past the last
                                let mut ks = vec![0, j / 2, j, j + 1];
                                ks.dedup();
                                for k in ks {
                                    if let Some(mut it2) = catch(|| t.memory_areas()) {
                                        let v = catch(|| it2.nth(k).map(|d| rec.ext(d)));
                                        rec.t.push(format!("{p}.e.nth{k}"), match v { None => Val::Panic, Some(None) => Val::None, Some(Some(v)) => v });
                                        u!(rec, format!("{p}.e.nth{k}"), "len", it2.len());
                                    }
                                }
                                break;
                            }
                            Some(Some(desc)) => {
                                let q = format!("{p}.e{j}");
                                let v = rec.ext(desc);
                                rec.t.push(q.clone(), v);
                                u!(rec, q, "ty", desc.ty.0);
                                u!(rec, q, "phys", desc.phys_start);
                                u!(rec, q, "virt", desc.virt_start);
                                u!(rec, q, "pages", desc.page_count);
                                u!(rec, q, "att", desc.att.bits());
                                u!(rec, q, "len_after", it.len());
                                if d && j < 2 {
                                    dbg(rec, format!("{q}.dbg.iter"), &it, true);
                                }
                                j += 1;
                            }
                        }
                    }
                    if d {
                        // the (possibly exhausted / panicked) iterator object itself
                        dbg(rec, format!("{p}.e.dbg.end"), &it, true);
                        let _ = catch(|| it.size_hint());
                    }
                }
            }
            if let Some(s) = dbg(rec, format!("{p}.dbg"), t, d) {
                if let Some(n) = parse_debug_usize(&s, "buf_len: ") {
                    rec.t.push(format!("{p}.dbg.buf_len"), Val::U(n as u64));
                }
            }
        }
        18 => {
            let t = cast!(rec, p, tag, EFIBootServicesNotExitedTag);
            dbg(rec, format!("{p}.dbg"), t, d);
        }
        19 => {
            let t = cast!(rec, p, tag, EFIImageHandle32Tag);
            u!(rec, p, "handle", t.image_handle());
            dbg(rec, format!("{p}.dbg"), t, d);
        }
        20 => {
            let t = cast!(rec, p, tag, EFIImageHandle64Tag);
            u!(rec, p, "handle", t.image_handle());
            dbg(rec, format!("{p}.dbg"), t, d);
        }
        21 => {
            let t = cast!(rec, p, tag, ImageLoadPhysAddrTag);
            u!(rec, p, "load_base", t.load_base_addr());
            dbg(rec, format!("{p}.dbg"), t, d);
        }
        _ => {}
    }
}

/// The unknown-framebuffer-type error carries the offending byte, but only its
/// Display/Debug renderings expose it: normalise to `unknown-framebuffer-type:<n>`
/// using the last number in either rendering (independent of the wording).
pub fn fb_err<E: core::fmt::Debug + core::fmt::Display>(e: &E) -> Val {
    let last_num = |s: &str| -> Option<u64> {
        let mut cur = String::new();
        let mut last = None;
        for ch in s.chars() {
            if ch.is_ascii_digit() {
                cur.push(ch);
            } else if !cur.is_empty() {
                last = cur.parse().ok();
                cur.clear();
            }
        }
        if !cur.is_empty() {
            last = cur.parse().ok();
        }
        last
    };
    match last_num(&format!("{e:?}")).or_else(|| last_num(&format!("{e}"))) {
        Some(n) => Val::Err(format!("unknown-framebuffer-type:{n}")),
        None => Val::Err(format!("{e}")),
    }
}

/// Extracts `[a, b, c]` following `marker` in a derived Debug rendering.
pub fn parse_debug_byte_list(s: &str, marker: &str) -> Option<Vec<u8>> {
    let start = s.find(marker)? + marker.len();
    let rest = &s[start..];
    let end = rest.find(']')?;
    let inner = rest[..end].trim();
    if inner.is_empty() {
        return Some(Vec::new());
    }
    inner.split(',').map(|x| x.trim().parse::<u8>().ok()).collect()
}

pub fn parse_debug_usize(s: &str, marker: &str) -> Option<usize> {
    let start = s.find(marker)? + marker.len();
    let rest = &s[start..];
    let end = rest.find(|c: char| !c.is_ascii_digit()).unwrap_or(rest.len());
    rest[..end].parse().ok()
}

/// Turns a stand-alone padded tag image into a generic tag reference through
/// the public route and exercises it as `kind`. Used for the single-tag-flush
/// placement (C01) and for per-kind size sweeps (C05, C15).
///
/// # Safety
/// `ptr` must be valid for `len` bytes.
pub unsafe fn exercise_single_tag(ptr: *const u8, len: usize, kind: u32, opts: &MbiOpts) -> Transcript {
    let mut rec = Rec::new(ptr as usize);
    let slice = unsafe { core::slice::from_raw_parts(ptr, len) };
    let r = catch(|| Generic::ref_from_slice(slice));
    match r {
        None => rec.t.push("ref", Val::Panic),
        Some(Err(e)) => rec.t.push("ref", Val::Err(format!("{e:?}"))),
        Some(Ok(tag)) => {
            let v = rec.ext(tag);
            rec.t.push("ref", v);
            typed_tag_as(&mut rec, "t0", tag, kind, opts);
        }
    }
    rec.t
}
