//! The specification's tag walk, written directly over bytes.

use crate::bytes::*;

#[derive(Clone, Copy, Debug, PartialEq, Eq)]
pub struct Item {
    /// Offset of the tag from the region base.
    pub off: usize,
    /// Raw type word (u32 for MBI tags; `typ | flags << 16` view is split for
    /// header tags, see [`walk_hdr`]).
    pub typ: u32,
    /// For header tags: the flags half-word. 0 for MBI tags.
    pub flags: u16,
    /// Stored size word.
    pub size: u32,
}

impl Item {
    /// End of the tag including alignment padding.
    pub fn padded_end(&self) -> usize {
        self.off + r8(self.size as usize)
    }
}

#[derive(Clone, Debug, PartialEq, Eq)]
pub struct Walk {
    pub items: Vec<Item>,
    /// `Some(k)`: fetching item `k` must end in a controlled panic (size word
    /// below 8, or the tag would leave the region).
    pub panic_at: Option<usize>,
}

impl Walk {
    pub fn first_of(&self, typ: u32) -> Option<(usize, &Item)> {
        self.items.iter().enumerate().find(|(_, i)| i.typ == typ)
    }
}

/// Spec walk over `region[start..end]`: first tag at `start`, each next one at
/// the previous offset plus its size rounded up to 8, until `end`.
/// `end` is the declared total size and must be `<= region.len()`.
pub fn walk_generic(region: &[u8], start: usize, end: usize, hdr_tags: bool) -> Walk {
    let mut items = Vec::new();
    let mut off = start;
    let mut panic_at = None;
    while off < end {
        // off and end are multiples of 8 here, so 8 header bytes are in range.
        let (typ, flags) = if hdr_tags {
            (le16(region, off) as u32, le16(region, off + 2))
        } else {
            (le32(region, off), 0)
        };
        let size = le32(region, off + 4);
        if size < 8 || off + size as usize > end {
            panic_at = Some(items.len());
            break;
        }
        items.push(Item { off, typ, flags, size });
        off += r8(size as usize);
    }
    Walk { items, panic_at }
}

/// Walk of a boot information whose first word is its total size.
pub fn walk_mbi(region: &[u8]) -> Walk {
    let ts = le32(region, 0) as usize;
    walk_generic(region, 8, ts, false)
}

/// Walk of a Multiboot2 header (tags start at offset 16, end at `length`).
pub fn walk_hdr(region: &[u8]) -> Walk {
    let len = le32(region, 8) as usize;
    walk_generic(region, 16, len, true)
}

/// Outcome the specification-level model predicts for `BootInformation::load`.
#[derive(Clone, Copy, Debug, PartialEq, Eq)]
pub enum MbiLoad {
    Null,
    ShorterThanHeader,
    MissingPadding,
    NoEndTag,
    Ok,
}

impl MbiLoad {
    pub fn text(&self) -> &'static str {
        match self {
            MbiLoad::Null => "Memory(Null)",
            MbiLoad::ShorterThanHeader => "Memory(ShorterThanHeader)",
            MbiLoad::MissingPadding => "Memory(MissingPadding)",
            MbiLoad::NoEndTag => "NoEndTag",
            MbiLoad::Ok => "Ok",
        }
    }
}

/// `region` must hold `max(8, r8(total_size))` readable bytes.
pub fn predict_mbi_load(region: &[u8]) -> MbiLoad {
    let ts = le32(region, 0) as usize;
    if ts < 8 {
        return MbiLoad::ShorterThanHeader;
    }
    if ts % 8 != 0 {
        return MbiLoad::MissingPadding;
    }
    // The last 8 bytes of the declared region (for ts == 8 that is the header
    // itself).
    let t = le32(region, ts - 8);
    let s = le32(region, ts - 4);
    if t == 0 && s == 8 {
        MbiLoad::Ok
    } else {
        MbiLoad::NoEndTag
    }
}

pub const HDR_MAGIC: u32 = 0xE852_50D6;
pub const MBI_MAGIC: u32 = 0x36D7_6289;

#[derive(Clone, Copy, Debug, PartialEq, Eq)]
pub enum HdrLoad {
    Null,
    ShorterThanHeader,
    MissingPadding,
    MagicNotFound,
    ChecksumMismatch,
    Ok,
}

impl HdrLoad {
    pub fn text(&self) -> &'static str {
        match self {
            HdrLoad::Null => "Memory(Null)",
            HdrLoad::ShorterThanHeader => "Memory(ShorterThanHeader)",
            HdrLoad::MissingPadding => "Memory(MissingPadding)",
            HdrLoad::MagicNotFound => "MagicNotFound",
            HdrLoad::ChecksumMismatch => "ChecksumMismatch",
            HdrLoad::Ok => "Ok",
        }
    }
}

/// `region` must hold `max(16, r8(length))` readable bytes.
pub fn predict_hdr_load(region: &[u8]) -> HdrLoad {
    let magic = le32(region, 0);
    let arch = le32(region, 4);
    let len = le32(region, 8);
    let sum = le32(region, 12);
    if len < 16 {
        return HdrLoad::ShorterThanHeader;
    }
    if len % 8 != 0 {
        return HdrLoad::MissingPadding;
    }
    if magic != HDR_MAGIC {
        return HdrLoad::MagicNotFound;
    }
    if magic
        .wrapping_add(arch)
        .wrapping_add(len)
        .wrapping_add(sum)
        != 0
    {
        return HdrLoad::ChecksumMismatch;
    }
    HdrLoad::Ok
}

/// The checksum that makes `magic + arch + length + checksum == 0 (mod 2^32)`.
pub fn model_checksum(magic: u32, arch: u32, len: u32) -> u32 {
    0u32.wrapping_sub(magic).wrapping_sub(arch).wrapping_sub(len)
}
