//! Reference model: the transcript the specification predicts for a boot
//! information, for *any* region contents. Never calls into `/repo`.
//!
//! Grounding: Multiboot2 specification 2.0 tag layouts as in its `multiboot2.h`;
//! VBE 3.0 `VbeInfoBlock`/`ModeInfoBlock`; ELF32/ELF64 section headers; UEFI
//! memory descriptor (version 1). Where a property statement leaves latitude
//! the model emits `Either`/`Any`/`Free` instead of one value.

use crate::bytes::*;
use crate::transcript::{Expected, Val};
use crate::walk::*;

/// Unpadded spec size of the fixed-size kinds.
pub fn sized_spec_size(kind: u32) -> Option<usize> {
    Some(match kind {
        0 => 8,
        4 => 16,
        5 => 20,
        7 => 784,
        10 => 28,
        11 => 12,
        12 => 16,
        14 => 28,
        15 => 44,
        18 => 8,
        19 => 12,
        20 => 16,
        21 => 12,
        _ => return None,
    })
}

/// Fixed part and element size of the variable-length kinds.
pub fn dst_fixed_elem(kind: u32) -> Option<(usize, usize)> {
    Some(match kind {
        1 | 2 => (8, 1),
        3 => (16, 1),
        6 => (16, 24),
        8 => (32, 1),
        9 => (20, 1),
        13 => (16, 1),
        16 => (8, 1),
        17 => (16, 1),
        _ => return None,
    })
}

pub const KIND_NAMES: [(&str, u32); 22] = [
    ("apm", 10),
    ("basic_meminfo", 4),
    ("boot_loader_name", 2),
    ("bootdev", 5),
    ("cmdline", 1),
    ("efi_bs", 18),
    ("efi_mmap", 17),
    ("efi_sdt32", 11),
    ("efi_sdt64", 12),
    ("efi_ih32", 19),
    ("efi_ih64", 20),
    ("elf", 9),
    ("framebuffer", 8),
    ("load_base", 21),
    ("mmap", 6),
    ("network", 16),
    ("rsdp1", 14),
    ("rsdp2", 15),
    ("smbios", 13),
    ("vbe", 7),
    ("end", 0),
    ("module", 3),
];

/// Does viewing a tag of this `size` as built-in `kind` succeed (true) or
/// must it end in a controlled panic (false)?
pub fn cast_succeeds(kind: u32, size: usize) -> bool {
    if let Some(spec) = sized_spec_size(kind) {
        return r8(size) == r8(spec);
    }
    if let Some((fixed, elem)) = dst_fixed_elem(kind) {
        return size >= fixed && (size - fixed) % elem == 0;
    }
    true
}

/// The Multiboot string rule applied to `region[from..to]`.
pub fn string_rule(region: &[u8], from: usize, to: usize) -> Val {
    let c = &region[from..to];
    match c.iter().position(|&b| b == 0) {
        None => Val::ErrNul,
        Some(n) => {
            if std::str::from_utf8(&c[..n]).is_ok() {
                Val::Str(from, n)
            } else {
                Val::ErrUtf8
            }
        }
    }
}

fn fixed_str(region: &[u8], from: usize, len: usize) -> Val {
    if std::str::from_utf8(&region[from..from + len]).is_ok() {
        Val::Str(from, len)
    } else {
        Val::ErrUtf8
    }
}

pub fn elf_type_name(raw: u32) -> &'static str {
    match raw {
        1 => "ProgramSection",
        2 => "LinkerSymbolTable",
        3 => "StringTable",
        4 => "RelaRelocation",
        5 => "SymbolHashTable",
        6 => "DynamicLinkingTable",
        7 => "Note",
        8 => "Uninitialized",
        9 => "RelRelocation",
        10 => "Reserved",
        11 => "DynamicLoaderSymbolTable",
        0x6000_0000..=0x6FFF_FFFF => "EnvironmentSpecific",
        0x7000_0000..=0x7FFF_FFFF => "ProcessorSpecific",
        _ => "Unused",
    }
}

/// The documented discriminant of the class a raw type belongs to.
pub fn elf_type_class(raw: u32) -> u32 {
    match raw {
        1..=11 => raw,
        0x6000_0000..=0x6FFF_FFFF => 0x6000_0000,
        0x7000_0000..=0x7FFF_FFFF => 0x7000_0000,
        _ => 0,
    }
}

pub fn elf_in_use(raw: u32) -> bool {
    elf_type_name(raw) != "Unused"
}

/// Decoded ELF section entry according to the layout the entry size selects.
#[derive(Clone, Copy, Debug, PartialEq, Eq)]
pub struct ElfEntry {
    pub name_index: u32,
    pub raw_type: u32,
    pub flags: u64,
    pub addr: u64,
    pub size: u64,
    pub addralign: u64,
}

pub fn decode_elf_entry(b: &[u8], at: usize, entsize: usize) -> ElfEntry {
    if entsize == 40 {
        ElfEntry {
            name_index: le32(b, at),
            raw_type: le32(b, at + 4),
            flags: le32(b, at + 8) as u64,
            addr: le32(b, at + 12) as u64,
            size: le32(b, at + 20) as u64,
            addralign: le32(b, at + 32) as u64,
        }
    } else {
        ElfEntry {
            name_index: le32(b, at),
            raw_type: le32(b, at + 4),
            flags: le64(b, at + 8),
            addr: le64(b, at + 16),
            size: le64(b, at + 32),
            addralign: le64(b, at + 48),
        }
    }
}

/// Classification of an ELF-sections tag (C19).
#[derive(Clone, Copy, Debug, PartialEq, Eq)]
pub enum ElfShape {
    /// n == 0: nothing to iterate; panic or not is accepted.
    Empty,
    /// Entries fit and the string-table index designates an entry in the tag.
    Fits,
    /// Entries fit but the string-table index reaches outside the tag.
    ShndxOutside,
    /// Entry size not 40/64, or n entries do not fit.
    Reject,
}

pub fn elf_shape(n: u64, es: u64, shndx: u64, len: u64) -> ElfShape {
    if n == 0 {
        return ElfShape::Empty;
    }
    if (es != 40 && es != 64) || n * es > len {
        return ElfShape::Reject;
    }
    if (shndx + 1) * es > len {
        return ElfShape::ShndxOutside;
    }
    ElfShape::Fits
}

/// Classification of an EFI memory-map tag (C18).
pub fn efi_valid(version: u32, d: usize, l: usize) -> bool {
    version == 1 && d >= 40 && d % 8 == 0 && l % d == 0
}

fn sum_or_panic(a: u64, b: u64) -> Vec<Val> {
    match a.checked_add(b) {
        Some(s) => vec![Val::U(s)],
        None => vec![Val::Panic, Val::U(a.wrapping_add(b))],
    }
}

/// Expected transcript lines of item `it` viewed as built-in `kind` under key
/// prefix `p`.
pub fn expect_tag(exp: &mut Expected, p: &str, region: &[u8], it: &Item, kind: u32) {
    let off = it.off;
    let size = it.size as usize;
    let b = region;
    if kind > 21 {
        return;
    }
    if !cast_succeeds(kind, size) {
        exp.panic(format!("{p}.cast"));
        return;
    }
    exp.is(format!("{p}.cast"), Val::Ext(off, r8(size)));
    exp.if_present(format!("{p}.rel"), Val::B(true));
    let k = |n: &str| format!("{p}.{n}");
    match kind {
        0 | 18 => {}
        1 => exp.is(k("cmdline"), string_rule(b, off + 8, off + size)),
        2 => {
            exp.is(k("name"), string_rule(b, off + 8, off + size));
            exp.u(k("typ"), le32(b, off) as u64);
            exp.u(k("size"), size as u64);
        }
        3 => {
            let (s, e) = (le32(b, off + 8), le32(b, off + 12));
            exp.u(k("start"), s as u64);
            exp.u(k("end"), e as u64);
            exp.is(k("cmdline"), string_rule(b, off + 16, off + size));
            if e >= s {
                exp.u(k("~module_size"), (e - s) as u64);
            } else {
                exp.either(k("~module_size"), vec![Val::Panic, Val::U(e.wrapping_sub(s) as u64)]);
            }
        }
        4 => {
            exp.u(k("lower"), le32(b, off + 8) as u64);
            exp.u(k("upper"), le32(b, off + 12) as u64);
        }
        5 => {
            exp.u(k("biosdev"), le32(b, off + 8) as u64);
            exp.u(k("slice"), le32(b, off + 12) as u64);
            exp.u(k("part"), le32(b, off + 16) as u64);
        }
        6 => {
            let es = le32(b, off + 8);
            exp.u(k("entry_size"), es as u64);
            exp.u(k("entry_version"), le32(b, off + 12) as u64);
            if es == 24 {
                exp.is(k("areas"), Val::Ext(off + 16, size - 16));
                for j in 0..(size - 16) / 24 {
                    let a = off + 16 + 24 * j;
                    let q = format!("{p}.a{j}");
                    exp.u(format!("{q}.base"), le64(b, a));
                    exp.u(format!("{q}.len"), le64(b, a + 8));
                    exp.u(format!("{q}.typ"), le32(b, a + 16) as u64);
                    exp.either(format!("{q}.~end"), sum_or_panic(le64(b, a), le64(b, a + 8)));
                }
            } else {
                // The crate models 24-byte entries only; what it does with another
                // stored entry size is outside the listed properties.
                exp.either(k("areas"), vec![Val::Panic, Val::Ext(off + 16, size - 16)]);
                exp.free(format!("{p}.a"));
            }
        }
        7 => {
            exp.u(k("mode"), le16(b, off + 8) as u64);
            exp.u(k("if_seg"), le16(b, off + 10) as u64);
            exp.u(k("if_off"), le16(b, off + 12) as u64);
            exp.u(k("if_len"), le16(b, off + 14) as u64);
            let c = off + 16;
            let q = |n: &str| format!("{p}.ci.{n}");
            exp.u(q("signature"), le32(b, c) as u64);
            exp.u(q("version"), le16(b, c + 4) as u64);
            exp.u(q("oem_string_ptr"), le32(b, c + 6) as u64);
            exp.u(q("capabilities"), le32(b, c + 10) as u64);
            exp.u(q("mode_list_ptr"), le32(b, c + 14) as u64);
            exp.u(q("total_memory"), le16(b, c + 18) as u64);
            exp.u(q("oem_software_revision"), le16(b, c + 20) as u64);
            exp.u(q("oem_vendor_name_ptr"), le32(b, c + 22) as u64);
            exp.u(q("oem_product_name_ptr"), le32(b, c + 26) as u64);
            exp.u(q("oem_product_revision_ptr"), le32(b, c + 30) as u64);
            let m = off + 16 + 512;
            if b[m + 27] > 7 {
                // not one of the 8 defined memory models: the mode info cannot be
                // handed out as a typed value (controlled panic)
                exp.panic(format!("{p}.mi"));
                return;
            }
            let q = |n: &str| format!("{p}.mi.{n}");
            exp.u(q("mode_attributes"), le16(b, m) as u64);
            exp.u(q("window_a_attributes"), b[m + 2] as u64);
            exp.u(q("window_b_attributes"), b[m + 3] as u64);
            exp.u(q("window_granularity"), le16(b, m + 4) as u64);
            exp.u(q("window_size"), le16(b, m + 6) as u64);
            exp.u(q("window_a_segment"), le16(b, m + 8) as u64);
            exp.u(q("window_b_segment"), le16(b, m + 10) as u64);
            exp.u(q("window_function_ptr"), le32(b, m + 12) as u64);
            exp.u(q("pitch"), le16(b, m + 16) as u64);
            exp.u(q("resolution_x"), le16(b, m + 18) as u64);
            exp.u(q("resolution_y"), le16(b, m + 20) as u64);
            exp.u(q("char_x"), b[m + 22] as u64);
            exp.u(q("char_y"), b[m + 23] as u64);
            exp.u(q("number_of_planes"), b[m + 24] as u64);
            exp.u(q("bpp"), b[m + 25] as u64);
            exp.u(q("number_of_banks"), b[m + 26] as u64);
            exp.u(q("memory_model"), b[m + 27] as u64);
            exp.u(q("bank_size"), b[m + 28] as u64);
            exp.u(q("number_of_image_pages"), b[m + 29] as u64);
            exp.u(q("red_size"), b[m + 31] as u64);
            exp.u(q("red_pos"), b[m + 32] as u64);
            exp.u(q("green_size"), b[m + 33] as u64);
            exp.u(q("green_pos"), b[m + 34] as u64);
            exp.u(q("blue_size"), b[m + 35] as u64);
            exp.u(q("blue_pos"), b[m + 36] as u64);
            exp.u(q("rsvd_size"), b[m + 37] as u64);
            exp.u(q("rsvd_pos"), b[m + 38] as u64);
            exp.u(q("direct_color_attributes"), b[m + 39] as u64);
            exp.u(q("framebuffer_base_ptr"), le32(b, m + 40) as u64);
            exp.u(q("offscreen_memory_offset"), le32(b, m + 44) as u64);
            exp.u(q("offscreen_memory_size"), le16(b, m + 48) as u64);
        }
        8 => {
            exp.u(k("address"), le64(b, off + 8));
            exp.u(k("pitch"), le32(b, off + 16) as u64);
            exp.u(k("width"), le32(b, off + 20) as u64);
            exp.u(k("height"), le32(b, off + 24) as u64);
            exp.u(k("bpp"), b[off + 28] as u64);
            let ty = b[off + 29];
            let buf_len = size - 32;
            match ty {
                0 => {
                    if buf_len < 2 {
                        exp.panic(k("bt"));
                    } else {
                        let n = le16(b, off + 32) as usize;
                        if 2 + 3 * n > buf_len {
                            exp.panic(k("bt"));
                        } else {
                            exp.is(k("bt"), Val::Txt("indexed".into()));
                            exp.is(k("bt.palette"), Val::Ext(off + 34, 3 * n));
                        }
                    }
                }
                1 => {
                    if buf_len < 6 {
                        exp.panic(k("bt"));
                    } else {
                        exp.is(k("bt"), Val::Txt("rgb".into()));
                        let mut a = [0u8; 8];
                        a[..6].copy_from_slice(&b[off + 32..off + 38]);
                        exp.u(k("bt.rgb"), u64::from_le_bytes(a));
                    }
                }
                2 => exp.is(k("bt"), Val::Txt("text".into())),
                x => exp.is(k("bt"), Val::Err(format!("unknown-framebuffer-type:{x}"))),
            }
        }
        9 => {
            let n = le32(b, off + 8) as u64;
            let es = le32(b, off + 12) as u64;
            let shndx = le32(b, off + 16) as u64;
            exp.u(k("num"), n);
            exp.u(k("entsize"), es);
            exp.u(k("shndx"), shndx);
            let len = (size - 20) as u64;
            match elf_shape(n, es, shndx, len) {
                ElfShape::Fits => {
                    exp.is(k("s.new"), Val::Ok);
                    exp.any(k("s.len0"));
                    // names are resolved only where every header refers to the
                    // harness-owned names buffer (see `elfnames`)
                    let names = crate::elfnames::names_mode(&b[off..off + size]).0;
                    let mut j = 0;
                    for e in 0..n as usize {
                        let at = off + 20 + e * es as usize;
                        let ent = decode_elf_entry(b, at, es as usize);
                        if !elf_in_use(ent.raw_type) {
                            continue;
                        }
                        let q = format!("{p}.s{j}");
                        exp.is(q.clone(), Val::Ok);
                        exp.u(format!("{q}.raw_type"), ent.raw_type as u64);
                        exp.u(format!("{q}.type"), elf_type_class(ent.raw_type) as u64);
                        exp.u(format!("{q}.flags"), ent.flags & 7);
                        exp.is(format!("{q}.allocated"), Val::B(ent.flags & 2 != 0));
                        exp.u(format!("{q}.addr"), ent.addr);
                        exp.u(format!("{q}.size"), ent.size);
                        exp.u(format!("{q}.addralign"), ent.addralign);
                        exp.either(format!("{q}.~end"), sum_or_panic(ent.addr, ent.size));
                        exp.any(format!("{q}.len_after"));
                        exp.if_present(format!("{q}.rel"), Val::B(true));
                        exp.if_present(format!("{q}.rel_twins"), Val::B(true));
                        if names {
                            // the name as the documented lookup gives it - required where it lies
                            // inside the string table as that section's size field describes it;
                            // left open where the size field says the name is not (fully) in the
                            // table (a bounded lookup may refuse or cut it there)
                            let st = off + 20 + shndx as usize * es as usize;
                            let st_size = if es == 40 { le32(b, st + 20) as u64 } else { le64(b, st + 32) };
                            let name_off = le32(b, at) as u64;
                            let name_len = crate::elfnames::names()[name_off as usize..].iter().position(|x| *x == 0).unwrap_or(0) as u64;
                            if name_off + name_len < st_size {
                                exp.is(format!("{q}.name"), crate::elfnames::model_name(name_off as u32));
                            } else {
                                exp.any(format!("{q}.name"));
                            }
                        }
                        j += 1;
                    }
                    exp.is(k("s.end"), Val::None);
                }
                // Latitude of the statement: validated by the dedicated C19 rule.
                _ => exp.free(format!("{p}.s")),
            }
        }
        10 => {
            exp.u(k("version"), le16(b, off + 8) as u64);
            exp.u(k("cseg"), le16(b, off + 10) as u64);
            exp.u(k("offset"), le32(b, off + 12) as u64);
            exp.u(k("cseg_16"), le16(b, off + 16) as u64);
            exp.u(k("dseg"), le16(b, off + 18) as u64);
            exp.u(k("flags"), le16(b, off + 20) as u64);
            exp.u(k("cseg_len"), le16(b, off + 22) as u64);
            exp.u(k("cseg_16_len"), le16(b, off + 24) as u64);
            exp.u(k("dseg_len"), le16(b, off + 26) as u64);
        }
        11 => exp.u(k("addr"), le32(b, off + 8) as u64),
        12 => exp.u(k("addr"), le64(b, off + 8)),
        13 => {
            exp.u(k("major"), b[off + 8] as u64);
            exp.u(k("minor"), b[off + 9] as u64);
            exp.is(k("tables"), Val::Ext(off + 16, size - 16));
        }
        14 | 15 => {
            exp.is(k("signature"), fixed_str(b, off + 8, 8));
            if kind == 14 {
                let s = b[off + 8..off + 28].iter().fold(0u8, |a, x| a.wrapping_add(*x));
                exp.is(k("checksum_valid"), Val::B(s == 0));
            } else {
                let length = le32(b, off + 28) as usize;
                if length == 36 {
                    let s = b[off + 8..off + 44].iter().fold(0u8, |a, x| a.wrapping_add(*x));
                    exp.is(k("checksum_valid"), Val::B(s == 0));
                } else if length > 36 {
                    // The table the stored length describes is not inside the tag:
                    // it cannot be summed without leaving the tag.
                    exp.either(k("checksum_valid"), vec![Val::B(false), Val::Panic]);
                } else {
                    exp.any(k("checksum_valid"));
                }
            }
            exp.is(k("oem_id"), fixed_str(b, off + 17, 6));
            exp.u(k("revision"), b[off + 23] as u64);
            if kind == 14 {
                exp.u(k("rsdt"), le32(b, off + 24) as u64);
            } else {
                exp.u(k("xsdt"), le64(b, off + 32));
                exp.u(k("ext_checksum"), b[off + 40] as u64);
            }
        }
        // observed through the derived Debug byte list (no accessor exists)
        16 => exp.if_present(k("dhcp"), Val::Txt(hex(&b[off + 8..off + size]))),
        17 => {
            let d = le32(b, off + 8) as usize;
            let ver = le32(b, off + 12);
            let l = size - 16;
            if efi_valid(ver, d, l) {
                exp.is(k("e.new"), Val::Ok);
                let n = l / d;
                exp.u(k("e.len0"), n as u64);
                for j in 0..n {
                    let at = off + 16 + j * d;
                    let q = format!("{p}.e{j}");
                    exp.is(q.clone(), Val::Ext(at, 40));
                    exp.u(format!("{q}.ty"), le32(b, at) as u64);
                    exp.u(format!("{q}.phys"), le64(b, at + 8));
                    exp.u(format!("{q}.virt"), le64(b, at + 16));
                    exp.u(format!("{q}.pages"), le64(b, at + 24));
                    exp.u(format!("{q}.att"), le64(b, at + 32));
                    exp.u(format!("{q}.len_after"), (n - j - 1) as u64);
                }
                exp.is(k("e.end"), Val::None);
                exp.u(k("e.len_end"), 0);
                let mut ks = vec![0, n / 2, n, n + 1];
                ks.dedup();
                for kk in ks {
                    let key = format!("{p}.e.nth{kk}");
                    if kk < n {
                        exp.is(key.clone(), Val::Ext(off + 16 + kk * d, 40));
                    } else {
                        exp.is(key.clone(), Val::None);
                    }
                    exp.u(format!("{key}.len"), n.saturating_sub(kk + 1) as u64);
                }
            } else {
                exp.free(format!("{p}.e"));
            }
        }
        19 => exp.u(k("handle"), le32(b, off + 8) as u64),
        20 => exp.u(k("handle"), le64(b, off + 8)),
        21 => exp.u(k("load_base"), le32(b, off + 8) as u64),
        _ => {}
    }
}

/// Expected outcome of `framebuffer_tag()`-style `buffer_type()` for item `it`
/// (kind 8, cast already known to succeed): `None` = completes with a type,
/// `Some(v)` = this error / panic value.
fn fb_getter_override(region: &[u8], it: &Item) -> Option<Val> {
    let off = it.off;
    let size = it.size as usize;
    let ty = region[off + 29];
    let buf_len = size - 32;
    match ty {
        0 => {
            if buf_len < 2 || 2 + 3 * (le16(region, off + 32) as usize) > buf_len {
                Some(Val::Panic)
            } else {
                None
            }
        }
        1 => (buf_len < 6).then_some(Val::Panic),
        2 => None,
        x => Some(Val::Err(format!("unknown-framebuffer-type:{x}"))),
    }
}

#[derive(Clone, Copy, Debug)]
pub struct ExpectOpts {
    pub typed_all: bool,
}

impl Default for ExpectOpts {
    fn default() -> Self {
        Self { typed_all: true }
    }
}

/// Expected transcript of `exercise_mbi` for the region (which must hold
/// `max(8, r8(total size))` bytes).
pub fn expect_mbi(region: &[u8], opts: &ExpectOpts) -> Expected {
    let mut exp = Expected::new();
    let load = predict_mbi_load(region);
    if load != MbiLoad::Ok {
        exp.is("load", Val::Err(load.text().into()));
        return exp;
    }
    exp.is("load", Val::Txt("Ok".into()));
    let ts = le32(region, 0) as u64;
    exp.u("mbi.start", 0);
    exp.u("mbi.end", ts);
    exp.u("mbi.total", ts);
    exp.u("mbi.ptr", 0);

    let w = walk_mbi(region);
    for (i, it) in w.items.iter().enumerate() {
        let p = format!("w{i}");
        exp.is(p.clone(), Val::Ext(it.off, r8(it.size as usize)));
        exp.u(format!("{p}.typ"), it.typ as u64);
        exp.u(format!("{p}.size"), it.size as u64);
        exp.is(format!("{p}.payload"), Val::Ext(it.off + 8, it.size as usize - 8));
    }
    {
        let n = w.items.len();
        let mut ks = vec![0usize, 1, 2, n / 2, n.saturating_sub(1), n, n + 1, n + 2, n + 3, n + 9];
        ks.sort_unstable();
        ks.dedup();
        for k in ks {
            let key = format!("w.nth{k}");
            if k < n {
                exp.is(key, Val::Ext(w.items[k].off, r8(w.items[k].size as usize)));
            } else if w.panic_at.is_some() {
                exp.panic(key);
            } else {
                exp.is(key, Val::None);
            }
        }
        if w.panic_at.is_some() {
            exp.panic("w.count_after1");
        } else {
            exp.u("w.count_after1", n.saturating_sub(1) as u64);
        }
        if n >= 2 {
            exp.is("w.clone_after1", Val::Ext(w.items[1].off, r8(w.items[1].size as usize)));
        } else if w.panic_at.is_some() {
            exp.panic("w.clone_after1");
        } else {
            exp.is("w.clone_after1", Val::None);
        }
        if w.panic_at.is_some() {
            exp.panic("w.last");
        } else if n == 0 {
            exp.is("w.last", Val::None);
        } else {
            exp.is("w.last", Val::Ext(w.items[n - 1].off, r8(w.items[n - 1].size as usize)));
        }
    }
    match w.panic_at {
        Some(k) => {
            exp.panic(format!("w{k}"));
            // polling again after the caught panic: any controlled outcome
            exp.any("w.after_panic");
        }
        None => {
            exp.is("w.end", Val::None);
            exp.is("w.after", Val::None);
        }
    }
    if opts.typed_all {
        for (i, it) in w.items.iter().enumerate() {
            expect_tag(&mut exp, &format!("t{i}"), region, it, it.typ);
        }
    }

    // getters: first match in walk order
    let getter = |kind: u32| -> Val {
        match w.first_of(kind) {
            Some((_, it)) => {
                if cast_succeeds(kind, it.size as usize) {
                    Val::Ext(it.off, r8(it.size as usize))
                } else {
                    Val::Panic
                }
            }
            None => {
                if w.panic_at.is_some() {
                    Val::Panic
                } else {
                    Val::None
                }
            }
        }
    };
    // A first match that is itself malformed (its typed view is rejected) leaves
    // the getter's result open: C04 pins "first match" for conformant tags only,
    // and C15 only demands that no oversized view is handed out.
    let first_is_malformed = |kind: u32| -> bool { w.first_of(kind).map_or(false, |(_, it)| !cast_succeeds(kind, it.size as usize)) };
    for (name, kind) in KIND_NAMES {
        let key = format!("g.{name}");
        if first_is_malformed(kind) || (kind == 17 && first_is_malformed(18)) {
            exp.either(key, vec![Val::Panic, Val::None]);
            continue;
        }
        match kind {
            17 => {
                // Withheld while a boot-services-not-exited tag is present.
                let bs = getter(18);
                let v = match bs {
                    Val::Ext(..) => Val::None,
                    Val::Panic => Val::Panic,
                    _ => getter(17),
                };
                exp.is(key, v);
            }
            8 => {
                let mut v = getter(8);
                if let (Val::Ext(..), Some((_, it))) = (&v, w.first_of(8)) {
                    if let Some(o) = fb_getter_override(region, it) {
                        v = o;
                    }
                }
                exp.is(key, v);
            }
            _ => exp.is(key, getter(kind)),
        }
    }
    exp.any("g.elf_depr");

    // module iterator
    let mut mi = 0;
    let mut stopped = false;
    for it in w.items.iter().filter(|i| i.typ == 3) {
        if cast_succeeds(3, it.size as usize) {
            exp.is(format!("m{mi}"), Val::Ext(it.off, r8(it.size as usize)));
            mi += 1;
        } else {
            exp.panic(format!("m{mi}"));
            stopped = true;
            break;
        }
    }
    if !stopped {
        if w.panic_at.is_some() {
            exp.panic(format!("m{mi}"));
        } else {
            exp.is("m.end", Val::None);
        }
    }
    exp
}

/// Expected transcript of `exercise_single_tag` for a stand-alone tag image
/// (`img.len()` is a multiple of 8 and at least 8).
pub fn expect_single_tag(img: &[u8], kind: u32) -> Expected {
    let mut exp = Expected::new();
    let size = le32(img, 4) as usize;
    if size < 8 {
        // The tag header itself rejects a size below its own length.
        exp.either("ref", vec![Val::Panic, Val::Err("InvalidReportedTotalSize".into())]);
        return exp;
    }
    if size > img.len() {
        exp.is("ref", Val::Err("InvalidReportedTotalSize".into()));
        return exp;
    }
    exp.is("ref", Val::Ext(0, r8(size)));
    let it = Item { off: 0, typ: le32(img, 0), flags: 0, size: size as u32 };
    // Casting the generic view checks the in-memory size, which for a tag
    // obtained from a longer slice is still r8(size).
    expect_tag(&mut exp, "t0", img, &it, kind);
    exp
}
