//! The address-free record of what the crates under test returned.

use std::collections::HashMap;
use std::fmt::Write;

#[derive(Clone, Debug, PartialEq, Eq, Hash)]
pub enum Val {
    /// `Option::None` / iterator exhausted.
    None,
    /// A scalar the API returned.
    U(u64),
    B(bool),
    /// A reference or slice handed to the caller: offset from the region base
    /// (wrapping) and length in bytes.
    Ext(usize, usize),
    /// `Ok(&str)` at that extent.
    Str(usize, usize),
    /// String error: no NUL inside the slice.
    ErrNul,
    /// String error: invalid UTF-8 before the NUL.
    ErrUtf8,
    /// Any other error, by its Debug/Display text.
    Err(String),
    /// A controlled panic (caught by `catch_unwind`).
    Panic,
    /// Call completed; nothing recorded about the value.
    Ok,
    /// A textual value (enum names, hex of copied-out bytes).
    Txt(String),
}

impl Val {
    pub fn is_panic(&self) -> bool {
        matches!(self, Val::Panic)
    }
    /// Byte extent handed to the caller, if this value is one.
    pub fn extent(&self) -> Option<(usize, usize)> {
        match self {
            Val::Ext(o, l) | Val::Str(o, l) => Some((*o, *l)),
            _ => None,
        }
    }
    pub fn render(&self) -> String {
        match self {
            Val::None => "None".into(),
            Val::U(x) => format!("{x:#x}"),
            Val::B(b) => format!("{b}"),
            Val::Ext(o, l) => format!("ext({o},{l})"),
            Val::Str(o, l) => format!("str({o},{l})"),
            Val::ErrNul => "Err(MissingNul)".into(),
            Val::ErrUtf8 => "Err(Utf8)".into(),
            Val::Err(s) => format!("Err({s})"),
            Val::Panic => "PANIC".into(),
            Val::Ok => "ok".into(),
            Val::Txt(s) => format!("'{s}'"),
        }
    }
    pub fn parse(s: &str) -> Option<Val> {
        Some(match s {
            "None" => Val::None,
            "true" => Val::B(true),
            "false" => Val::B(false),
            "Err(MissingNul)" => Val::ErrNul,
            "Err(Utf8)" => Val::ErrUtf8,
            "PANIC" => Val::Panic,
            "ok" => Val::Ok,
            _ => {
                if let Some(h) = s.strip_prefix("0x") {
                    Val::U(u64::from_str_radix(h, 16).ok()?)
                } else if let Some(r) = s.strip_prefix("ext(").and_then(|r| r.strip_suffix(')')) {
                    let (a, b) = r.split_once(',')?;
                    Val::Ext(a.parse().ok()?, b.parse().ok()?)
                } else if let Some(r) = s.strip_prefix("str(").and_then(|r| r.strip_suffix(')')) {
                    let (a, b) = r.split_once(',')?;
                    Val::Str(a.parse().ok()?, b.parse().ok()?)
                } else if let Some(r) = s.strip_prefix("Err(").and_then(|r| r.strip_suffix(')')) {
                    Val::Err(r.to_string())
                } else if let Some(r) = s.strip_prefix('\'').and_then(|r| r.strip_suffix('\'')) {
                    Val::Txt(r.to_string())
                } else {
                    return None;
                }
            }
        })
    }
}

/// Ordered list of `key → value` lines.
#[derive(Clone, Debug, Default, PartialEq, Eq)]
pub struct Transcript {
    pub lines: Vec<(String, Val)>,
}

impl Transcript {
    pub fn new() -> Self {
        Self::default()
    }
    pub fn push(&mut self, key: impl Into<String>, v: Val) {
        self.lines.push((key.into(), v));
    }
    pub fn get(&self, key: &str) -> Option<&Val> {
        self.lines.iter().find(|(k, _)| k == key).map(|(_, v)| v)
    }
    pub fn map(&self) -> HashMap<&str, &Val> {
        self.lines.iter().map(|(k, v)| (k.as_str(), v)).collect()
    }
    pub fn with_prefix<'a>(&'a self, p: &'a str) -> impl Iterator<Item = &'a (String, Val)> + 'a {
        self.lines.iter().filter(move |(k, _)| k.starts_with(p))
    }
    /// One `key = value` line per entry. Keys never contain newlines; text
    /// values have theirs escaped.
    pub fn render(&self) -> String {
        let mut s = String::new();
        for (k, v) in &self.lines {
            let r = v.render().replace('\\', "\\\\").replace('\n', "\\n");
            let _ = writeln!(s, "{k} = {r}");
        }
        s
    }
    pub fn parse(s: &str) -> Option<Transcript> {
        let mut t = Transcript::new();
        for l in s.lines() {
            if l.is_empty() {
                continue;
            }
            let (k, v) = l.split_once(" = ")?;
            let v = v.replace("\\n", "\n").replace("\\\\", "\\");
            t.push(k, Val::parse(&v)?);
        }
        Some(t)
    }
    /// The part of the transcript that is "decoding stored data" in the sense of
    /// C08: no Debug renderings (`dbg.` segments) and no derived sums (`~`).
    pub fn stored_only(&self) -> Transcript {
        Transcript {
            lines: self
                .lines
                .iter()
                .filter(|(k, _)| !k.split('.').any(|seg| seg == "dbg" || seg.starts_with('~')))
                .cloned()
                .collect(),
        }
    }
}

/// What the reference model expects for a key.
#[derive(Clone, Debug, PartialEq, Eq)]
pub enum Exp {
    /// Exactly this value.
    Is(Val),
    /// Any of these values.
    Either(Vec<Val>),
    /// Compared only when the call was recorded at all (observation channels
    /// that depend on something outside the property, e.g. a Debug format).
    IfPresent(Val),
    /// The key must be present; its value is not constrained.
    Any,
    /// Every key that starts with this entry's key is unconstrained (latitude
    /// the property statement leaves; validated by a dedicated check if at all).
    Free,
}

/// Expected transcript: ordered `key → Exp`.
#[derive(Clone, Debug, Default)]
pub struct Expected {
    pub lines: Vec<(String, Exp)>,
}

impl Expected {
    pub fn new() -> Self {
        Self::default()
    }
    pub fn is(&mut self, key: impl Into<String>, v: Val) {
        self.lines.push((key.into(), Exp::Is(v)));
    }
    pub fn u(&mut self, key: impl Into<String>, v: u64) {
        self.is(key, Val::U(v));
    }
    pub fn panic(&mut self, key: impl Into<String>) {
        self.is(key, Val::Panic);
    }
    pub fn if_present(&mut self, key: impl Into<String>, v: Val) {
        self.lines.push((key.into(), Exp::IfPresent(v)));
    }
    pub fn any(&mut self, key: impl Into<String>) {
        self.lines.push((key.into(), Exp::Any));
    }
    pub fn free(&mut self, key: impl Into<String>) {
        self.lines.push((key.into(), Exp::Free));
    }
    pub fn either(&mut self, key: impl Into<String>, v: Vec<Val>) {
        self.lines.push((key.into(), Exp::Either(v)));
    }
    pub fn get(&self, key: &str) -> Option<&Exp> {
        self.lines.iter().find(|(k, _)| k == key).map(|(_, v)| v)
    }

    /// Compares an actual transcript with this expectation. `filter` selects
    /// the keys that take part (both sides). Returns the first few mismatches.
    pub fn diff(&self, actual: &Transcript, filter: &dyn Fn(&str) -> bool) -> Vec<String> {
        let mut out = Vec::new();
        let amap = actual.map();
        let mut free: Vec<&str> = Vec::new();
        let mut expected_keys: HashMap<&str, ()> = HashMap::new();
        for (k, e) in &self.lines {
            if let Exp::Free = e {
                free.push(k.as_str());
                continue;
            }
            expected_keys.insert(k.as_str(), ());
            if !filter(k) {
                continue;
            }
            match amap.get(k.as_str()) {
                None if matches!(e, Exp::IfPresent(_)) => {}
                None => out.push(format!("{k}: expected {e:?}, call not recorded")),
                Some(a) => {
                    let ok = match e {
                        Exp::Is(v) | Exp::IfPresent(v) => *a == v,
                        Exp::Either(vs) => vs.iter().any(|v| *a == v),
                        Exp::Any => true,
                        Exp::Free => true,
                    };
                    if !ok {
                        out.push(format!("{k}: expected {e:?}, got {}", a.render()));
                    }
                }
            }
            if out.len() >= 8 {
                return out;
            }
        }
        for (k, a) in &actual.lines {
            if !filter(k) || expected_keys.contains_key(k.as_str()) {
                continue;
            }
            if free.iter().any(|p| k.starts_with(p)) {
                continue;
            }
            // Debug renderings and other `dbg` observations are never pinned by
            // the model unless it lists them explicitly
            if k.split('.').any(|seg| seg == "dbg") {
                continue;
            }
            out.push(format!("{k}: got {}, the model expects no such result", a.render()));
            if out.len() >= 8 {
                break;
            }
        }
        out
    }
}

/// Recorder used by the exercise interpreters.
pub struct Rec {
    pub t: Transcript,
    pub base: usize,
}

impl Rec {
    pub fn new(base: usize) -> Self {
        Self { t: Transcript::new(), base }
    }
    /// Runs `f` under `catch_unwind`; records its value or `Panic`. Returns
    /// whether it completed.
    pub fn call(&mut self, key: String, f: impl FnOnce() -> Val) -> bool {
        match crate::panics::catch(f) {
            Some(v) => {
                self.t.push(key, v);
                true
            }
            None => {
                self.t.push(key, Val::Panic);
                false
            }
        }
    }
    pub fn ext<T: ?Sized>(&self, r: &T) -> Val {
        let p = r as *const T as *const u8 as usize;
        Val::Ext(p.wrapping_sub(self.base), std::mem::size_of_val(r))
    }
    pub fn ext_raw(&self, p: *const u8, len: usize) -> Val {
        Val::Ext((p as usize).wrapping_sub(self.base), len)
    }
    pub fn str_res<E>(&self, r: Result<&str, E>, classify: impl FnOnce(E) -> Val) -> Val {
        match r {
            Ok(s) => Val::Str((s.as_ptr() as usize).wrapping_sub(self.base), s.len()),
            Err(e) => classify(e),
        }
    }
}
