//! Payloads as real firmware and boot loaders produce them. Multiboot2 carries
//! blobs defined by neighbouring specifications (SMBIOS, ELF, UEFI, ACPI,
//! DHCP, VBE/EGA). To the crates under test they are opaque bytes or plain
//! numbers; generating them well-formed - signatures, checksums, terminators,
//! reserved indices, conventional addresses and geometries - makes sure that
//! "opaque" really is opaque. Written from those specifications, never from
//! `/repo`.

use crate::bytes::*;

fn m(key: u64, i: usize) -> u8 {
    marker(key ^ 0x5EA1, i)
}

/// SMBIOS 2.1 (32-bit) entry point: 31 bytes, anchors `_SM_` / `_DMI_`, both
/// checksums valid.
pub fn smbios_entry_point(major: u8, minor: u8, key: u64) -> Vec<u8> {
    let mut v = vec![0u8; 31];
    v[..4].copy_from_slice(b"_SM_");
    v[5] = 0x1f;
    v[6] = major;
    v[7] = minor;
    put16(&mut v, 8, 0x0100 | m(key, 0) as u16);
    v[10] = 0;
    v[16..21].copy_from_slice(b"_DMI_");
    put16(&mut v, 22, 0x0400 + m(key, 1) as u16);
    put32(&mut v, 24, 0x000e_0000 + ((m(key, 2) as u32) << 4));
    put16(&mut v, 28, 1 + (m(key, 3) % 60) as u16);
    v[30] = (major << 4) | (minor & 0xf);
    let s = v[16..31].iter().fold(0u8, |a, x| a.wrapping_add(*x));
    v[21] = 0u8.wrapping_sub(s);
    let s = v.iter().fold(0u8, |a, x| a.wrapping_add(*x));
    v[4] = 0u8.wrapping_sub(s);
    v
}

/// SMBIOS 3.0 (64-bit) entry point: 24 bytes, anchor `_SM3_`, checksum valid.
pub fn smbios3_entry_point(major: u8, minor: u8, key: u64) -> Vec<u8> {
    let mut v = vec![0u8; 24];
    v[..5].copy_from_slice(b"_SM3_");
    v[6] = 0x18;
    v[7] = major;
    v[8] = minor;
    v[9] = m(key, 0) % 4;
    v[10] = 1;
    put32(&mut v, 12, 0x800 + m(key, 1) as u32);
    put64(&mut v, 16, 0x000e_0000 + ((m(key, 2) as u64) << 4));
    let s = v.iter().fold(0u8, |a, x| a.wrapping_add(*x));
    v[5] = 0u8.wrapping_sub(s);
    v
}

/// An SMBIOS structure table: `k` structures (type, length, handle, formatted
/// area, string set closed by a double NUL), then the end-of-table structure
/// (type 127, length 4), then `tail` further bytes as firmware buffers have.
pub fn smbios_structures(key: u64, k: usize, tail: usize) -> Vec<u8> {
    let mut v = Vec::new();
    for j in 0..k {
        let ty = [0u8, 1, 2, 3, 4, 16, 17, 32][m(key, 10 + j) as usize % 8];
        let flen = 4 + (m(key, 40 + j) % 12) as usize;
        v.push(ty);
        v.push(flen as u8);
        v.extend_from_slice(&(j as u16).to_le_bytes());
        for i in 4..flen {
            v.push(m(key, 100 + 16 * j + i));
        }
        let strings = m(key, 70 + j) % 3;
        for s in 0..strings {
            let l = 1 + m(key, 80 + 4 * j + s as usize) % 6;
            for i in 0..l {
                v.push(b'A' + (m(key, 200 + 8 * j + i as usize) % 26));
            }
            v.push(0);
        }
        if strings == 0 {
            v.push(0);
        }
        v.push(0);
    }
    v.extend_from_slice(&[127, 4, (k & 0xff) as u8, (k >> 8) as u8, 0, 0]);
    for i in 0..tail {
        v.push(m(key, 900 + i) | 1);
    }
    v
}

/// One ELF section header (`es` = 40: ELF32 layout, 64: ELF64 layout) as a
/// linker writes it: name offset, type, flags, address, file offset, size,
/// link (a small index), info, alignment (power of two), entry size.
#[allow(clippy::too_many_arguments)]
pub fn elf_section_header(es: usize, name: u32, typ: u32, flags: u64, addr: u64, size: u64, link: u32, key: u64, j: usize) -> Vec<u8> {
    let mut e = vec![0u8; es];
    put32(&mut e, 0, name);
    put32(&mut e, 4, typ);
    let info = (m(key, 300 + j) % 4) as u32;
    let align = 1u64 << (m(key, 330 + j) % 13);
    let entsize = [0u64, 0, 16, 24][m(key, 360 + j) as usize % 4];
    let off = 0x1000 * (j as u64 + 1);
    if es == 40 {
        put32(&mut e, 8, flags as u32);
        put32(&mut e, 12, addr as u32);
        put32(&mut e, 16, off as u32);
        put32(&mut e, 20, size as u32);
        put32(&mut e, 24, link);
        put32(&mut e, 28, info);
        put32(&mut e, 32, align as u32);
        put32(&mut e, 36, entsize as u32);
    } else {
        put64(&mut e, 8, flags);
        put64(&mut e, 16, addr);
        put64(&mut e, 24, off);
        put64(&mut e, 32, size);
        put32(&mut e, 40, link);
        put32(&mut e, 44, info);
        put64(&mut e, 48, align);
        put64(&mut e, 56, entsize);
    }
    e
}

/// A UEFI memory descriptor (first 40 bytes of a `d`-byte stride): type
/// 0..=16 (16 = EfiMaxMemoryType, a value firmware tables do contain as a
/// terminator), page-aligned physical start, zero virtual start, small page
/// counts including 0, conventional attribute bits.
pub fn efi_descriptor(key: u64, j: usize, d: usize) -> Vec<u8> {
    let mut v = vec![0u8; d];
    let ty = (m(key, 400 + j) % 17) as u32;
    put32(&mut v, 0, ty);
    put64(&mut v, 8, 0x1000 * (m(key, 430 + j) as u64 + 256 * j as u64));
    put64(&mut v, 16, 0);
    let pages = [0u64, 0, 1, 2, 16, 256, 0x8000][m(key, 460 + j) as usize % 7];
    put64(&mut v, 24, pages);
    let att = [0xfu64, 0x8000_0000_0000_000f, 0x1, 0x0, 0x7000][m(key, 490 + j) as usize % 5];
    put64(&mut v, 32, att);
    for (i, b) in v.iter_mut().enumerate().skip(40) {
        *b = m(key, 520 + 64 * j + i);
    }
    v
}

/// A DHCP ACK as a PXE firmware hands it over: BOOTP fixed part, the magic
/// cookie, message type 5, a few options, the end option, optional padding.
pub fn dhcp_ack(key: u64, pad: usize) -> Vec<u8> {
    let mut v = vec![0u8; 236];
    v[0] = 2;
    v[1] = 1;
    v[2] = 6;
    for i in 4..8 {
        v[i] = m(key, i);
    }
    v[16..20].copy_from_slice(&[10, 0, 2, 15]);
    v[20..24].copy_from_slice(&[10, 0, 2, 2]);
    for i in 28..34 {
        v[i] = m(key, i);
    }
    v.extend_from_slice(&[0x63, 0x82, 0x53, 0x63]);
    v.extend_from_slice(&[53, 1, 5]);
    v.extend_from_slice(&[1, 4, 255, 255, 255, 0]);
    v.extend_from_slice(&[3, 4, 10, 0, 2, 2]);
    v.extend_from_slice(&[51, 4, 0, 1, 0x51, 0x80]);
    v.push(255);
    v.extend(std::iter::repeat(0).take(pad));
    v
}

/// Screen geometries and depths that occur (text modes, VGA, VESA, HD).
pub const WIDTHS: [u32; 12] = [0, 40, 80, 132, 320, 640, 800, 1024, 1280, 1600, 1920, 3840];
pub const HEIGHTS: [u32; 12] = [0, 25, 43, 50, 200, 480, 600, 768, 1024, 1200, 1080, 2160];
pub const DEPTHS: [u32; 8] = [0, 1, 4, 8, 15, 16, 24, 32];
/// Conventional framebuffer addresses: EGA text, VGA graphics, typical PCI BARs.
pub const FB_ADDRS: [u64; 6] = [0xb8000, 0xa0000, 0xb0000, 0xe000_0000, 0xfd00_0000, 0x1_0000_0000];

/// Contents of a blob argument or payload of `n` bytes (approximately, for
/// the structured kinds) in one of the realistic shapes; `variant` selects.
pub fn blob(variant: u8, key: u64, n: usize) -> Vec<u8> {
    match variant % 8 {
        0 => {
            let mut v = smbios_entry_point(2 + m(key, 0) % 2, m(key, 1) % 9, key);
            v.extend(smbios_structures(key, n % 5, n % 7));
            v
        }
        1 => {
            let mut v = smbios3_entry_point(3, m(key, 1) % 7, key);
            v.extend(smbios_structures(key, n % 5, n % 3));
            v
        }
        2 => smbios_structures(key, n % 6, 1 + n % 9),
        3 => dhcp_ack(key, n % 32),
        4 => vec![m(key, 0); n],
        5 => vec![0u8; n],
        6 => {
            let es = if key & 1 == 0 { 40 } else { 64 };
            let k = 1 + n % 4;
            let mut v = Vec::new();
            for j in 0..k {
                v.extend(elf_section_header(es, j as u32, [0u32, 1, 3, 2][j % 4], 6, 0x10_0000 * j as u64, 0x100, (m(key, j) as usize % k) as u32, key, j));
            }
            v
        }
        _ => (0..n).map(|i| m(key, i)).collect(),
    }
}
