//! Engine A of DESIGN.md: the reference model of the Multiboot2 structures and
//! the "exercise" interpreters that drive the real crates and record what they
//! return as an address-free transcript.
//!
//! * `bytes`, `walk`, `expect_*`, `encode` never call into `/repo`: they are an
//!   independent, deliberately naive reading of the specification
//!   (`multiboot2.h` layout) over `&[u8]`.
//! * `exercise_*` call the public API of the crates under test and record one
//!   transcript line per call: a value, an extent (offset/length relative to
//!   the region base), an error, or `Panic`.
//!
//! This crate only uses the parsing API, so it also builds against the crates
//! with `default-features = false` (needed by the C08 transcript driver).

pub mod bytes;
pub mod elfnames;
pub mod encode;
pub mod realistic;
pub mod relate;
pub mod panics;
pub mod exercise_hdr;
pub mod exercise_mbi;
pub mod expect_hdr;
pub mod expect_mbi;
pub mod extent;
pub mod fuzzdec;
pub mod transcript;
pub mod walk;
pub mod warm;

pub use bytes::*;
pub use transcript::{Exp, Transcript, Val};
