//! Decoding of raw fuzzer bytes into structured inputs (Engine D). Shared by
//! the libFuzzer targets and the stable harness, so that a saved fuzzer input
//! replays through `./check` without nightly.
//!
//! Layout of a raw input: byte 0 = selector bits, the rest = region bytes.

use crate::bytes::*;
use crate::expect_hdr::sanitize_hdr_enums;
use crate::walk::*;

/// Boot information: region := rest padded to a multiple of 8 (at least 16
/// bytes). Selector bit 0..2: keep the total-size word as is (1/8) or set it
/// to the region length; bit 3: force a valid end tag; bit 7: reduce the VBE
/// memory-model byte (open finding D16) when `exclude_d16`.
pub fn decode_mbi(raw: &[u8], exclude_d16: bool) -> (Vec<u8>, u64) {
    let sel = raw.first().copied().unwrap_or(0);
    let mut r: Vec<u8> = raw.get(1..).unwrap_or(&[]).to_vec();
    while r.len() < 16 || r.len() % 8 != 0 {
        r.push(0);
    }
    if sel & 7 != 0 {
        let l = r.len() as u32;
        put32(&mut r, 0, l);
    } else {
        // memory must be valid for what the first word declares
        let ts = le32(&r, 0) as usize;
        if r8(ts).max(8) > r.len() {
            let l = r.len() as u32;
            put32(&mut r, 0, l);
        } else {
            r.truncate(r8(ts).max(8));
        }
    }
    if sel & 8 != 0 {
        let ts = le32(&r, 0) as usize;
        if ts >= 16 && ts % 8 == 0 && ts <= r.len() {
            r[ts - 8..ts].copy_from_slice(&crate::encode::END_TAG);
        }
    }
    let mut excluded = 0;
    if exclude_d16 {
        let ts = le32(&r, 0) as usize;
        if ts >= 8 && ts % 8 == 0 && ts <= r.len() {
            for it in walk_mbi(&r).items {
                if it.typ == 7 && r8(it.size as usize) == 784 && r[it.off + 555] > 7 {
                    r[it.off + 555] %= 8;
                    excluded += 1;
                }
            }
        }
    }
    (r, excluded)
}

/// Header: region := rest padded (at least 16 bytes); selector bits fix the
/// magic, the length word and the checksum; enumerated fields are sanitised.
pub fn decode_hdr(raw: &[u8]) -> Vec<u8> {
    let sel = raw.first().copied().unwrap_or(0);
    let mut r: Vec<u8> = raw.get(1..).unwrap_or(&[]).to_vec();
    while r.len() < 16 || r.len() % 8 != 0 {
        r.push(0);
    }
    if sel & 3 != 0 {
        put32(&mut r, 0, HDR_MAGIC);
    }
    if sel & 12 != 0 {
        let l = r.len() as u32;
        put32(&mut r, 8, l);
    } else {
        let len = le32(&r, 8) as usize;
        if r8(len).max(16) > r.len() {
            let l = r.len() as u32;
            put32(&mut r, 8, l);
        } else {
            r.truncate(r8(len).max(16));
        }
    }
    sanitize_hdr_enums(&mut r);
    if sel & 48 != 0 {
        let (m, a, l) = (le32(&r, 0), le32(&r, 4), le32(&r, 8));
        put32(&mut r, 12, model_checksum(m, a, l));
    }
    r
}

/// Stand-alone tag: byte 0 = kind to view it as (mod 22), rest = image padded
/// to a multiple of 8 (at least 8 bytes); selector bit 7 sets the size word to
/// the unpadded length.
pub fn decode_tag(raw: &[u8], exclude_d16: bool) -> (u32, Vec<u8>) {
    let sel = raw.first().copied().unwrap_or(0);
    let kind = (sel & 31) as u32 % 22;
    let body = raw.get(1..).unwrap_or(&[]);
    let mut img = body.to_vec();
    while img.len() < 8 || img.len() % 8 != 0 {
        img.push(0x5A);
    }
    if sel & 0x80 != 0 {
        put32(&mut img, 4, body.len().max(8) as u32);
    }
    if sel & 0x40 != 0 {
        put32(&mut img, 0, kind);
    }
    if exclude_d16 && kind == 7 && img.len() >= 784 && r8(le32(&img, 4) as usize) == 784 && img[555] > 7 {
        img[555] %= 8;
    }
    (kind, img)
}

/// Reference search for `find_header` (C13).
#[derive(Debug, PartialEq, Eq)]
pub enum Find {
    NoHeader,
    SomeErr,
    Found(usize, usize),
}

pub fn model_find(b: &[u8]) -> Find {
    let w = b.len().min(8192);
    let first = (0..w).find(|&i| i + 4 <= w && le32(b, i) == HDR_MAGIC);
    let Some(i) = first else { return Find::NoHeader };
    if i % 8 != 0 || i + 12 > b.len() {
        return Find::SomeErr;
    }
    let l = le32(b, i + 8) as usize;
    if i + l > b.len() {
        return Find::SomeErr;
    }
    Find::Found(i, l)
}
