//! The C01/C09 oracle over a transcript: termination, every extent inside the
//! declared region and inside the tag it was derived from.

use crate::bytes::r8;
use crate::transcript::{Transcript, Val};
use std::collections::HashMap;

/// Kinds whose accessors are driven by counts/lengths/strides stored in the tag.
fn counted_kind(k: u64) -> bool {
    matches!(k, 1 | 2 | 3 | 6 | 8 | 9 | 13 | 14 | 15 | 16 | 17)
}

pub struct Stats {
    pub loaded: bool,
    pub panics: usize,
    pub counted_views: usize,
    pub kinds: Vec<u64>,
}

/// The C01 oracle over a transcript: termination, every extent inside the
/// region and inside the tag it was derived from.
pub fn validate(t: &Transcript, region_len: usize) -> Result<Stats, String> {
    validate_from(t, region_len, 8)
}

/// `first_tag`: offset of the first tag (8 for boot informations, 16 for headers).
pub fn validate_from(t: &Transcript, region_len: usize, first_tag: usize) -> Result<Stats, String> {
    let mut st = Stats { loaded: false, panics: 0, counted_views: 0, kinds: Vec::new() };
    match t.get("load") {
        Some(Val::Txt(s)) if s == "Ok" => st.loaded = true,
        Some(Val::Err(_)) | Some(Val::Panic) => return Ok(st),
        other => return Err(format!("load produced no classifiable outcome: {other:?}")),
    }
    // tag extents as the implementation reports them
    let mut tags: HashMap<usize, (usize, usize)> = HashMap::new(); // index -> (off,len)
    let mut by_off: HashMap<usize, usize> = HashMap::new();
    let mut kinds: HashMap<usize, u64> = HashMap::new();
    for (k, v) in &t.lines {
        if let Val::Txt(s) = v {
            if s == "step-bound" {
                return Err(format!("{k}: iteration exceeded its step bound (does not terminate)"));
            }
        }
        if v.is_panic() {
            st.panics += 1;
        }
        if let Some(rest) = k.strip_prefix('w') {
            if let Ok(i) = rest.parse::<usize>() {
                if let Val::Ext(o, l) = v {
                    if o % 8 != 0 || *o < first_tag || o.checked_add(*l).map_or(true, |e| e > region_len) {
                        return Err(format!("{k}: tag extent ({o},{l}) is not inside the declared region of {region_len} bytes"));
                    }
                    tags.insert(i, (*o, *l));
                    by_off.insert(*o, i);
                }
            } else if let Some((idx, field)) = rest.split_once('.') {
                if let Ok(i) = idx.parse::<usize>() {
                    if field == "typ" {
                        if let Val::U(x) = v {
                            kinds.insert(i, *x);
                        }
                    }
                    if field == "size" {
                        if let (Val::U(x), Some((_, l))) = (v, tags.get(&i)) {
                            if r8(*x as usize) != *l {
                                return Err(format!("{k}: stored size {x} but the item occupies {l} bytes in memory"));
                            }
                        }
                    }
                }
            }
        }
    }
    for (k, v) in &t.lines {
        let Some((o, l)) = v.extent() else { continue };
        let end = match o.checked_add(l) {
            Some(e) if e <= region_len => e,
            _ => return Err(format!("{k}: returned reference ({o},{l}) lies outside the declared region of {region_len} bytes")),
        };
        // owner tag
        let owner: Option<usize> = if let Some(rest) = k.strip_prefix('t').or_else(|| k.strip_prefix('w')) {
            rest.split('.').next().and_then(|s| s.parse::<usize>().ok())
        } else if k.starts_with("g.") || (k.starts_with('m') && k[1..].parse::<usize>().is_ok()) {
            match by_off.get(&o) {
                Some(i) => Some(*i),
                None => return Err(format!("{k}: returned a tag reference at offset {o} where the walk has no tag")),
            }
        } else {
            None
        };
        if let Some(i) = owner {
            let Some((to, tl)) = tags.get(&i) else {
                return Err(format!("{k}: value derived from item {i} which the walk did not yield"));
            };
            if o < *to || end > to + tl {
                return Err(format!("{k}: reference ({o},{l}) leaves the tag it was derived from (tag at {to}, {tl} bytes incl. padding)"));
            }
            if k.ends_with(".cast") {
                if let Some(kind) = kinds.get(&i) {
                    st.kinds.push(*kind);
                    if counted_kind(*kind) {
                        st.counted_views += 1;
                    }
                }
            }
        }
    }
    Ok(st)
}

