//! Independent encoders: the specification's little-endian binary images,
//! written field by field. Never calls into `/repo`.

use crate::bytes::*;
use crate::walk::{model_checksum, HDR_MAGIC};

/// A boot-information tag: `type`, `size = 8 + body.len()`, body. Unpadded.
pub fn tag(typ: u32, body: &[u8]) -> Vec<u8> {
    let mut v = Vec::with_capacity(8 + body.len());
    v.extend_from_slice(&typ.to_le_bytes());
    v.extend_from_slice(&((8 + body.len()) as u32).to_le_bytes());
    v.extend_from_slice(body);
    v
}

/// A header tag: `type:u16`, `flags:u16`, `size:u32`, body. Unpadded.
pub fn hdr_tag(typ: u16, flags: u16, body: &[u8]) -> Vec<u8> {
    let mut v = Vec::with_capacity(8 + body.len());
    v.extend_from_slice(&typ.to_le_bytes());
    v.extend_from_slice(&flags.to_le_bytes());
    v.extend_from_slice(&((8 + body.len()) as u32).to_le_bytes());
    v.extend_from_slice(body);
    v
}

pub fn pad8(v: &mut Vec<u8>, fill: u8) {
    while v.len() % 8 != 0 {
        v.push(fill);
    }
}

pub const END_TAG: [u8; 8] = [0, 0, 0, 0, 8, 0, 0, 0];

/// Boot information: total size, reserved word, tags each padded to 8 with
/// `pad`, and (optionally) the terminating end tag.
pub fn mbi(tags: &[Vec<u8>], reserved: u32, pad: u8, end: bool) -> Vec<u8> {
    let mut v = vec![0u8; 8];
    for t in tags {
        v.extend_from_slice(t);
        pad8(&mut v, pad);
    }
    if end {
        v.extend_from_slice(&END_TAG);
    }
    let ts = v.len() as u32;
    put32(&mut v, 0, ts);
    put32(&mut v, 4, reserved);
    v
}

/// Multiboot2 header with correct magic, length and checksum. The caller
/// decides whether `tags` ends with an end tag.
pub fn hdr(arch: u32, tags: &[Vec<u8>], pad: u8) -> Vec<u8> {
    let mut v = vec![0u8; 16];
    for t in tags {
        v.extend_from_slice(t);
        pad8(&mut v, pad);
    }
    let len = v.len() as u32;
    put32(&mut v, 0, HDR_MAGIC);
    put32(&mut v, 4, arch);
    put32(&mut v, 8, len);
    put32(&mut v, 12, model_checksum(HDR_MAGIC, arch, len));
    v
}

pub fn hdr_end_tag() -> Vec<u8> {
    hdr_tag(0, 0, &[])
}

fn w(key: u64, n: usize, base: usize) -> Vec<u8> {
    (0..n).map(|i| marker(key, base + i)).collect()
}

/// Printable-ASCII marker text (valid UTF-8, no NUL).
pub fn ascii_markers(key: u64, n: usize, base: usize) -> Vec<u8> {
    (0..n).map(|i| 0x21 + marker(key, base + i) % 0x5e).collect()
}

/// `n` bytes of valid, NUL-free UTF-8 in which one-, two-, three- and
/// four-byte characters alternate pseudo-randomly (so that a character
/// straddles most byte offsets for some key).
pub fn utf8_markers(key: u64, n: usize, base: usize) -> Vec<u8> {
    const CH: [&str; 6] = ["a", "\u{e9}", "\u{20ac}", "\u{10348}", "Z", "\u{df}"];
    let mut v = Vec::with_capacity(n);
    let mut i = 0;
    while v.len() < n {
        let c = CH[marker(key, base + i) as usize % CH.len()].as_bytes();
        i += 1;
        if v.len() + c.len() <= n {
            v.extend_from_slice(c);
        } else {
            v.push(0x21 + marker(key, base + i) % 0x5e);
        }
    }
    v
}

fn text(key: u64, n: usize, base: usize, sel: u32) -> Vec<u8> {
    let mut t = if sel & 8 != 0 { utf8_markers(key, n, base) } else { ascii_markers(key, n, base) };
    // one text in eight begins with a byte order mark (valid UTF-8, no NUL)
    if sel & 0x70 == 0x70 && n >= 3 {
        t[..3].copy_from_slice(&[0xEF, 0xBB, 0xBF]);
        if std::str::from_utf8(&t).is_err() {
            for b in t[3..].iter_mut() {
                *b = 0x21 + *b % 0x5e;
            }
        }
    }
    t
}

/// Byte patterns that mean something elsewhere (an end tag, the magics, an
/// all-ones word, signatures of neighbouring specifications, a tag header):
/// inside an opaque payload they are ordinary bytes.
pub const PATTERNS: [[u8; 8]; 12] = [
    [0, 0, 0, 0, 8, 0, 0, 0],
    [0x89, 0x62, 0xD7, 0x36, 0, 0, 0, 0],
    [0xD6, 0x50, 0x52, 0xE8, 0, 0, 0, 0],
    [0xFF; 8],
    [0; 8],
    *b"RSD PTR ",
    [0xEF, 0xBB, 0xBF, 0xEF, 0xBB, 0xBF, 0, 0],
    [0x7f, b'E', b'L', b'F', 2, 1, 1, 0],
    *b"_SM3__SM",
    [1, 0, 0, 0, 16, 0, 0, 0],
    [0xFF, 0xFF, 0xFF, 0x7F, 0, 0, 0, 0x80],
    [0x5A; 8],
];

/// In one payload of four (`sel` bits 20..=21 == 1) up to three 8-byte words
/// of `body[from..]` are replaced by [`PATTERNS`].
fn pattern_fill(body: &mut [u8], from: usize, key: u64, sel: u32) {
    if (sel >> 20) & 3 == 2 && body.len() > from {
        // one payload in four is a uniform fill with one byte value (all 256
        // occur): zeroed memory, 0xFF erase patterns, allocator poison bytes
        let b = (sel >> 22) as u8;
        for x in body[from..].iter_mut() {
            *x = b;
        }
        return;
    }
    if (sel >> 20) & 3 != 1 || body.len() < from + 8 {
        return;
    }
    let words = (body.len() - from) / 8;
    for j in 0..3 {
        let w = marker(key ^ 0xFA77, 2 * j) as usize % words;
        let p = PATTERNS[marker(key ^ 0xFA77, 2 * j + 1) as usize % PATTERNS.len()];
        body[from + 8 * w..from + 8 * w + 8].copy_from_slice(&p);
        if j == 0 && words >= 1 && marker(key ^ 0xFA77, 9) & 1 == 0 {
            // the last word of the payload
            body[from + 8 * (words - 1)..from + 8 * words].copy_from_slice(&p);
        }
    }
}

/// In-use / unused raw ELF section types used by the generators.
pub const ELF_TYPES: [u32; 20] = [
    0,
    1,
    2,
    3,
    7,
    8,
    11,
    12,
    13,
    0x5FFF_FFFF,
    0x6000_0000,
    0x6ABC_DEF0,
    0x6FFF_FFFF,
    0x7000_0000,
    0x7FFF_FFFF,
    0x8000_0000,
    0xFFFF_FFFF,
    9,
    10,
    5,
];

/// A spec-conformant tag image of `kind` whose every field byte is a
/// position-dependent marker (so that no two fields are equal and none is
/// zero), subject to the constraints conformance imposes. `n` steers the
/// variable-length part, `sel` selects variants. The returned image is
/// unpadded (`len == size`).
pub fn conformant_tag(kind: u32, key: u64, n: usize, sel: u32) -> Vec<u8> {
    match kind {
        0 | 18 => tag(kind, &[]),
        1 | 2 => {
            let mut body = text(key, n, 8, sel);
            body.push(0);
            tag(kind, &body)
        }
        3 => {
            let mut body = w(key, 8, 8);
            let a = le32(&body, 0);
            let b = le32(&body, 4);
            let (s, e) = if a <= b { (a, b) } else { (b, a) };
            put32(&mut body, 0, s);
            put32(&mut body, 4, e);
            body.extend(text(key, n, 16, sel));
            body.push(0);
            tag(3, &body)
        }
        4 => tag(4, &w(key, 8, 8)),
        5 => tag(5, &w(key, 12, 8)),
        6 => {
            let mut body = w(key, 8 + 24 * n, 8);
            pattern_fill(&mut body, 8, key, sel);
            put32(&mut body, 0, 24);
            tag(6, &body)
        }
        7 => {
            let mut body = w(key, 776, 8);
            // VBE memory model (mode info byte 27) has 8 defined values.
            body[8 + 512 + 27] %= 8;
            // every second tag: a controller block as a video BIOS returns it -
            // signature "VESA" (or "VBE2"), BCD version 1.0 / 1.2 / 2.0 / 3.0
            if (sel >> 16) & 1 == 1 {
                body[8..12].copy_from_slice(if (sel >> 17) & 3 == 3 { b"VBE2" } else { b"VESA" });
                let ver = [0x0100u16, 0x0102, 0x0200, 0x0300][((sel >> 19) & 3) as usize];
                body[12..14].copy_from_slice(&ver.to_le_bytes());
            }
            tag(7, &body)
        }
        8 => {
            let ty = (sel & 0xff) as u8;
            let mut body = w(key, 24, 8);
            body[21] = ty;
            // bits per pixel: small, realistic values in 3 of 4 tags
            if (sel >> 9) & 3 != 0 {
                body[20] = [1u8, 2, 4, 8, 15, 16, 24, 32][((sel >> 11) & 7) as usize];
            }
            // the reserved u16 behind the type byte: both bytes markers, only the
            // first, only the second, or none (zero, as boot loaders write it)
            match (sel >> 24) & 3 {
                1 => body[22] = 0,
                2 => body[23] = 0,
                3 => {
                    body[22] = 0;
                    body[23] = 0;
                }
                _ => {}
            }
            // every second tag: an address and a geometry that occur in practice
            // (EGA text buffer, VGA window, PCI BARs; text and VESA modes)
            if (sel >> 14) & 1 == 1 {
                use crate::realistic::*;
                let wi = WIDTHS[marker(key, 1) as usize % WIDTHS.len()];
                let he = HEIGHTS[marker(key, 2) as usize % HEIGHTS.len()];
                put64(&mut body, 0, FB_ADDRS[marker(key, 3) as usize % FB_ADDRS.len()]);
                let bpp = body[20] as u32;
                put32(&mut body, 8, wi.wrapping_mul(bpp) / 8);
                put32(&mut body, 12, wi);
                put32(&mut body, 16, he);
            }
            match ty {
                0 => {
                    body.extend_from_slice(&(n as u16).to_le_bytes());
                    body.extend(w(key, 3 * n, 34));
                }
                1 => body.extend(w(key, 6, 32)),
                2 => {}
                _ => body.extend(w(key, n, 32)),
            }
            tag(8, &body)
        }
        9 if (sel >> 30) & 3 == 1 => {
            // The layout of the specification's text: u16 num, u16 entsize, u16
            // shndx, u16 reserved, then the headers (boot loaders write three
            // u32 words instead, which is what the crate reads; read that way
            // this tag announces an absurd count). All headers refer to the
            // harness-owned names; the string-table index is inside the table
            // or, in one tag of four, beyond it.
            let es: usize = if sel & 1 == 0 { 40 } else { 64 };
            let n = n.max(1);
            let mut body = vec![0u8; 8 + n * es];
            put16(&mut body, 0, n as u16);
            put16(&mut body, 2, es as u16);
            let shndx = if (sel >> 8) & 3 == 0 { [n as u16, 0x00ff, 0x7fff, 0xffff][((sel >> 10) & 3) as usize] } else { ((sel >> 1) as usize % n) as u16 };
            put16(&mut body, 4, shndx);
            for e in 0..n {
                let t = ELF_TYPES[((sel >> 4) as usize + e * 7) % ELF_TYPES.len()];
                let h = crate::realistic::elf_section_header(es, crate::elfnames::NAME_OFFS[(key as usize + e) % crate::elfnames::NAME_OFFS.len()], if e == 0 { 0 } else { t }, 6, crate::elfnames::base().unwrap_or(0x10_0000) as u64, 0x40, 0, key, e);
                body[8 + e * es..8 + (e + 1) * es].copy_from_slice(&h);
            }
            tag(9, &body)
        }
        9 => {
            let es: usize = if sel & 1 == 0 { 40 } else { 64 };
            let mut body = w(key, 12 + n * es, 8);
            pattern_fill(&mut body, 12, key, sel);
            put32(&mut body, 0, n as u32);
            put32(&mut body, 4, es as u32);
            let shndx = if n == 0 { 0 } else { (sel >> 1) as usize % n };
            put32(&mut body, 8, shndx as u32);
            let names = crate::elfnames::names();
            for e in 0..n {
                let at = 12 + e * es;
                let t = ELF_TYPES[((sel >> 4) as usize + e * 7) % ELF_TYPES.len()];
                if (sel >> 12) & 3 == 1 {
                    // a header as a linker writes it: small link index, power-of-two
                    // alignment, the string table's true size
                    let link = (marker(key, 700 + e) as usize % n) as u32;
                    let size = if e == shndx { names.len() as u64 } else { 0x100 * (1 + e as u64) };
                    let h = crate::realistic::elf_section_header(es, 0, t, (marker(key, 730 + e) % 8) as u64, 0x10_0000 * (e as u64 + 1), size, link, key, e);
                    body[at..at + es].copy_from_slice(&h);
                }
                put32(&mut body, at + 4, t);
                // half of the tags: every header's name offset and address refer to
                // the harness-owned names buffer, so that name() is defined
                if (sel >> 16) & 1 == 1 {
                    if let Some(b) = crate::elfnames::base() {
                        use crate::elfnames::NAME_OFFS;
                        let name = if (sel >> 29) & 1 == 1 { crate::elfnames::real_name_off(marker(key, 790 + e) as usize) } else { NAME_OFFS[(key as usize + e) % NAME_OFFS.len()] };
                        put32(&mut body, at, name);
                        if es == 40 {
                            put32(&mut body, at + 12, b as u32);
                        } else {
                            put64(&mut body, at + 16, b as u64);
                        }
                        // size field: the true size of the names, something smaller
                        // (a name offset may then lie behind it), or whatever is there
                        let sz = match (sel >> 17) & 3 {
                            0 => Some(names.len() as u64),
                            1 => Some(marker(key, 760 + e) as u64 % names.len() as u64),
                            _ => None,
                        };
                        if let Some(sz) = sz {
                            if es == 40 {
                                put32(&mut body, at + 20, sz as u32);
                            } else {
                                put64(&mut body, at + 32, sz);
                            }
                        }
                    }
                }
            }
            tag(9, &body)
        }
        10 => tag(10, &w(key, 20, 8)),
        11 | 19 | 21 => tag(kind, &w(key, 4, 8)),
        12 | 20 => tag(kind, &w(key, 8, 8)),
        13 => {
            // one table blob in four is SMBIOS as firmware writes it: an entry
            // point with valid checksums and/or a structure chain closed by the
            // end-of-table structure, with bytes behind it
            if (sel >> 16) & 3 == 1 {
                let mut body = w(key, 8, 8);
                body.extend(crate::realistic::blob((sel >> 18) as u8 % 3, key, n));
                return tag(13, &body);
            }
            let mut body = w(key, 8 + n, 8);
            pattern_fill(&mut body, 8, key, sel);
            // trailing zero bytes in the tables (they are content, not padding)
            if sel & 4 != 0 {
                for x in body.iter_mut().rev().take(3.min(n)) {
                    *x = 0;
                }
            }
            tag(13, &body)
        }
        14 => {
            let mut body = w(key, 20, 8);
            if sel & 2 == 0 {
                body[..8].copy_from_slice(b"RSD PTR ");
                let o = ascii_markers(key, 6, 17);
                body[9..15].copy_from_slice(&o);
            }
            if sel & 1 == 0 {
                body[8] = 0;
                let s = body.iter().fold(0u8, |a, x| a.wrapping_add(*x));
                body[8] = 0u8.wrapping_sub(s);
            }
            tag(14, &body)
        }
        15 => {
            let mut body = w(key, 36, 8);
            if sel & 2 == 0 {
                body[..8].copy_from_slice(b"RSD PTR ");
                let o = ascii_markers(key, 6, 17);
                body[9..15].copy_from_slice(&o);
            }
            put32(&mut body, 20, 36);
            if sel & 1 == 0 {
                body[32] = 0;
                let s = body.iter().fold(0u8, |a, x| a.wrapping_add(*x));
                body[32] = 0u8.wrapping_sub(s);
            }
            tag(15, &body)
        }
        16 => {
            if (sel >> 16) & 3 == 1 {
                return tag(16, &crate::realistic::dhcp_ack(key, n % 32));
            }
            let mut body = w(key, n, 8);
            pattern_fill(&mut body, 0, key, sel);
            if sel & 4 != 0 {
                for x in body.iter_mut().rev().take(2.min(n)) {
                    *x = 0;
                }
            }
            tag(16, &body)
        }
        17 => {
            let d = [40usize, 48, 56, 64][(sel % 4) as usize];
            let mut body = w(key, 8 + n * d, 8);
            pattern_fill(&mut body, 8, key, sel);
            if (sel >> 10) & 1 == 1 {
                // descriptors as firmware writes them: defined type numbers
                // (incl. the terminator value 16), small page counts incl. 0
                for j in 0..n {
                    let e = crate::realistic::efi_descriptor(key, j, d);
                    body[8 + j * d..8 + (j + 1) * d].copy_from_slice(&e);
                }
            }
            put32(&mut body, 0, d as u32);
            // descriptor version: 1 (the only one the crate iterates) in three of
            // four tags; the specification allows others
            let ver = match (sel >> 4) & 7 {
                6 => 2,
                7 => [0u32, 3, 0x0001_0000, u32::MAX][((sel >> 7) & 3) as usize],
                _ => 1,
            };
            put32(&mut body, 4, ver);
            tag(17, &body)
        }
        k => {
            let mut body = w(key, n, 8);
            pattern_fill(&mut body, 0, key, sel);
            tag(k, &body)
        }
    }
}

/// A conformant header tag of `kind` with marker field bytes and in-range
/// enumerated fields. `n` = number of information requests.
pub fn conformant_hdr_tag(kind: u32, key: u64, n: usize, sel: u32) -> Vec<u8> {
    let mut t = conformant_hdr_tag_markers(kind, key, n, sel);
    // one tag in four: every free 32-bit field is 0 or 8 (bits of the key) - data
    // that looks like an end tag (type 0, size 8) or like zero filler
    if (sel >> 8) & 3 == 1 && matches!(kind, 1 | 2 | 3 | 5 | 8 | 9) {
        let words = (t.len() - 8) / 4;
        for j in 0..words {
            put32(&mut t, 8 + 4 * j, [0u32, 8][(key >> (j % 48) & 1) as usize]);
        }
    }
    t
}

fn conformant_hdr_tag_markers(kind: u32, key: u64, n: usize, sel: u32) -> Vec<u8> {
    let flags = (sel & 1) as u16;
    match kind {
        0 => hdr_tag(0, 0, &[]),
        1 => {
            let mut body = w(key, 4 * n, 8);
            // request ids that are 0 (= the end tag's id), first and/or last
            if n > 0 && sel & 4 != 0 {
                put32(&mut body, 4 * (n - 1), 0);
            }
            if n > 0 && sel & 8 != 0 {
                put32(&mut body, 0, 0);
            }
            hdr_tag(1, flags, &body)
        }
        2 => hdr_tag(2, flags, &w(key, 16, 8)),
        3 | 8 | 9 => hdr_tag(kind as u16, flags, &w(key, 4, 8)),
        4 => hdr_tag(4, flags, &((sel >> 1) & 1).to_le_bytes()),
        5 => hdr_tag(5, flags, &w(key, 12, 8)),
        6 | 7 => hdr_tag(kind as u16, flags, &[]),
        10 => {
            let mut body = w(key, 16, 8);
            put32(&mut body, 12, (sel >> 1) % 3);
            hdr_tag(10, flags, &body)
        }
        k => hdr_tag((k % 11) as u16, flags, &[]),
    }
}
