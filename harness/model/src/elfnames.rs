//! Harness-owned section names. `ElfSection::name()` dereferences an address
//! stored in the tag (documented to be external memory), so it can only be
//! exercised when that address belongs to the harness. Every harness process
//! maps the same small names buffer at the same address below 4 GiB (so that
//! the 32-bit layout can hold it and separately started processes agree), and
//! the generators point the section headers' `addr` fields at it.

use crate::transcript::Val;
use std::sync::OnceLock;

pub const FIXED_BASE: usize = 0x2000_0000;

/// NUL-terminated names, some of them not UTF-8; ends with a NUL.
pub fn names() -> &'static [u8] {
    static N: OnceLock<Vec<u8>> = OnceLock::new();
    N.get_or_init(|| {
        let mut v = Vec::new();
        v.extend_from_slice(b"\0.text\0.data\0");
        v.extend_from_slice(&[0xff, 0xfe, 0]);
        v.extend_from_slice(".b\u{e9}ss\0.rodata\0\0".as_bytes());
        v.extend_from_slice(&[0xc3, 0]);
        v.extend_from_slice(b"last\0");
        // names linkers really emit (offsets in REAL_NAME_OFFS)
        for n in REAL_NAMES {
            v.extend_from_slice(n.as_bytes());
            v.push(0);
        }
        v
    })
}

/// Section names that linkers emit.
pub const REAL_NAMES: [&str; 14] = [".eh_frame", ".eh_frame_hdr", ".init_array", ".fini_array", ".symtab", ".strtab", ".shstrtab", ".bss", ".note.gnu.build-id", ".comment", ".debug_info", ".rela.dyn", ".got", ".tdata"];

/// Offset of `REAL_NAMES[i]` in the names buffer.
pub fn real_name_off(i: usize) -> u32 {
    let mut off = 39u32;
    for n in REAL_NAMES.iter().take(i % REAL_NAMES.len()) {
        off += n.len() as u32 + 1;
    }
    off
}

/// Offsets at which a name starts.
pub const NAME_OFFS: [u32; 9] = [0, 1, 7, 13, 16, 23, 31, 32, 34];

/// The name the buffer holds at `idx` (up to the next NUL).
pub fn model_name(idx: u32) -> Val {
    let n = names();
    let s = &n[idx as usize..];
    let end = s.iter().position(|b| *b == 0).unwrap();
    if std::str::from_utf8(&s[..end]).is_ok() {
        Val::Txt(crate::bytes::hex(&s[..end]))
    } else {
        Val::ErrUtf8
    }
}

/// Maps the names at [`FIXED_BASE`] (idempotent). `None` when the kernel does
/// not grant that address: names are then not exercised in this process.
pub fn install() -> Option<usize> {
    static P: OnceLock<Option<usize>> = OnceLock::new();
    *P.get_or_init(|| unsafe {
        let p = libc::mmap(FIXED_BASE as *mut libc::c_void, 4096, libc::PROT_READ | libc::PROT_WRITE, libc::MAP_PRIVATE | libc::MAP_ANONYMOUS | libc::MAP_FIXED_NOREPLACE, -1, 0);
        if p == libc::MAP_FAILED || p as usize != FIXED_BASE {
            return None;
        }
        std::ptr::copy_nonoverlapping(names().as_ptr(), p as *mut u8, names().len());
        libc::mprotect(p, 4096, libc::PROT_READ);
        Some(FIXED_BASE)
    })
}

/// The mapped base, if [`install`] succeeded in this process.
pub fn base() -> Option<usize> {
    install()
}

/// For an ELF-sections tag image (`tag[0..]` = type word .. declared size):
/// do all section-header slots of the tag refer to the harness-owned names -
/// `addr` is the names buffer and `sh_name` lies inside it - so that `name()`
/// of any section, through any slot as string table, stays inside that
/// buffer? Answered for the layout the crate reads (three u32 words, headers
/// at +20: `.0`) and for the layout of the specification's text (four u16
/// words, headers at +16: `.1`). Slots = as many whole headers as the
/// declared size holds.
pub fn names_mode(tag: &[u8]) -> (bool, bool) {
    let Some(base) = base() else { return (false, false) };
    if tag.len() < 20 {
        return (false, false);
    }
    let size = crate::bytes::le32(tag, 4) as usize;
    if size < 20 || size > tag.len() {
        return (false, false);
    }
    let check = |start: usize, es: usize| -> bool {
        if es != 40 && es != 64 {
            return false;
        }
        let slots = (size - start) / es;
        if slots == 0 {
            return false;
        }
        (0..slots).all(|j| {
            let at = start + j * es;
            let addr = if es == 40 { crate::bytes::le32(tag, at + 12) as u64 } else { crate::bytes::le64(tag, at + 16) };
            addr == base as u64 && (crate::bytes::le32(tag, at) as usize) < names().len()
        })
    };
    (check(20, crate::bytes::le32(tag, 12) as usize), check(16, crate::bytes::le16(tag, 10) as usize))
}
