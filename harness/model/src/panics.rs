//! Controlled panics are legal outcomes of the crates under test; panics of
//! the harness itself are bugs and must stay visible. `catch` marks the dynamic
//! extent in which a panic is expected; the hook prints only outside of it.

use std::cell::Cell;
use std::panic::{catch_unwind, AssertUnwindSafe};

thread_local! {
    static DEPTH: Cell<u32> = const { Cell::new(0) };
    /// Source location and message of the last panic outside a `catch`.
    static LAST: std::cell::RefCell<Option<(String, String)>> = const { std::cell::RefCell::new(None) };
}

/// Runs one case evaluation. A panic that escapes it from inside the crates
/// under test - in a call the check treats as infallible - is a result about
/// the library (`Err(description)`); a panic of the harness itself propagates.
pub fn guard_case<R>(f: impl FnOnce() -> R) -> Result<R, String> {
    LAST.with(|l| *l.borrow_mut() = None);
    match catch_unwind(AssertUnwindSafe(f)) {
        Ok(r) => Ok(r),
        Err(payload) => {
            let last = LAST.with(|l| l.borrow_mut().take());
            match last {
                Some((loc, msg)) if is_library_path(&loc) => Err(format!("the library panicked in a call that the check expects not to panic: {loc}: {msg}")),
                _ => std::panic::resume_unwind(payload),
            }
        }
    }
}

/// True for source files of the crates under test (path dependencies below the
/// repository root).
fn is_library_path(loc: &str) -> bool {
    ["multiboot2/src/", "multiboot2-common/src/", "multiboot2-header/src/"].iter().any(|p| loc.contains(p))
}

pub fn depth() -> u32 {
    DEPTH.with(|d| d.get())
}

/// `catch_unwind` without the `UnwindSafe` bound; a panic maps to `None`.
pub fn catch<R>(f: impl FnOnce() -> R) -> Option<R> {
    DEPTH.with(|d| d.set(d.get() + 1));
    let r = catch_unwind(AssertUnwindSafe(f)).ok();
    DEPTH.with(|d| d.set(d.get() - 1));
    r
}

/// Installs a hook that is silent for expected panics and prints harness bugs.
pub fn install_hook() {
    install_logger();
    std::panic::set_hook(Box::new(|info| {
        if depth() == 0 {
            let loc = info.location().map(|l| format!("{}:{}", l.file(), l.line())).unwrap_or_default();
            let msg = info.payload().downcast_ref::<&str>().map(|s| s.to_string()).or_else(|| info.payload().downcast_ref::<String>().cloned()).unwrap_or_default();
            let lib = is_library_path(&loc);
            LAST.with(|l| *l.borrow_mut() = Some((loc, msg.lines().next().unwrap_or("").to_string())));
            if !lib {
                eprintln!("HARNESS PANIC: {info}");
            }
        }
    }));
}

/// A `log` sink that formats every record (so that the arguments of the
/// crates' `log::debug!`/`warn!` calls are evaluated, as they are in a kernel
/// that has a logger) and throws the text away.
struct Sink;

impl log::Log for Sink {
    fn enabled(&self, _: &log::Metadata) -> bool {
        true
    }
    fn log(&self, record: &log::Record) {
        use std::fmt::Write;
        let mut s = String::new();
        let _ = write!(s, "{}", record.args());
        std::hint::black_box(&s);
    }
    fn flush(&self) {}
}

static SINK: Sink = Sink;

/// Installs the formatting sink with the most verbose level (idempotent).
pub fn install_logger() {
    let _ = log::set_logger(&SINK);
    log::set_max_level(log::LevelFilter::Trace);
}
