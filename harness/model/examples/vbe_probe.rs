use mb2_model::exercise_mbi::{exercise_mbi, MbiOpts};
fn main() {
    let hexs = std::env::args().nth(1).unwrap();
    let b = mb2_model::unhex(&hexs).unwrap();
    let a = mb2_model::Aligned::new(&b);
    mb2_model::panics::install_hook();
    let t = unsafe { exercise_mbi(a.as_ptr(), &MbiOpts { debug: false, max_steps: 1000, typed_all: true }) };
    println!("{}", t.render().lines().count());
}
