//! `/verif/known_findings.json`: genuine defects that are recorded instead of
//! repaired (`open`) and the record of repaired ones (`fixed`). Read-only at
//! run time. An `open` entry is keyed by a signature; only a failure with
//! exactly that signature is reported as KNOWN-FINDING instead of VIOLATION.

use serde_json::Value;
use std::path::Path;
use std::sync::OnceLock;

static OPEN: OnceLock<Vec<(String, String, String)>> = OnceLock::new();

pub fn load(path: &Path) {
    let mut v = Vec::new();
    if let Ok(s) = std::fs::read_to_string(path) {
        if let Ok(doc) = serde_json::from_str::<Value>(&s) {
            for f in doc["findings"].as_array().cloned().unwrap_or_default() {
                if f["status"].as_str() == Some("open") {
                    v.push((
                        f["signature"].as_str().unwrap_or("").to_string(),
                        f["property"].as_str().unwrap_or("").to_string(),
                        f["what"].as_str().unwrap_or("").to_string(),
                    ));
                }
            }
        }
    }
    let _ = OPEN.set(v);
}

/// The `what` text of the open finding with this signature, if listed.
pub fn open(signature: &str) -> Option<String> {
    OPEN.get()?.iter().find(|(s, _, _)| s == signature).map(|(_, _, w)| w.clone())
}
