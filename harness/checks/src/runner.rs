//! Engine B of DESIGN.md: proptest-driven sub-checks, counting, replay files,
//! evidence parts.

use proptest::strategy::{BoxedStrategy, Strategy};
use proptest::test_runner::{Config, RngAlgorithm, TestCaseError, TestError, TestRng, TestRunner};
use serde::de::DeserializeOwned;
use serde::Serialize;
use serde_json::{json, Value};
use std::cell::RefCell;
use std::collections::{BTreeMap, HashSet};
use std::fmt::Debug;

#[derive(Clone, Copy, Debug, PartialEq, Eq)]
pub enum Tier {
    Quick,
    Thorough,
}

pub fn profile_name() -> &'static str {
    if cfg!(debug_assertions) {
        "dev"
    } else {
        "release"
    }
}

#[derive(Clone, Debug)]
pub struct Ctx {
    pub id: String,
    pub tier: Tier,
    pub seed: u64,
    /// This worker's index and the number of workers of this profile.
    pub worker: u32,
    pub workers: u32,
    /// evaluate every case in a forked child (re-run after a worker was killed)
    pub isolate: bool,
}

impl Ctx {
    /// Cases this worker should generate for a sub-check with the given
    /// per-tier totals.
    pub fn cases(&self, quick: u32, thorough: u32) -> u32 {
        let total = match self.tier {
            Tier::Quick => quick,
            Tier::Thorough => thorough,
        };
        let share = total / self.workers;
        let extra = if self.worker < total % self.workers { 1 } else { 0 };
        share + extra
    }
    /// Is element `idx` of an enumerated space this worker's?
    pub fn mine(&self, idx: u64) -> bool {
        idx % self.workers as u64 == self.worker as u64
    }
    pub fn sub_seed(&self, sub: &str) -> [u8; 32] {
        let mut s = [0u8; 32];
        let h1 = mb2_model::fnv(format!("{}/{}/{}/{}", self.id, sub, self.seed, self.worker).as_bytes());
        let h2 = mb2_model::fnv(&h1.to_le_bytes());
        let h3 = mb2_model::fnv(&h2.to_le_bytes());
        let h4 = mb2_model::fnv(&h3.to_le_bytes());
        s[..8].copy_from_slice(&h1.to_le_bytes());
        s[8..16].copy_from_slice(&h2.to_le_bytes());
        s[16..24].copy_from_slice(&h3.to_le_bytes());
        s[24..].copy_from_slice(&h4.to_le_bytes());
        s
    }
}

#[derive(Clone, Debug, Serialize, serde::Deserialize)]
pub struct Violation {
    pub sub: String,
    pub profile: String,
    pub message: String,
    pub case: Value,
}

/// Per-case observation hooks handed to the evaluation closure.
pub struct Obs {
    pub classes: Vec<String>,
    pub nontrivial: Option<u64>,
    pub sample: Option<Value>,
    pub inconclusive: Option<String>,
    pub excluded_known: u64,
}

impl Obs {
    pub fn new() -> Self {
        Self { classes: Vec::new(), nontrivial: None, sample: None, inconclusive: None, excluded_known: 0 }
    }
    pub fn class(&mut self, c: impl Into<String>) {
        self.classes.push(c.into());
    }
    /// Marks this case non-trivial by the sub-check's stated rule; `hash`
    /// identifies the case for the distinct count.
    pub fn nontrivial(&mut self, hash: u64) {
        self.nontrivial = Some(hash);
    }
    pub fn sample(&mut self, v: Value) {
        self.sample = Some(v);
    }
    pub fn inconclusive(&mut self, why: impl Into<String>) {
        self.inconclusive = Some(why.into());
    }
}

#[derive(Debug, Default)]
pub struct SubReport {
    pub name: String,
    pub rule: String,
    pub evaluations: u64,
    pub nontrivial: HashSet<u64>,
    pub classes: BTreeMap<String, u64>,
    pub samples: Vec<Value>,
    pub exhaustive: bool,
    pub violations: Vec<Violation>,
    pub known: Vec<String>,
    pub excluded_known: u64,
    pub inconclusive: Vec<String>,
    pub notes: Vec<String>,
}

const MAX_SAMPLES: usize = 4;
const MAX_HASHES_OUT: usize = 1 << 20;

impl SubReport {
    pub fn new(name: &str, rule: &str) -> Self {
        Self { name: name.into(), rule: rule.into(), ..Default::default() }
    }
    pub fn absorb(&mut self, obs: Obs) {
        self.evaluations += 1;
        for c in obs.classes {
            *self.classes.entry(c).or_insert(0) += 1;
        }
        if let Some(h) = obs.nontrivial {
            let fresh = self.nontrivial.insert(h);
            if fresh && self.samples.len() < MAX_SAMPLES {
                if let Some(s) = obs.sample {
                    self.samples.push(s);
                }
            }
        }
        if let Some(w) = obs.inconclusive {
            if self.inconclusive.len() < 8 {
                self.inconclusive.push(w);
            }
        }
        self.excluded_known += obs.excluded_known;
    }
    pub fn to_json(&self) -> Value {
        let mut hashes: Vec<u64> = self.nontrivial.iter().copied().collect();
        hashes.sort_unstable();
        let truncated = hashes.len() > MAX_HASHES_OUT;
        hashes.truncate(MAX_HASHES_OUT);
        json!({
            "name": self.name,
            "rule": self.rule,
            "evaluations": self.evaluations,
            "distinct_nontrivial": self.nontrivial.len(),
            "nontrivial_hashes": hashes.iter().map(|h| format!("{h:016x}")).collect::<Vec<_>>().join(""),
            "hashes_truncated": truncated,
            "classes": self.classes,
            "samples": self.samples,
            "exhaustive": self.exhaustive,
            "violations": self.violations,
            "known": self.known,
            "excluded_known": self.excluded_known,
            "inconclusive": self.inconclusive,
            "notes": self.notes,
        })
    }
}

/// Which build profiles a sub-check runs in.
#[derive(Clone, Copy, Debug, PartialEq, Eq)]
pub enum Profiles {
    Both,
    ReleaseOnly,
    DevOnly,
}

impl Profiles {
    pub fn includes_current(&self) -> bool {
        match self {
            Profiles::Both => true,
            Profiles::ReleaseOnly => profile_name() == "release",
            Profiles::DevOnly => profile_name() == "dev",
        }
    }
}

pub trait Sub {
    fn name(&self) -> &str;
    fn profiles(&self) -> Profiles {
        Profiles::Both
    }
    fn run(&self, ctx: &Ctx) -> SubReport;
    /// Re-executes one saved case. `Ok` = the property held on it.
    fn replay(&self, case: &Value) -> Result<(), String>;
}

/// A sub-check whose cases come from a proptest strategy and, optionally, an
/// enumerated (bounded-exhaustive) space that is visited first.
pub struct PropSub<C: 'static> {
    pub name: &'static str,
    pub rule: &'static str,
    pub profiles: Profiles,
    pub quick: u32,
    pub thorough: u32,
    pub strategy: fn(&Ctx) -> BoxedStrategy<C>,
    pub enumerate: Option<fn(&Ctx) -> Box<dyn Iterator<Item = C>>>,
    /// The enumeration covers its stated finite space completely.
    pub enum_exhaustive: bool,
    pub eval: fn(&C, &mut Obs) -> Result<(), String>,
}

impl<C: Debug + Clone + Serialize + DeserializeOwned + 'static> Sub for PropSub<C> {
    fn name(&self) -> &str {
        self.name
    }
    fn profiles(&self) -> Profiles {
        self.profiles
    }
    fn run(&self, ctx: &Ctx) -> SubReport {
        let mut rep = SubReport::new(self.name, self.rule);
        if ctx.isolate {
            return self.run_isolated(ctx);
        }
        // 1. enumerated space
        if let Some(en) = self.enumerate {
            let mut idx = 0u64;
            for case in en(ctx) {
                let mine = ctx.mine(idx);
                idx += 1;
                if !mine {
                    continue;
                }
                let mut obs = Obs::new();
                let r = mb2_model::panics::guard_case(|| (self.eval)(&case, &mut obs)).unwrap_or_else(Err);
                rep.absorb(obs);
                if let Err(msg) = r {
                    rep.violations.push(Violation {
                        sub: self.name.into(),
                        profile: profile_name().into(),
                        message: msg,
                        case: serde_json::to_value(&case).unwrap(),
                    });
                    break;
                }
            }
            rep.exhaustive = self.enum_exhaustive && rep.violations.is_empty();
        }
        if !rep.violations.is_empty() {
            return rep;
        }
        // 2. generated cases
        let cases = ctx.cases(self.quick, self.thorough);
        if cases == 0 {
            return rep;
        }
        if self.quick > 0 || self.thorough > 0 {
            rep.exhaustive = false;
        }
        let mut config = Config::default();
        config.cases = cases;
        config.failure_persistence = None;
        config.max_shrink_iters = 4096;
        config.max_global_rejects = 1 << 20;
        config.max_local_rejects = 1 << 20;
        config.verbose = 0;
        config.max_shrink_time = 0;
        let rng = TestRng::from_seed(RngAlgorithm::ChaCha, &ctx.sub_seed(self.name));
        let mut runner = TestRunner::new_with_rng(config, rng);
        let strat = (self.strategy)(ctx);
        // (report, failed already, the last cases before and including the first
        // failure, message of the first failure)
        let cell = RefCell::new((rep, false, std::collections::VecDeque::<C>::new(), String::new()));
        let eval = self.eval;
        let result = runner.run(&strat, |case| {
            let mut obs = Obs::new();
            let r = mb2_model::panics::guard_case(|| eval(&case, &mut obs)).unwrap_or_else(Err);
            let mut g = cell.borrow_mut();
            // The closure re-runs while proptest shrinks: stop counting at the
            // first failure.
            if !g.1 {
                g.0.absorb(obs);
                if g.2.len() == 8 {
                    g.2.pop_front();
                }
                g.2.push_back(case.clone());
            }
            match r {
                Ok(()) => Ok(()),
                Err(m) => {
                    if !g.1 {
                        g.3 = m.clone();
                    }
                    g.1 = true;
                    Err(TestCaseError::fail(m))
                }
            }
        });
        let (mut rep, _, recent, first_msg) = cell.into_inner();
        match result {
            Ok(()) => {}
            Err(TestError::Fail(_reason, minimal)) => {
                // Message of the *shrunk* case.
                let mut obs = Obs::new();
                let (msg, case) = match mb2_model::panics::guard_case(|| eval(&minimal, &mut obs)).unwrap_or_else(Err) {
                    Err(m) => (m, serde_json::to_value(&minimal).unwrap()),
                    // The same case passes when it is run again on its own: the
                    // outcome depended on what was run before it. Keep the cases
                    // that led up to the first failure as the replay.
                    Ok(()) => (
                        format!("{first_msg} [this failure did not reproduce when the case was run again alone: the outcome depends on earlier calls - state kept inside the library between calls?]"),
                        json!({"__history": recent.iter().map(|c| serde_json::to_value(c).unwrap()).collect::<Vec<_>>()}),
                    ),
                };
                rep.violations.push(Violation { sub: self.name.into(), profile: profile_name().into(), message: msg, case });
            }
            Err(TestError::Abort(reason)) => {
                rep.inconclusive.push(format!("proptest aborted: {reason}"));
            }
        }
        rep
    }
    fn replay(&self, case: &Value) -> Result<(), String> {
        if case.get("__crashed").is_some() {
            // found by an isolated re-run: evaluate in a child again
            let c: C = serde_json::from_value(case["case"].clone()).map_err(|e| format!("replay file does not decode: {e}"))?;
            return match isolated_eval(self.eval, &c) {
                Ok(()) => Ok(()),
                Err(m) => Err(m),
            };
        }
        if let Some(h) = case.get("__history").and_then(|h| h.as_array()) {
            // cases that led up to an order-dependent failure: run them in order
            for c in h {
                self.replay(c)?;
            }
            return Ok(());
        }
        let c: C = serde_json::from_value(case.clone()).map_err(|e| format!("replay file does not decode: {e}"))?;
        let mut obs = Obs::new();
        let r = mb2_model::panics::guard_case(|| (self.eval)(&c, &mut obs)).unwrap_or_else(Err);
        if let Some(w) = obs.inconclusive {
            return Err(format!("INCONCLUSIVE: {w}"));
        }
        r
    }
}

/// One case in a forked child: Ok / the oracle's message / "crashed".
fn isolated_eval<C>(eval: fn(&C, &mut Obs) -> Result<(), String>, case: &C) -> Result<(), String> {
    let r = mb2_sandbox::run_child(|| {
        let mut obs = Obs::new();
        match mb2_model::panics::guard_case(|| eval(case, &mut obs)) {
            Ok(Ok(())) => b"OK".to_vec(),
            Ok(Err(m)) | Err(m) => format!("E {m}").into_bytes(),
        }
    });
    match r {
        mb2_sandbox::ChildResult::Done(b) if b == b"OK" => Ok(()),
        mb2_sandbox::ChildResult::Done(b) => Err(String::from_utf8_lossy(&b[2.min(b.len())..]).into_owned()),
        mb2_sandbox::ChildResult::Signal(sig) => Err(format!("evaluating this case kills the process ({}): the library faulted in a call that is made in-process because the property lets it at most panic", mb2_sandbox::ChildResult::signal_name(sig))),
        mb2_sandbox::ChildResult::Timeout => Err("INCONCLUSIVE: watchdog expired".into()),
        mb2_sandbox::ChildResult::Broken(c) => Err(format!("INCONCLUSIVE: child exited with {c}")),
    }
}

impl<C: Debug + Clone + Serialize + DeserializeOwned + 'static> PropSub<C> {
    /// The same cases as `run` (same enumeration, same generator and seed),
    /// each evaluated in its own forked child; stops at the first case whose
    /// child is killed or whose oracle fails. No shrinking, no evidence counters.
    fn run_isolated(&self, ctx: &Ctx) -> SubReport {
        let mut rep = SubReport::new(self.name, self.rule);
        let mut check = |rep: &mut SubReport, case: &C| -> bool {
            rep.evaluations += 1;
            match isolated_eval(self.eval, case) {
                Ok(()) => true,
                Err(m) if m.starts_with("INCONCLUSIVE") => {
                    rep.inconclusive.push(m);
                    true
                }
                Err(m) => {
                    rep.violations.push(Violation { sub: self.name.into(), profile: profile_name().into(), message: m, case: json!({"__crashed": true, "case": serde_json::to_value(case).unwrap()}) });
                    false
                }
            }
        };
        if let Some(en) = self.enumerate {
            let mut idx = 0u64;
            for case in en(ctx) {
                let mine = ctx.mine(idx);
                idx += 1;
                if mine && !check(&mut rep, &case) {
                    return rep;
                }
            }
        }
        let cases = ctx.cases(self.quick, self.thorough);
        if cases == 0 {
            return rep;
        }
        let mut config = Config::default();
        config.cases = cases;
        config.failure_persistence = None;
        config.max_shrink_iters = 0;
        config.max_global_rejects = 1 << 20;
        config.max_local_rejects = 1 << 20;
        let rng = TestRng::from_seed(RngAlgorithm::ChaCha, &ctx.sub_seed(self.name));
        let mut runner = TestRunner::new_with_rng(config, rng);
        let strat = (self.strategy)(ctx);
        let cell = RefCell::new(rep);
        let _ = runner.run(&strat, |case| {
            let mut g = cell.borrow_mut();
            if !g.violations.is_empty() {
                return Ok(());
            }
            check(&mut g, &case);
            Ok(())
        });
        cell.into_inner()
    }
}

/// A sub-check that is a plain loop (exhaustive numeric spaces).
pub struct LoopSub {
    pub name: &'static str,
    pub profiles: Profiles,
    pub run: fn(&Ctx, &mut SubReport),
    pub replay: fn(&Value) -> Result<(), String>,
    pub rule: &'static str,
}

impl Sub for LoopSub {
    fn name(&self) -> &str {
        self.name
    }
    fn profiles(&self) -> Profiles {
        self.profiles
    }
    fn run(&self, ctx: &Ctx) -> SubReport {
        let mut rep = SubReport::new(self.name, self.rule);
        (self.run)(ctx, &mut rep);
        rep
    }
    fn replay(&self, case: &Value) -> Result<(), String> {
        (self.replay)(case)
    }
}

/// Hex-encoded byte vector for replay files.
#[derive(Clone, PartialEq, Eq, Default)]
pub struct Hex(pub Vec<u8>);

impl Debug for Hex {
    fn fmt(&self, f: &mut std::fmt::Formatter<'_>) -> std::fmt::Result {
        write!(f, "Hex({})", mb2_model::hex(&self.0))
    }
}

impl Serialize for Hex {
    fn serialize<S: serde::Serializer>(&self, s: S) -> Result<S::Ok, S::Error> {
        s.serialize_str(&mb2_model::hex(&self.0))
    }
}

impl<'de> serde::Deserialize<'de> for Hex {
    fn deserialize<D: serde::Deserializer<'de>>(d: D) -> Result<Self, D::Error> {
        let s = String::deserialize(d)?;
        mb2_model::unhex(&s).map(Hex).ok_or_else(|| serde::de::Error::custom("bad hex"))
    }
}

/// Short description of a byte region for evidence samples.
pub fn sample_bytes(b: &[u8]) -> Value {
    if b.len() <= 96 {
        json!({"len": b.len(), "hex": mb2_model::hex(b)})
    } else {
        json!({"len": b.len(), "hex_head": mb2_model::hex(&b[..96])})
    }
}

pub fn boxed<S: Strategy + 'static>(s: S) -> BoxedStrategy<S::Value> {
    s.boxed()
}
