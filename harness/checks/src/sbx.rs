//! Glue between the checks and `mb2-sandbox`: one guarded mapping per process,
//! helpers that run an exercise function on guarded input in a forked child and
//! hand back its transcript.

use mb2_model::exercise_hdr::{exercise_hdr, exercise_single_hdr_tag, HdrOpts};
use mb2_model::exercise_mbi::{exercise_mbi, exercise_single_tag, MbiOpts};
use mb2_model::transcript::Transcript;
use mb2_sandbox::{run_child, ChildResult, Guarded, Placement};
use std::cell::RefCell;

pub const GUARD_CAP: usize = 2 << 20;

thread_local! {
    static GUARD: RefCell<Guarded> = RefCell::new(Guarded::new(GUARD_CAP));
}

#[derive(Debug, Clone, PartialEq, Eq)]
pub enum Boxed {
    /// The child completed and produced this transcript.
    Done(Transcript),
    /// The child died of a signal: the process under test crashed.
    Crash(String),
    /// Watchdog or harness trouble: inconclusive.
    Inconclusive(String),
}

fn classify(r: ChildResult) -> Boxed {
    match r {
        ChildResult::Done(b) => match Transcript::parse(&String::from_utf8_lossy(&b)) {
            Some(t) => Boxed::Done(t),
            None => Boxed::Inconclusive("unparsable transcript from child".into()),
        },
        ChildResult::Signal(s) => Boxed::Crash(format!("killed by {} ({s})", ChildResult::signal_name(s))),
        ChildResult::Timeout => Boxed::Inconclusive("watchdog expired".into()),
        ChildResult::Broken(c) => Boxed::Inconclusive(format!("child exited with {c} without a record")),
    }
}

/// How the region is placed relative to the guard pages.
#[derive(Clone, Copy, Debug, PartialEq, Eq, serde::Serialize, serde::Deserialize)]
pub enum Place {
    /// Region ends at the trailing guard page.
    End,
    /// Region starts right after the leading guard page.
    Start,
}

/// Places `bytes` (readable extent = `max(min, r8(len))`) and returns the
/// pointer. With `Place::End` the extent ends at the guard page.
fn place(g: &mut Guarded, bytes: &[u8], min: usize, p: Place, fill: u8) -> *mut u8 {
    match p {
        Place::End => g.place_padded(bytes, min, fill),
        Place::Start => g.place(bytes, Placement::FlushStart, fill),
    }
}

/// Loads and exercises `bytes` as a boot information inside the sandbox.
pub fn mbi(bytes: &[u8], p: Place, opts: MbiOpts) -> Boxed {
    GUARD.with(|g| {
        let mut g = g.borrow_mut();
        let ptr = place(&mut g, bytes, 8, p, 0xEE);
        classify(run_child(|| unsafe { exercise_mbi(ptr, &opts) }.render().into_bytes()))
    })
}

pub fn single_tag(img: &[u8], kind: u32, opts: MbiOpts) -> Boxed {
    GUARD.with(|g| {
        let mut g = g.borrow_mut();
        let ptr = g.place(img, Placement::FlushEnd, 0xEE);
        let len = img.len();
        classify(run_child(|| unsafe { exercise_single_tag(ptr, len, kind, &opts) }.render().into_bytes()))
    })
}

pub fn hdr(bytes: &[u8], p: Place, opts: HdrOpts) -> Boxed {
    GUARD.with(|g| {
        let mut g = g.borrow_mut();
        let ptr = place(&mut g, bytes, 16, p, 0xEE);
        classify(run_child(|| unsafe { exercise_hdr(ptr, &opts) }.render().into_bytes()))
    })
}

pub fn single_hdr_tag(img: &[u8], kind: u32, opts: HdrOpts) -> Boxed {
    GUARD.with(|g| {
        let mut g = g.borrow_mut();
        let ptr = g.place(img, Placement::FlushEnd, 0xEE);
        let len = img.len();
        classify(run_child(|| unsafe { exercise_single_hdr_tag(ptr, len, kind, &opts) }.render().into_bytes()))
    })
}

/// Runs an arbitrary closure over guarded input in a child; the closure gets
/// the pointer to the placed bytes and returns a transcript.
pub fn with_guarded(bytes: &[u8], min: usize, p: Place, f: impl FnOnce(*const u8, usize) -> Transcript) -> Boxed {
    GUARD.with(|g| {
        let mut g = g.borrow_mut();
        let ptr = place(&mut g, bytes, min, p, 0xEE);
        let len = bytes.len();
        classify(run_child(|| f(ptr, len).render().into_bytes()))
    })
}

/// Like [`with_guarded`] but the bytes are placed exactly (no rounding of the
/// extent): `len` bytes end at the guard page, pointer alignment is whatever
/// results. For APIs that take `&[u8]` of any length.
pub fn with_guarded_exact(bytes: &[u8], f: impl FnOnce(*const u8, usize) -> Transcript) -> Boxed {
    GUARD.with(|g| {
        let mut g = g.borrow_mut();
        let ptr = g.place(bytes, Placement::FlushEnd, 0xEE);
        let len = bytes.len();
        classify(run_child(|| f(ptr, len).render().into_bytes()))
    })
}

/// Addresses with a special bit pattern: multiples of 4 GiB (low word zero),
/// structures straddling the 2 GiB / 4 GiB marks, the first mappable page, a
/// high user-space address. Results must not depend on where a structure lives.
pub const SPECIAL_ADDRS: [usize; 9] = [
    0x1_0000_0000,
    0x1_0000_0000 - 8,
    0x2_0000_0000,
    0x8000_0000,
    0x8000_0000 - 16,
    0x100_0000_0000,
    0x0001_0000,
    0x7ff0_0000_0000,
    0xffff_0000,
];

/// Runs `f` in a child on `bytes` copied to `addr` (None: the kernel did not
/// grant a mapping there).
pub fn at_address(addr: usize, bytes: &[u8], f: impl FnOnce(*const u8, usize) -> Transcript) -> Option<Boxed> {
    let mut m = mb2_sandbox::FixedMap::new(addr, bytes.len().max(8))?;
    let ptr = m.put(bytes);
    let len = bytes.len();
    Some(classify(run_child(|| f(ptr, len).render().into_bytes())))
}
