//! A recording global allocator (C16): while armed it logs every alloc/dealloc
//! with pointer, size and alignment into a fixed static table. The harness
//! processes are single-threaded; the log is armed around a single call.

use std::alloc::{GlobalAlloc, Layout, System};
use std::sync::atomic::{AtomicBool, AtomicUsize, Ordering};

pub struct Tracking;

#[derive(Clone, Copy, Debug, PartialEq, Eq)]
pub struct Event {
    pub alloc: bool,
    pub ptr: usize,
    pub size: usize,
    pub align: usize,
}

const CAP: usize = 64;
static ARMED: AtomicBool = AtomicBool::new(false);
static N: AtomicUsize = AtomicUsize::new(0);
static mut LOG: [Event; CAP] = [Event { alloc: false, ptr: 0, size: 0, align: 0 }; CAP];

fn record(e: Event) {
    let i = N.fetch_add(1, Ordering::SeqCst);
    if i < CAP {
        unsafe {
            let p = std::ptr::addr_of_mut!(LOG) as *mut Event;
            p.add(i).write(e);
        }
    }
}

unsafe impl GlobalAlloc for Tracking {
    unsafe fn alloc(&self, l: Layout) -> *mut u8 {
        let p = System.alloc(l);
        if ARMED.load(Ordering::SeqCst) {
            record(Event { alloc: true, ptr: p as usize, size: l.size(), align: l.align() });
        }
        p
    }
    unsafe fn dealloc(&self, p: *mut u8, l: Layout) {
        if ARMED.load(Ordering::SeqCst) {
            record(Event { alloc: false, ptr: p as usize, size: l.size(), align: l.align() });
        }
        System.dealloc(p, l)
    }
    unsafe fn realloc(&self, p: *mut u8, l: Layout, new_size: usize) -> *mut u8 {
        if ARMED.load(Ordering::SeqCst) {
            record(Event { alloc: false, ptr: p as usize, size: l.size(), align: l.align() });
        }
        let q = System.realloc(p, l, new_size);
        if ARMED.load(Ordering::SeqCst) {
            record(Event { alloc: true, ptr: q as usize, size: new_size, align: l.align() });
        }
        q
    }
}

/// Runs `f` with the log armed and returns what it logged (and whether the log
/// overflowed).
pub fn recorded<R>(f: impl FnOnce() -> R) -> (R, Vec<Event>, bool) {
    N.store(0, Ordering::SeqCst);
    ARMED.store(true, Ordering::SeqCst);
    let r = f();
    ARMED.store(false, Ordering::SeqCst);
    let n = N.load(Ordering::SeqCst);
    let mut v = Vec::new();
    for i in 0..n.min(CAP) {
        v.push(unsafe { (std::ptr::addr_of!(LOG) as *const Event).add(i).read() });
    }
    (r, v, n > CAP)
}
