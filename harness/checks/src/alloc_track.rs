//! A recording global allocator (C16): while armed it logs every alloc/dealloc
//! with pointer, size and alignment into a fixed static table. The harness
//! processes are single-threaded; the log is armed around a single call.

use std::alloc::{GlobalAlloc, Layout, System};
use std::sync::atomic::{AtomicBool, AtomicUsize, Ordering};

pub struct Tracking;

#[derive(Clone, Copy, Debug, PartialEq, Eq)]
pub struct Event {
    pub alloc: bool,
    pub ptr: usize,
    pub size: usize,
    pub align: usize,
}

const CAP: usize = 64;
static ARMED: AtomicBool = AtomicBool::new(false);
static N: AtomicUsize = AtomicUsize::new(0);
static mut LOG: [Event; CAP] = [Event { alloc: false, ptr: 0, size: 0, align: 0 }; CAP];

fn record(e: Event) {
    let i = N.fetch_add(1, Ordering::SeqCst);
    if i < CAP {
        unsafe {
            let p = std::ptr::addr_of_mut!(LOG) as *mut Event;
            p.add(i).write(e);
        }
    }
}

/// While set, allocations requested with an alignment below 16 get *exactly*
/// that alignment and not more (the system allocator aligns everything to 16,
/// which hides a structure that was allocated with too small an alignment).
static MIN_ALIGN: AtomicBool = AtomicBool::new(false);

/// Scope guard: exact alignments while it lives.
pub struct ExactAlign(bool);

pub fn exact_align() -> ExactAlign {
    ExactAlign(MIN_ALIGN.swap(true, Ordering::SeqCst))
}

impl Drop for ExactAlign {
    fn drop(&mut self) {
        MIN_ALIGN.store(self.0, Ordering::SeqCst);
    }
}

/// user = raw + 16 + align with raw 16-aligned: aligned to `align`, not to 2 * align,
/// and recognisable at dealloc time (never 16-aligned).
unsafe fn exact_alloc(l: Layout) -> *mut u8 {
    let raw = System.alloc(Layout::from_size_align_unchecked(l.size() + 32, 16));
    if raw.is_null() {
        return raw;
    }
    raw.add(16 + l.align())
}

fn is_exact(p: *mut u8, l: Layout) -> bool {
    l.align() < 16 && (p as usize) % 16 != 0
}

unsafe fn exact_dealloc(p: *mut u8, l: Layout) {
    System.dealloc(p.sub(16 + l.align()), Layout::from_size_align_unchecked(l.size() + 32, 16));
}

unsafe impl GlobalAlloc for Tracking {
    unsafe fn alloc(&self, l: Layout) -> *mut u8 {
        let p = if l.align() < 16 && MIN_ALIGN.load(Ordering::SeqCst) { exact_alloc(l) } else { System.alloc(l) };
        if ARMED.load(Ordering::SeqCst) {
            record(Event { alloc: true, ptr: p as usize, size: l.size(), align: l.align() });
        }
        p
    }
    unsafe fn dealloc(&self, p: *mut u8, l: Layout) {
        if ARMED.load(Ordering::SeqCst) {
            record(Event { alloc: false, ptr: p as usize, size: l.size(), align: l.align() });
        }
        if is_exact(p, l) {
            exact_dealloc(p, l)
        } else {
            System.dealloc(p, l)
        }
    }
    unsafe fn realloc(&self, p: *mut u8, l: Layout, new_size: usize) -> *mut u8 {
        if ARMED.load(Ordering::SeqCst) {
            record(Event { alloc: false, ptr: p as usize, size: l.size(), align: l.align() });
        }
        let q = if is_exact(p, l) || (l.align() < 16 && MIN_ALIGN.load(Ordering::SeqCst)) {
            let nl = Layout::from_size_align_unchecked(new_size, l.align());
            let q = if MIN_ALIGN.load(Ordering::SeqCst) { exact_alloc(nl) } else { System.alloc(nl) };
            if !q.is_null() {
                std::ptr::copy_nonoverlapping(p, q, l.size().min(new_size));
                if is_exact(p, l) {
                    exact_dealloc(p, l)
                } else {
                    System.dealloc(p, l)
                }
            }
            q
        } else {
            System.realloc(p, l, new_size)
        };
        if ARMED.load(Ordering::SeqCst) {
            record(Event { alloc: true, ptr: q as usize, size: new_size, align: l.align() });
        }
        q
    }
}

/// Runs `f` with the log armed and returns what it logged (and whether the log
/// overflowed).
pub fn recorded<R>(f: impl FnOnce() -> R) -> (R, Vec<Event>, bool) {
    N.store(0, Ordering::SeqCst);
    ARMED.store(true, Ordering::SeqCst);
    let r = f();
    ARMED.store(false, Ordering::SeqCst);
    let n = N.load(Ordering::SeqCst);
    let mut v = Vec::new();
    for i in 0..n.min(CAP) {
        v.push(unsafe { (std::ptr::addr_of!(LOG) as *const Event).add(i).read() });
    }
    (r, v, n > CAP)
}
