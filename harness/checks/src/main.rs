//! `mb2-check`: coordinator / worker / replay entry point. See DESIGN.md §2.

mod alloc_track;
mod checks;
mod gen;
mod known;
mod runner;
mod sbx;

use runner::*;

#[global_allocator]
static GLOBAL: alloc_track::Tracking = alloc_track::Tracking;
use serde_json::{json, Value};
use std::collections::{BTreeMap, HashSet};
use std::io::Write;
use std::path::{Path, PathBuf};
use std::process::{Command, Stdio};
use std::time::Instant;

struct Args {
    id: String,
    tier: Tier,
    seed: u64,
    dev_bin: Option<PathBuf>,
    workers: Option<u32>,
    worker: Option<(u32, u32)>,
    replay: Option<PathBuf>,
    replay_one: Option<PathBuf>,
    verif: PathBuf,
    only_sub: Option<String>,
    no_dev: bool,
    /// worker mode: evaluate every case in a forked child (second attempt after a
    /// worker died of a signal: finds the case that kills the process)
    isolate: bool,
}

fn parse_args() -> Args {
    let mut a = Args {
        id: String::new(),
        tier: match std::env::var("VERIF_TIER").as_deref() {
            Ok("thorough") => Tier::Thorough,
            _ => Tier::Quick,
        },
        seed: std::env::var("VERIF_SEED").ok().and_then(|s| s.parse().ok()).unwrap_or(0),
        dev_bin: None,
        workers: None,
        worker: None,
        replay: None,
        replay_one: None,
        verif: PathBuf::from(std::env::var("VERIF_DIR").unwrap_or_else(|_| "/verif".into())),
        only_sub: None,
        no_dev: false,
        isolate: false,
    };
    let mut it = std::env::args().skip(1);
    while let Some(x) = it.next() {
        match x.as_str() {
            "--tier" => {
                a.tier = match it.next().as_deref() {
                    Some("thorough") => Tier::Thorough,
                    _ => Tier::Quick,
                }
            }
            "--seed" => a.seed = it.next().and_then(|s| s.parse().ok()).unwrap_or(0),
            "--dev-bin" => a.dev_bin = it.next().map(PathBuf::from),
            "--workers" => a.workers = it.next().and_then(|s| s.parse().ok()),
            "--worker" => {
                let s = it.next().unwrap_or_default();
                let (k, n) = s.split_once('/').expect("--worker k/N");
                a.worker = Some((k.parse().unwrap(), n.parse().unwrap()));
            }
            "--replay" => a.replay = it.next().map(PathBuf::from),
            "--replay-one" => a.replay_one = it.next().map(PathBuf::from),
            "--verif" => a.verif = PathBuf::from(it.next().unwrap()),
            "--sub" => a.only_sub = it.next(),
            "--no-dev" => a.no_dev = true,
            "--isolate" => a.isolate = true,
            s if !s.starts_with('-') && a.id.is_empty() => a.id = s.to_string(),
            s => {
                eprintln!("unknown argument {s}");
                std::process::exit(2);
            }
        }
    }
    if a.id.is_empty() {
        eprintln!("usage: mb2-check <Cxx> [--tier quick|thorough] [--seed N] [--replay file]");
        std::process::exit(2);
    }
    a
}

fn main() {
    let args = parse_args();
    mb2_model::panics::install_hook();
    known::load(&args.verif.join("known_findings.json"));
    if args.worker.is_some() || args.replay_one.is_some() {
        // use the library once on a fixed decoy before any case (see model::warm)
        let _ = mb2_model::panics::catch(mb2_model::warm::warmup);
    }
    if let Some(p) = &args.replay_one {
        std::process::exit(replay_one(&args, p));
    }
    if let Some((k, n)) = args.worker {
        worker(&args, k, n);
        return;
    }
    if let Some(p) = &args.replay {
        std::process::exit(replay_coord(&args, p, true));
    }
    std::process::exit(coordinator(&args));
}

// ---------------------------------------------------------------------------
// worker

fn worker(args: &Args, k: u32, n: u32) {
    let ctx = Ctx { id: args.id.clone(), tier: args.tier, seed: args.seed, worker: k, workers: n, isolate: args.isolate };
    let subs = checks::subs(&args.id);
    let mut out = Vec::new();
    for s in subs {
        if !s.profiles().includes_current() {
            continue;
        }
        if let Some(only) = &args.only_sub {
            if s.name() != only {
                continue;
            }
        }
        let t0 = Instant::now();
        let rep = s.run(&ctx);
        let mut j = rep.to_json();
        j["wall_s"] = json!(t0.elapsed().as_secs_f64());
        out.push(j);
    }
    let doc = json!({"profile": profile_name(), "worker": k, "subs": out});
    let stdout = std::io::stdout();
    let mut l = stdout.lock();
    let _ = writeln!(l, "{}", serde_json::to_string(&doc).unwrap());
}

// ---------------------------------------------------------------------------
// replay

fn replay_one(args: &Args, path: &Path) -> i32 {
    let doc: Value = match std::fs::read_to_string(path).ok().and_then(|s| serde_json::from_str(&s).ok()) {
        Some(v) => v,
        None => {
            eprintln!("cannot read replay file {}", path.display());
            return 2;
        }
    };
    let sub = doc["sub"].as_str().unwrap_or("");
    for s in checks::subs(&args.id) {
        if s.name() == sub {
            return match s.replay(&doc["case"]) {
                Ok(()) => 0,
                Err(m) if m.starts_with("INCONCLUSIVE") => {
                    eprintln!("{m}");
                    2
                }
                Err(m) => {
                    println!("replay [{}] {} {}: {}", profile_name(), args.id, sub, m);
                    1
                }
            };
        }
    }
    eprintln!("replay file names unknown sub-check {sub:?} of {}", args.id);
    2
}

/// Replays `path` in the profile(s) it names. Returns the exit code; prints the
/// VIOLATION line when `announce`.
fn replay_coord(args: &Args, path: &Path, announce: bool) -> i32 {
    let doc: Value = match std::fs::read_to_string(path).ok().and_then(|s| serde_json::from_str(&s).ok()) {
        Some(v) => v,
        None => {
            eprintln!("cannot read replay file {}", path.display());
            return 2;
        }
    };
    let prof = doc["profile"].as_str().unwrap_or("both").to_string();
    let mut bins: Vec<PathBuf> = Vec::new();
    let me = std::env::current_exe().unwrap();
    if prof == "release" || prof == "both" {
        bins.push(me.clone());
    }
    if prof == "dev" || prof == "both" {
        if let Some(d) = &args.dev_bin {
            bins.push(d.clone());
        } else if prof == "dev" {
            bins.push(me.clone());
        }
    }
    let mut code = 0;
    for b in bins {
        let st = Command::new(&b)
            .arg(&args.id)
            .arg("--replay-one")
            .arg(path)
            .arg("--verif")
            .arg(&args.verif)
            .status();
        match st {
            Ok(s) => match s.code() {
                Some(0) => {}
                Some(1) => code = 1,
                _ => {
                    if code == 0 {
                        code = 2
                    }
                }
            },
            Err(_) => {
                if code == 0 {
                    code = 2
                }
            }
        }
    }
    if code == 1 && announce {
        println!("VIOLATION property={} replay={}", args.id, path.display());
    }
    code
}

// ---------------------------------------------------------------------------
// coordinator

struct Merged {
    rule: String,
    evaluations: u64,
    hashes: HashSet<u64>,
    truncated: bool,
    per_profile: BTreeMap<String, Value>,
    classes: BTreeMap<String, u64>,
    samples: Vec<Value>,
    exhaustive: Option<bool>,
    violations: Vec<Violation>,
    known: Vec<String>,
    excluded_known: u64,
    inconclusive: Vec<String>,
    notes: Vec<String>,
    wall_s: f64,
}

fn coordinator(args: &Args) -> i32 {
    let t0 = Instant::now();
    let me = std::env::current_exe().unwrap();
    if checks::subs(&args.id).is_empty() {
        eprintln!("no such check: {}", args.id);
        return 2;
    }
    let workers = args.workers.unwrap_or(match args.tier {
        Tier::Quick => 6,
        Tier::Thorough => 8,
    });
    let mut exit_inconclusive: Vec<String> = Vec::new();
    let mut violation_lines: Vec<String> = Vec::new();

    // 1. regression tier: committed replay files of this property
    let mut replayed = 0;
    let rdir = args.verif.join("replays");
    if let Ok(rd) = std::fs::read_dir(&rdir) {
        let mut files: Vec<PathBuf> = rd
            .filter_map(|e| e.ok().map(|e| e.path()))
            .filter(|p| {
                p.file_name()
                    .and_then(|n| n.to_str())
                    .map(|n| n.starts_with(&format!("{}-", args.id)) && n.ends_with(".json"))
                    .unwrap_or(false)
            })
            .collect();
        files.sort();
        for f in files {
            replayed += 1;
            match replay_coord(args, &f, false) {
                0 => {}
                1 => violation_lines.push(format!("VIOLATION property={} replay={}", args.id, f.display())),
                _ => exit_inconclusive.push(format!("replay of {} inconclusive", f.display())),
            }
        }
    }

    // 2. generated tier: workers of both profiles, concurrently
    let mut bins: Vec<(String, PathBuf)> = vec![("release".into(), me.clone())];
    if !args.no_dev {
        if let Some(d) = &args.dev_bin {
            bins.push(("dev".into(), d.clone()));
        }
    }
    if profile_name() == "dev" {
        // coordinator itself is a dev build (developer convenience)
        bins = vec![("dev".into(), me.clone())];
    }
    let mut children = Vec::new();
    for (pname, bin) in &bins {
        for k in 0..workers {
            let mut c = Command::new(bin);
            c.arg(&args.id)
                .arg("--tier")
                .arg(match args.tier {
                    Tier::Quick => "quick",
                    Tier::Thorough => "thorough",
                })
                .arg("--seed")
                .arg(args.seed.to_string())
                .arg("--worker")
                .arg(format!("{k}/{workers}"))
                .arg("--verif")
                .arg(&args.verif)
                .stdout(Stdio::piped())
                .stderr(Stdio::inherit());
            if let Some(s) = &args.only_sub {
                c.arg("--sub").arg(s);
            }
            match c.spawn() {
                Ok(ch) => children.push((pname.clone(), k, ch)),
                Err(e) => exit_inconclusive.push(format!("cannot start worker {pname}/{k}: {e}")),
            }
        }
    }
    let mut merged: BTreeMap<String, Merged> = BTreeMap::new();
    let mut order: Vec<String> = Vec::new();
    for (pname, k, ch) in children {
        let out = match ch.wait_with_output() {
            Ok(o) => o,
            Err(e) => {
                exit_inconclusive.push(format!("worker {pname}/{k}: {e}"));
                continue;
            }
        };
        let out = if !out.status.success() {
            use std::os::unix::process::ExitStatusExt;
            if out.status.signal().is_none() {
                exit_inconclusive.push(format!("worker {pname}/{k} ended with {:?} (harness failure, not a verdict)", out.status));
                continue;
            }
            // The worker process was killed by a signal while evaluating some case
            // in-process. Run its share again with every case in a forked child: if
            // a case kills its child, that case is the finding; otherwise the death
            // stays unexplained (inconclusive).
            eprintln!("worker {pname}/{k} was killed by signal {:?}: re-running its share with one child process per case", out.status.signal());
            let bin = bins.iter().find(|(p, _)| *p == pname).map(|(_, b)| b.clone()).unwrap_or_else(|| me.clone());
            let mut c = Command::new(bin);
            c.arg(&args.id)
                .arg("--tier")
                .arg(match args.tier {
                    Tier::Quick => "quick",
                    Tier::Thorough => "thorough",
                })
                .arg("--seed")
                .arg(args.seed.to_string())
                .arg("--worker")
                .arg(format!("{k}/{workers}"))
                .arg("--verif")
                .arg(&args.verif)
                .arg("--isolate")
                .stdout(Stdio::piped())
                .stderr(Stdio::inherit());
            if let Some(s) = &args.only_sub {
                c.arg("--sub").arg(s);
            }
            match c.output() {
                Ok(o) if o.status.success() => {
                    let has_violation = serde_json::from_slice::<Value>(&o.stdout).ok().map_or(false, |d| d["subs"].as_array().map_or(false, |a| a.iter().any(|s| s["violations"].as_array().map_or(false, |v| !v.is_empty()))));
                    if !has_violation {
                        exit_inconclusive.push(format!("worker {pname}/{k} was killed by a signal, the isolated re-run found no case that does it (not a verdict)"));
                    }
                    o
                }
                _ => {
                    exit_inconclusive.push(format!("worker {pname}/{k} ended with {:?}, and so did its isolated re-run (harness failure, not a verdict)", out.status));
                    continue;
                }
            }
        } else {
            out
        };
        let doc: Value = match serde_json::from_slice(&out.stdout) {
            Ok(v) => v,
            Err(e) => {
                exit_inconclusive.push(format!("worker {pname}/{k}: unparsable report: {e}"));
                continue;
            }
        };
        for s in doc["subs"].as_array().cloned().unwrap_or_default() {
            let name = s["name"].as_str().unwrap_or("?").to_string();
            if !merged.contains_key(&name) {
                order.push(name.clone());
            }
            let m = merged.entry(name.clone()).or_insert_with(|| Merged {
                rule: s["rule"].as_str().unwrap_or("").to_string(),
                evaluations: 0,
                hashes: HashSet::new(),
                truncated: false,
                per_profile: BTreeMap::new(),
                classes: BTreeMap::new(),
                samples: Vec::new(),
                exhaustive: None,
                violations: Vec::new(),
                known: Vec::new(),
                excluded_known: 0,
                inconclusive: Vec::new(),
                notes: Vec::new(),
                wall_s: 0.0,
            });
            let ev = s["evaluations"].as_u64().unwrap_or(0);
            m.evaluations += ev;
            let hs = s["nontrivial_hashes"].as_str().unwrap_or("");
            for c in hs.as_bytes().chunks(16) {
                if let Ok(h) = u64::from_str_radix(std::str::from_utf8(c).unwrap_or("0"), 16) {
                    m.hashes.insert(h);
                }
            }
            m.truncated |= s["hashes_truncated"].as_bool().unwrap_or(false);
            let pp = m.per_profile.entry(pname.clone()).or_insert_with(|| json!({"evaluations": 0u64, "workers": 0u64}));
            pp["evaluations"] = json!(pp["evaluations"].as_u64().unwrap_or(0) + ev);
            pp["workers"] = json!(pp["workers"].as_u64().unwrap_or(0) + 1);
            if let Some(cl) = s["classes"].as_object() {
                for (c, n) in cl {
                    *m.classes.entry(c.clone()).or_insert(0) += n.as_u64().unwrap_or(0);
                }
            }
            if m.samples.len() < 4 {
                for x in s["samples"].as_array().cloned().unwrap_or_default() {
                    if m.samples.len() < 4 {
                        m.samples.push(x);
                    }
                }
            }
            let ex = s["exhaustive"].as_bool().unwrap_or(false);
            m.exhaustive = Some(m.exhaustive.unwrap_or(true) && ex);
            for v in s["violations"].as_array().cloned().unwrap_or_default() {
                if let Ok(v) = serde_json::from_value::<Violation>(v) {
                    m.violations.push(v);
                }
            }
            for v in s["known"].as_array().cloned().unwrap_or_default() {
                let t = v.as_str().unwrap_or("").to_string();
                if !m.known.contains(&t) {
                    m.known.push(t);
                }
            }
            m.excluded_known += s["excluded_known"].as_u64().unwrap_or(0);
            for v in s["inconclusive"].as_array().cloned().unwrap_or_default() {
                m.inconclusive.push(format!("[{pname}] {}", v.as_str().unwrap_or("")));
            }
            for v in s["notes"].as_array().cloned().unwrap_or_default() {
                let t = v.as_str().unwrap_or("").to_string();
                if !m.notes.contains(&t) {
                    m.notes.push(t);
                }
            }
            m.wall_s = m.wall_s.max(s["wall_s"].as_f64().unwrap_or(0.0));
        }
    }

    // 3. violations → replay files, lines
    let vdir = args.verif.join("out").join("violations");
    let _ = std::fs::create_dir_all(&vdir);
    let mut n_viol = violation_lines.len();
    let mut seen_sig: HashSet<String> = HashSet::new();
    for name in &order {
        let m = &merged[name];
        for v in &m.violations {
            // one replay file per (sub, profile, case)
            let body = json!({
                "property": args.id,
                "sub": v.sub,
                "profile": v.profile,
                "message": v.message,
                "case": v.case,
            });
            let text = serde_json::to_string_pretty(&body).unwrap();
            let h = mb2_model::fnv(serde_json::to_string(&json!([v.sub, v.profile, v.case])).unwrap().as_bytes());
            // one report per distinct (sub, profile, message): the workers usually
            // shrink to the same root cause
            if !seen_sig.insert(format!("{}/{}/{}", v.sub, v.profile, v.message)) {
                continue;
            }
            let path = vdir.join(format!("{}-{}-{}-{:08x}.json", args.id, v.sub, v.profile, h as u32));
            let _ = std::fs::write(&path, text);
            // (long messages - e.g. a text of a megabyte - are cut here; the replay
            // file has the whole case)
            let msg: String = if v.message.chars().count() > 1200 { v.message.chars().take(1200).chain(" ...".chars()).collect() } else { v.message.clone() };
            eprintln!("[{}] {} / {} ({}): {}", args.id, v.sub, v.profile, path.display(), msg);
            violation_lines.push(format!("VIOLATION property={} replay={}", args.id, path.display()));
            n_viol += 1;
        }
        for k in &m.known {
            println!("KNOWN-FINDING: property={} {}", args.id, k);
        }
        for i in &m.inconclusive {
            exit_inconclusive.push(format!("{name}: {i}"));
        }
    }

    // 4. evidence
    let mut total_eval = 0u64;
    let mut total_nt = 0u64;
    let mut samples: Vec<Value> = Vec::new();
    let mut sub_json = serde_json::Map::new();
    let mut rules = Vec::new();
    let mut warnings: Vec<String> = Vec::new();
    let mut all_exhaustive = !order.is_empty();
    let mut excluded_known = 0u64;
    for name in &order {
        let m = &merged[name];
        total_eval += m.evaluations;
        total_nt += m.hashes.len() as u64;
        excluded_known += m.excluded_known;
        for s in &m.samples {
            if samples.len() < 8 {
                samples.push(json!({"sub_check": name, "case": s}));
            }
        }
        rules.push(format!("[{name}] {}", m.rule));
        let ex = m.exhaustive.unwrap_or(false);
        all_exhaustive &= ex;
        // generator health: an interesting class that is (almost) never hit
        for (c, n) in &m.classes {
            if c.starts_with('!') && m.evaluations > 200 && (*n as f64) < 0.01 * m.evaluations as f64 {
                warnings.push(format!("{name}: class {c} has only {n} of {} cases", m.evaluations));
            }
        }
        sub_json.insert(
            name.clone(),
            json!({
                "evaluations": m.evaluations,
                "distinct_nontrivial": m.hashes.len(),
                "distinct_is_lower_bound": m.truncated,
                "per_profile": m.per_profile,
                "classes": m.classes,
                "exhaustive": ex,
                "violations": m.violations.len(),
                "excluded_known": m.excluded_known,
                "notes": m.notes,
                "max_worker_wall_s": m.wall_s,
            }),
        );
    }
    let meta = checks::meta(&args.id);
    let mut coverage = json!({
        "evaluations": total_eval,
        "distinct_nontrivial": total_nt,
        "rule": rules.join(" | "),
        "samples": samples,
        "sub_checks": Value::Object(sub_json),
        "replayed_regression_files": replayed,
        "excluded_known": excluded_known,
        "class_warnings": warnings,
        "profiles": bins.iter().map(|(p, _)| p.clone()).collect::<Vec<_>>(),
        "workers_per_profile": workers,
        "inconclusive": exit_inconclusive,
    });
    if all_exhaustive {
        coverage["exhaustive"] = json!(true);
    }
    let evidence = json!({
        "property_id": args.id,
        "tier": match args.tier { Tier::Quick => "quick", Tier::Thorough => "thorough" },
        "seed": args.seed,
        "level": "exploration",
        "coverage": coverage,
        "assumptions": meta.assumptions,
        "wall_s": t0.elapsed().as_secs_f64(),
        "violations": n_viol,
    });
    let edir = args.verif.join("evidence");
    let _ = std::fs::create_dir_all(&edir);
    if args.only_sub.is_none() {
        let _ = std::fs::write(edir.join(format!("{}.json", args.id)), serde_json::to_string_pretty(&evidence).unwrap());
    }

    for l in &violation_lines {
        println!("{l}");
    }
    println!(
        "{}: tier={:?} seed={} evaluations={} distinct_nontrivial={} violations={} wall={:.1}s",
        args.id,
        args.tier,
        args.seed,
        total_eval,
        total_nt,
        n_viol,
        t0.elapsed().as_secs_f64()
    );
    if n_viol > 0 {
        return 1;
    }
    if !exit_inconclusive.is_empty() {
        for i in &exit_inconclusive {
            eprintln!("INCONCLUSIVE: {i}");
        }
        return 2;
    }
    0
}
