//! proptest strategies. Every random choice of a run is made here (or in a
//! check's own strategy), so a run is a pure function of (tree, seed, tier).
//!
//! The adversarial generators work by construction: a region is a list of
//! conformant tag images (from the independent encoder) to which field
//! "tweaks" are applied - the size word, the per-kind counts / strides /
//! indices, the terminators - so that most regions still load and the walk
//! reaches the interesting code instead of dying in input validation.

use mb2_model::encode::*;
use mb2_model::walk::*;
use mb2_model::*;
use proptest::prelude::*;

/// Monotone index map (shrinks towards 0), as recommended instead of `%`.
pub fn pick(i: u16, len: usize) -> usize {
    ((i as usize) * len) >> 16
}

#[derive(Clone, Debug)]
pub struct TagSpec {
    /// Type word of the tag.
    pub kind: u32,
    /// Variable-part steering (string length, entry count …).
    pub n: u16,
    pub sel: u32,
    pub key: u64,
    /// (field selector, value-choice, random word)
    pub tweaks: Vec<(u16, u8, u32)>,
    /// Random bytes appended to the image (counted in the size word unless a
    /// tweak changes it).
    pub extra: Vec<u8>,
}

/// Fields worth tampering with, per kind: (offset in tag, width in bytes).
/// Offset 4 (the size word) is implicit for every kind.
fn interesting_fields(kind: u32, img_len: usize) -> Vec<(usize, usize)> {
    let mut v = interesting_fields_once(kind, img_len);
    // the size word is field 0; weight the kind-specific fields 2:1 against it
    if v.len() > 1 {
        let extra: Vec<(usize, usize)> = v[1..].to_vec();
        v.extend(extra);
    }
    v
}

fn interesting_fields_once(kind: u32, img_len: usize) -> Vec<(usize, usize)> {
    let mut v = vec![(4usize, 4usize)];
    match kind {
        1 | 2 | 3 => {
            if img_len > 8 {
                v.push((img_len - 1, 1)); // the terminating NUL
            }
            if kind == 3 {
                v.push((8, 4));
                v.push((12, 4));
            }
        }
        6 => {
            v.push((8, 4));
            v.push((12, 4));
        }
        7 => v.push((555, 1)),
        8 => {
            v.push((29, 1));
            v.push((32, 2));
            v.push((32, 2));
        }
        9 => {
            v.push((8, 4));
            v.push((8, 4));
            v.push((12, 4));
            v.push((16, 4));
            v.push((16, 4));
            v.push((24, 4)); // type word of entry 0
        }
        15 => {
            v.push((28, 4));
            v.push((28, 4));
        }
        17 => {
            v.push((8, 4));
            v.push((8, 4));
            v.push((12, 4));
        }
        _ => {}
    }
    v.retain(|(o, w)| o + w <= img_len);
    v
}

fn choose_value(cur: u64, width: usize, choice: u8, r: u32, len_hint: u64) -> u64 {
    let mask = if width >= 8 { u64::MAX } else { (1u64 << (8 * width)) - 1 };
    // Values at which a product with a typical element size (3, 24, 40, 64)
    // wraps around the field's width: count * elem overflows to something small.
    const WRAP16: [u64; 6] = [0x5556, 0x5557, 0xAAAB, 0xAAAC, 0x0AAB, 0x0667];
    const WRAP32: [u64; 10] = [0x5555_5556, 0xAAAA_AAAB, 0x0AAA_AAAB, 0x0666_6667, 0x0400_0000, 0x0400_0001, 0x0CCC_CCCD, 0x8000_0001, 0x1000_0000, 0x0800_0000];
    if (224..232).contains(&choice) && width >= 2 {
        // reserved section indices of ELF and their neighbours (ordinary numbers here)
        return [0xffffu64, 0xfff1, 0xfff2, 0xff00, 0xfffe, 0x1_0000, 0xff1f, 0xffff][(choice - 224) as usize] & mask;
    }
    if choice >= 232 {
        let mask = if width >= 8 { u64::MAX } else { (1u64 << (8 * width)) - 1 };
        let v = if width <= 2 { WRAP16[(r as usize) % WRAP16.len()] } else { WRAP32[(r as usize) % WRAP32.len()] };
        return v & mask;
    }
    let v = match choice % 24 {
        0 => 0,
        1 => 1,
        2 => cur.wrapping_sub(1),
        3 => cur.wrapping_add(1),
        4 => cur.wrapping_add(8),
        5 => cur.wrapping_sub(8),
        6 => 7,
        7 => 8,
        8 => 39,
        9 => 40,
        10 => 41,
        11 => 64,
        12 => len_hint,
        13 => len_hint.wrapping_add(1),
        14 => len_hint.wrapping_sub(1),
        15 => u64::MAX,
        16 => 1 << 31,
        17 => 1 << 20,
        18 => 1 << 16,
        19 => 36,
        20 => 24,
        21 => (r % 256) as u64,
        22 => (r % 4096) as u64,
        _ => r as u64,
    };
    v & mask
}

fn fixed_part(kind: u32) -> usize {
    mb2_model::expect_mbi::dst_fixed_elem(kind).map(|(f, _)| f).unwrap_or(8)
}

/// Builds the (unpadded) image of one adversarial tag.
pub fn build_tag(s: &TagSpec) -> Vec<u8> {
    let mut img = conformant_tag(s.kind, s.key, s.n as usize, s.sel);
    if !s.extra.is_empty() {
        img.extend_from_slice(&s.extra);
        let l = img.len() as u32;
        put32(&mut img, 4, l);
    }
    for (fsel, choice, r) in &s.tweaks {
        // recomputed each round: a size tweak may have resized the image
        let fields = interesting_fields(s.kind, img.len());
        let (off, width) = fields[pick(*fsel, fields.len())];
        let cur = match width {
            1 => img[off] as u64,
            2 => le16(&img, off) as u64,
            _ => le32(&img, off) as u64,
        };
        let hint = if off == 4 { img.len() as u64 } else { (img.len() - fixed_part(s.kind).min(img.len())) as u64 };
        let v = choose_value(cur, width, *choice, *r, hint);
        match width {
            1 => img[off] = v as u8,
            2 => put16(&mut img, off, v as u16),
            _ => put32(&mut img, off, v as u32),
        }
        // Keep the walk in step most of the time: when the size word was
        // changed to something moderate, give the image that physical length
        // (cut it, or extend it with marker bytes), so that the following tags
        // are still reached while this tag's size disagrees with its contents.
        if off == 4 && (r >> 8) & 3 != 0 {
            let s2 = le32(&img, 4) as usize;
            if (8..=4096).contains(&s2) && s2 != img.len() {
                let old = img.len();
                img.resize(s2, 0);
                for i in old..s2 {
                    img[i] = marker(s.key, i);
                }
            }
        }
    }
    img
}

#[derive(Clone, Debug, PartialEq, Eq)]
pub enum EndPolicy {
    Valid,
    Missing,
    BadSize(u32),
    BadType(u32),
}

#[derive(Clone, Debug, PartialEq, Eq)]
pub enum TsTweak {
    None,
    /// total size word reduced by k (1..=7): not a multiple of 8 any more
    Minus(u8),
    /// total size word reduced by 8·k: the region ends early
    Shorter(u8),
    /// a tiny total size
    Tiny(u8),
}

#[derive(Clone, Debug)]
pub struct MbiSpec {
    pub tags: Vec<TagSpec>,
    pub end: EndPolicy,
    pub pad: u8,
    pub reserved: u32,
    pub ts: TsTweak,
}

/// Region bytes. The length is always `max(8, r8(total size word))`, i.e. the
/// memory is valid for exactly what the first word declares, rounded up.
pub fn build_mbi(spec: &MbiSpec) -> Vec<u8> {
    let imgs: Vec<Vec<u8>> = spec.tags.iter().map(build_tag).collect();
    let mut v = mbi(&imgs, spec.reserved, spec.pad, false);
    match &spec.end {
        EndPolicy::Valid => v.extend_from_slice(&END_TAG),
        EndPolicy::Missing => {}
        EndPolicy::BadSize(s) => {
            v.extend_from_slice(&0u32.to_le_bytes());
            v.extend_from_slice(&s.to_le_bytes());
        }
        EndPolicy::BadType(t) => {
            v.extend_from_slice(&t.to_le_bytes());
            v.extend_from_slice(&8u32.to_le_bytes());
        }
    }
    let len = v.len() as u32;
    let ts = match spec.ts {
        TsTweak::None => len,
        TsTweak::Minus(k) => len.saturating_sub(k as u32),
        TsTweak::Shorter(k) => len.saturating_sub(8 * k as u32).max(8),
        TsTweak::Tiny(k) => k as u32,
    };
    put32(&mut v, 0, ts);
    v.truncate(r8(ts as usize).max(8));
    while v.len() < r8(ts as usize).max(8) {
        v.push(spec.pad);
    }
    v
}

/// D16 (open known finding): reduce the VBE memory-model byte of every type-7
/// tag the reference walk reaches to a defined value. Returns the number of
/// bytes changed.
pub fn exclude_vbe_memory_model(region: &mut [u8]) -> u64 {
    if region.len() < 8 {
        return 0;
    }
    let ts = le32(region, 0) as usize;
    if ts < 8 || ts % 8 != 0 || ts > region.len() {
        return 0;
    }
    let w = walk_mbi(region);
    let mut n = 0;
    for it in &w.items {
        if it.typ == 7 && r8(it.size as usize) == 784 {
            let at = it.off + 555;
            if region[at] > 7 {
                region[at] %= 8;
                n += 1;
            }
        }
    }
    n
}

pub fn kind_strategy() -> impl Strategy<Value = u32> {
    prop_oneof![
        20 => 0u32..=21,
        2 => 22u32..=40,
        1 => any::<u32>(),
        // custom types that look like a specified one in their lower half-word / byte
        1 => (0u32..=21, 1u32..=0xFFFF).prop_map(|(k, h)| k | h << 16),
        1 => (0u32..=21, 1u32..=0xFF_FFFF).prop_map(|(k, h)| k | h << 8),
        // type words that mean something elsewhere: both magics (also byte-swapped),
        // all-ones, the high bit, an ASCII signature
        1 => proptest::sample::select(vec![0xE852_50D6u32, 0x36D7_6289, 0xD650_52E8, 0x8962_D736, 0xFFFF_FFFF, 0x8000_0000, 0x2044_5352, 0x464C_457F]),
    ]
}

pub fn tag_spec(max_tweaks: usize) -> impl Strategy<Value = TagSpec> {
    (
        kind_strategy(),
        prop_oneof![6 => 0u16..6, 2 => 6u16..40, 1 => 40u16..300],
        any::<u32>(),
        any::<u64>(),
        prop_oneof![
            4 => Just(Vec::new()),
            4 => proptest::collection::vec((any::<u16>(), any::<u8>(), any::<u32>()), 1..=1),
            2 => proptest::collection::vec((any::<u16>(), any::<u8>(), any::<u32>()), 0..=max_tweaks.max(1)),
        ],
        prop_oneof![8 => Just(Vec::new()), 2 => proptest::collection::vec(any::<u8>(), 1..24)],
    )
        .prop_map(|(kind, n, mut sel, key, tweaks, extra)| {
            // framebuffer: the three defined type bytes in 3 of 4 cases (the
            // unknown ones have no colour-info logic to attack)
            if kind == 8 && (sel >> 8) & 3 != 0 {
                sel = (sel & !0xff) | ((sel & 0xff) % 3);
            }
            TagSpec { kind, n, sel, key, tweaks, extra }
        })
}

pub fn mbi_spec(max_tags: usize, max_tweaks: usize) -> impl Strategy<Value = MbiSpec> {
    (
        proptest::collection::vec(tag_spec(max_tweaks), 0..=max_tags),
        prop_oneof![
            18 => Just(EndPolicy::Valid),
            1 => Just(EndPolicy::Missing),
            1 => any::<u32>().prop_map(EndPolicy::BadSize),
            1 => any::<u32>().prop_map(EndPolicy::BadType),
        ],
        prop_oneof![Just(0u8), Just(0x5Au8)],
        prop_oneof![3 => Just(0u32), 1 => any::<u32>()],
        prop_oneof![
            30 => Just(TsTweak::None),
            1 => (1u8..8).prop_map(TsTweak::Minus),
            1 => (1u8..4).prop_map(TsTweak::Shorter),
            1 => (0u8..24).prop_map(TsTweak::Tiny),
        ],
    )
        .prop_map(|(mut tags, end, pad, reserved, ts)| {
            // tags whose presence changes how another kind is served: an EFI memory
            // map (17) is withheld while a boot-services tag (18) is present - put
            // one beside every second map, before or behind it
            if let Some(i) = tags.iter().position(|t| t.kind == 17) {
                let k = tags[i].key;
                if k & 0x100 != 0 && !tags.iter().any(|t| t.kind == 18) {
                    let at = if k & 0x200 != 0 { 0 } else { tags.len() };
                    tags.insert(at, TagSpec { kind: 18, n: 0, sel: 0, key: k, tweaks: Vec::new(), extra: Vec::new() });
                }
            }
            MbiSpec { tags, end, pad, reserved, ts }
        })
}

// ---------------------------------------------------------------------------
// conformant regions (C04, C11)

#[derive(Clone, Debug)]
pub struct ConfTag {
    pub kind: u32,
    pub n: u16,
    pub sel: u32,
    pub key: u64,
}

pub fn conf_tag() -> impl Strategy<Value = ConfTag> {
    (1u32..=21, prop_oneof![8 => 0u16..5, 2 => 5u16..30, 1 => 30u16..200], any::<u32>(), any::<u64>())
        .prop_map(|(kind, n, mut sel, key)| {
            // framebuffer: every second tag carries one of the three defined type
            // bytes (the other half is uniform over all 256 values)
            if kind == 8 && (sel >> 8) & 1 == 1 {
                sel = (sel & !0xff) | ((sel & 0xff) % 3);
            }
            ConfTag { kind, n, sel, key }
        })
}

/// Spec-conformant boot information: conformant tags (no interior end tag),
/// zero padding, valid end tag.
pub fn build_conformant_mbi(tags: &[ConfTag], pad: u8) -> Vec<u8> {
    let imgs: Vec<Vec<u8>> = tags.iter().map(|t| conformant_tag(t.kind, t.key, t.n as usize, t.sel)).collect();
    mbi(&imgs, 0, pad, true)
}

// ---------------------------------------------------------------------------
// headers

#[derive(Clone, Debug)]
pub struct HdrTagSpec {
    pub kind: u32,
    pub n: u16,
    pub sel: u32,
    pub key: u64,
    /// Tweak of the size word: (choice, random)
    pub size_tweak: Option<(u8, u32)>,
    pub extra: Vec<u8>,
}

pub fn build_hdr_tag(s: &HdrTagSpec) -> Vec<u8> {
    let mut img = conformant_hdr_tag(s.kind, s.key, s.n as usize, s.sel);
    if !s.extra.is_empty() {
        img.extend_from_slice(&s.extra);
        let l = img.len() as u32;
        put32(&mut img, 4, l);
    }
    if let Some((choice, r)) = s.size_tweak {
        let cur = le32(&img, 4) as u64;
        let v = choose_value(cur, 4, choice, r, img.len() as u64);
        put32(&mut img, 4, v as u32);
    }
    img
}

#[derive(Clone, Debug)]
pub struct HdrSpec {
    pub arch: u32,
    pub tags: Vec<HdrTagSpec>,
    pub end: bool,
    pub pad: u8,
    /// None: correct; Some(x): xor into the magic
    pub magic_xor: u32,
    pub sum_delta: u32,
    pub len: TsTweak,
}

/// Header bytes; the length is `max(16, r8(length word))`.
pub fn build_hdr(spec: &HdrSpec) -> Vec<u8> {
    let mut imgs: Vec<Vec<u8>> = spec.tags.iter().map(build_hdr_tag).collect();
    if spec.end {
        imgs.push(hdr_end_tag());
    }
    let mut v = hdr(spec.arch, &imgs, spec.pad);
    let len = v.len() as u32;
    let l = match spec.len {
        TsTweak::None => len,
        TsTweak::Minus(k) => len.saturating_sub(k as u32),
        TsTweak::Shorter(k) => len.saturating_sub(8 * k as u32).max(16),
        TsTweak::Tiny(k) => k as u32,
    };
    let magic = HDR_MAGIC ^ spec.magic_xor;
    put32(&mut v, 0, magic);
    put32(&mut v, 8, l);
    put32(&mut v, 12, model_checksum(magic, spec.arch, l).wrapping_add(spec.sum_delta));
    v.truncate(r8(l as usize).max(16));
    while v.len() < r8(l as usize).max(16) {
        v.push(spec.pad);
    }
    v
}

pub fn hdr_tag_spec(adversarial: bool) -> impl Strategy<Value = HdrTagSpec> {
    (
        prop_oneof![10 => 0u32..=10, 1 => 11u32..64],
        prop_oneof![4 => 0u16..6, 1 => 6u16..33],
        any::<u32>(),
        any::<u64>(),
        if adversarial {
            prop_oneof![3 => Just(None), 2 => (any::<u8>(), any::<u32>()).prop_map(Some)].boxed()
        } else {
            Just(None).boxed()
        },
        if adversarial {
            prop_oneof![8 => Just(Vec::new()), 2 => proptest::collection::vec(any::<u8>(), 1..24)].boxed()
        } else {
            Just(Vec::new()).boxed()
        },
    )
        .prop_map(|(kind, n, sel, key, size_tweak, extra)| HdrTagSpec { kind, n, sel, key, size_tweak, extra })
}

pub fn hdr_spec(max_tags: usize, adversarial: bool) -> impl Strategy<Value = HdrSpec> {
    (
        prop_oneof![Just(0u32), Just(4u32)],
        proptest::collection::vec(hdr_tag_spec(adversarial), 0..=max_tags),
        prop_oneof![4 => Just(true), 1 => Just(false)],
        prop_oneof![Just(0u8), Just(0x5Au8)],
        if adversarial {
            prop_oneof![20 => Just(0u32), 1 => any::<u32>(), 1 => (0u32..32).prop_map(|b| 1 << b)].boxed()
        } else {
            Just(0u32).boxed()
        },
        if adversarial {
            prop_oneof![20 => Just(0u32), 1 => any::<u32>(), 1 => Just(1u32), 1 => Just(u32::MAX)].boxed()
        } else {
            Just(0u32).boxed()
        },
        if adversarial {
            prop_oneof![
                30 => Just(TsTweak::None),
                1 => (1u8..8).prop_map(TsTweak::Minus),
                1 => (1u8..4).prop_map(TsTweak::Shorter),
                1 => (0u8..40).prop_map(TsTweak::Tiny),
            ]
            .boxed()
        } else {
            Just(TsTweak::None).boxed()
        },
    )
        .prop_map(|(arch, tags, end, pad, magic_xor, sum_delta, len)| HdrSpec { arch, tags, end, pad, magic_xor, sum_delta, len })
}
