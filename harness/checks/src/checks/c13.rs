//! C13 - searching a binary image for the header is exact and total.

use crate::runner::*;
use crate::sbx::{self, Boxed, Place};
use mb2_model::transcript::{Rec, Transcript, Val};
use mb2_model::walk::HDR_MAGIC;
use mb2_model::*;
use multiboot2_header::Multiboot2Header;
use proptest::prelude::*;
use serde::{Deserialize, Serialize};
use serde_json::json;

#[derive(Clone, Debug, Serialize, Deserialize)]
pub struct Case {
    pub len: usize,
    pub key: u64,
    /// (position, stored length word) of planted magics, applied in order
    pub plants: Vec<(usize, u32)>,
    /// what the buffer starts with: 0 background, 1 ELF32 / 2 ELF64 file
    /// identification (kernels are ELF images), 3 "MZ" (PE), 4 a.out-ish word
    #[serde(default)]
    pub prefix: u8,
    /// (position, kind) of planted look-alikes that are not the magic: 0 the
    /// header as a big-endian machine would store it (byte-swapped magic,
    /// big-endian architecture 4 and length), 1 byte-swapped magic + zero
    /// architecture, 2 the boot-information magic, 3 the Multiboot 1 magic,
    /// 4 the magic's first three bytes, 5 its last three
    #[serde(default)]
    pub decoys: Vec<(usize, u8)>,
    /// (position, number of tags, slack words) of complete valid headers (magic,
    /// architecture, length, valid checksum, tags, end tag); the stored length
    /// covers `slack` further 8-byte words behind the end tag (as a linker that
    /// stores the padded section size does)
    #[serde(default)]
    pub full: Vec<(usize, u8, u8)>,
}

const DECOYS: [&[u8]; 6] = [
    &[0xe8, 0x52, 0x50, 0xd6, 0, 0, 0, 4, 0, 0, 0, 24],
    &[0xe8, 0x52, 0x50, 0xd6, 0, 0, 0, 0, 0, 0, 0, 16],
    &[0x89, 0x62, 0xd7, 0x36, 0, 0, 0, 0],
    &[0x02, 0xb0, 0xad, 0x1b, 0, 0, 0, 0],
    &[0xd6, 0x50, 0x52],
    &[0x50, 0x52, 0xe8],
];

const PREFIXES: [&[u8]; 5] = [&[], &[0x7f, b'E', b'L', b'F', 1, 1, 1, 0], &[0x7f, b'E', b'L', b'F', 2, 1, 1, 0], b"MZ\x90\x00", &[0x07, 0x01, 0x64, 0x00]];

fn contains_magic(b: &[u8], from: usize, to: usize) -> Option<usize> {
    (from..to.saturating_sub(3).max(from)).find(|&i| i + 4 <= b.len() && le32(b, i) == HDR_MAGIC)
}

pub fn buffer(c: &Case) -> Vec<u8> {
    let mut v: Vec<u8> = (0..c.len).map(|i| marker(c.key, i)).collect();
    // break accidental magics in the background
    while let Some(i) = contains_magic(&v, 0, v.len()) {
        v[i] ^= 0x55;
    }
    for (k, b) in PREFIXES[c.prefix as usize % PREFIXES.len()].iter().enumerate() {
        if k < v.len() {
            v[k] = *b;
        }
    }
    for (pos, kind) in &c.decoys {
        for (k, b) in DECOYS[*kind as usize % DECOYS.len()].iter().enumerate() {
            if pos + k < v.len() {
                v[pos + k] = *b;
            }
        }
    }
    for (pos, ntags, slack) in &c.full {
        use mb2_model::encode::{conformant_hdr_tag, hdr_end_tag};
        let mut tags: Vec<Vec<u8>> = (0..*ntags as u32 % 4).map(|j| conformant_hdr_tag(2 + j, c.key, 1, 0)).collect();
        tags.push(hdr_end_tag());
        let mut h = mb2_model::encode::hdr(if c.key & 2 == 0 { 0 } else { 4 }, &tags, 0);
        h.extend(std::iter::repeat(0u8).take(8 * (*slack as usize % 8)));
        let l = h.len() as u32;
        put32(&mut h, 8, l);
        let ck = mb2_model::walk::model_checksum(le32(&h, 0), le32(&h, 4), l);
        put32(&mut h, 12, ck);
        for (k, b) in h.iter().enumerate() {
            if pos + k < v.len() {
                v[pos + k] = *b;
            }
        }
    }
    for (pos, l) in &c.plants {
        let w = HDR_MAGIC.to_le_bytes();
        // the stored length's top bits select a decoy: 1..=3 leading bytes of the
        // magic directly in front of the occurrence (a scanner that resumes at the
        // wrong place after a partial match would skip the real one)
        let pre = (c.key >> (8 + 2 * (pos % 8))) as usize & 3;
        if pre > 0 && *pos >= pre && c.key & 1 == 1 {
            for k in 0..pre {
                if pos - pre + k < v.len() {
                    v[pos - pre + k] = w[k];
                }
            }
        }
        for (k, b) in w.iter().enumerate() {
            if pos + k < v.len() {
                v[pos + k] = *b;
            }
        }
        let lw = l.to_le_bytes();
        for (k, b) in lw.iter().enumerate() {
            if pos + 8 + k < v.len() {
                v[pos + 8 + k] = *b;
            }
        }
    }
    v
}

#[derive(Debug, PartialEq, Eq)]
enum Want {
    NoHeader,
    SomeErr,
    Found(usize, usize),
}

fn model(b: &[u8]) -> Want {
    let w = b.len().min(8192);
    let first = (0..w).find(|&i| i + 4 <= w && le32(b, i) == HDR_MAGIC);
    let Some(i) = first else { return Want::NoHeader };
    if i % 8 != 0 {
        return Want::SomeErr;
    }
    if i + 12 > b.len() {
        return Want::SomeErr;
    }
    let l = le32(b, i + 8) as usize;
    if i + l > b.len() {
        return Want::SomeErr;
    }
    Want::Found(i, l)
}

pub fn run(ptr: *const u8, len: usize) -> Transcript {
    let mut rec = Rec::new(ptr as usize);
    let slice = unsafe { core::slice::from_raw_parts(ptr, len) };
    match mb2_model::panics::catch(|| Multiboot2Header::find_header(slice)) {
        None => rec.t.push("r", Val::Panic),
        Some(Ok(None)) => rec.t.push("r", Val::None),
        Some(Err(e)) => rec.t.push("r", Val::Err(format!("{e:?}"))),
        Some(Ok(Some((s, idx)))) => {
            let v = rec.ext_raw(s.as_ptr(), s.len());
            rec.t.push("r", v);
            rec.t.push("idx", Val::U(idx as u64));
        }
    }
    rec.t
}

pub fn eval(c: &Case, obs: &mut Obs) -> Result<(), String> {
    if c.len > sbx::GUARD_CAP {
        return Err("malformed case".into());
    }
    let b = buffer(c);
    let want = model(&b);
    obs.class(match &want {
        Want::NoHeader => "no-header",
        Want::SomeErr => "!error",
        Want::Found(..) => "!found",
    });
    if b.len() < 8192 {
        obs.class("!shorter-than-window");
    }
    let present = contains_magic(&b, 0, b.len()).is_some();
    if present || b.len() < 8192 {
        obs.nontrivial(fnv(&b));
        obs.sample(json!({"len": c.len, "plants": c.plants, "expected": format!("{want:?}")}));
    }
    // 8-aligned start, readable extent r8(len), ending at the guard page
    let t = match sbx::with_guarded(&b, 0, Place::End, run) {
        Boxed::Done(t) => t,
        Boxed::Crash(s) => return Err(format!("find_header crashed: {s} (buffer of {} bytes, plants {:?})", c.len, c.plants)),
        Boxed::Inconclusive(w) => {
            obs.inconclusive(w);
            return Ok(());
        }
    };
    let ok = match (&want, t.get("r")) {
        (Want::NoHeader, Some(Val::None)) => true,
        (Want::SomeErr, Some(Val::Err(_))) => true,
        (Want::Found(i, l), Some(Val::Ext(o, n))) => o == i && n == l && t.get("idx") == Some(&Val::U(*i as u64)),
        _ => false,
    };
    if ok {
        Ok(())
    } else {
        Err(format!("buffer of {} bytes, plants {:?}: expected {want:?}, got {}", c.len, c.plants, t.render().replace('\n', " ")))
    }
}

// --- several searches in one process ------------------------------------------------

#[derive(Clone, Debug, Serialize, Deserialize)]
pub struct SeqCase {
    pub searches: Vec<Case>,
}

/// Searches run one after the other in the same process (no sandbox: the
/// buffers are ordinary heap memory): every result must be what the
/// reference search gives for that buffer alone, whatever was searched before.
pub fn eval_seq(c: &SeqCase, obs: &mut Obs) -> Result<(), String> {
    // in one forked child: the searches follow each other in one process, and a
    // fault is a verdict about the library
    let r = mb2_sandbox::run_child(|| {
        let mut o = Obs::new();
        match eval_seq_inner(c, &mut o) {
            Ok(f) => format!("OK {f}").into_bytes(),
            Err(m) => format!("E {m}").into_bytes(),
        }
    });
    let founds: usize = match r {
        mb2_sandbox::ChildResult::Done(b) if b.starts_with(b"OK ") => String::from_utf8_lossy(&b[3..]).parse().unwrap_or(0),
        mb2_sandbox::ChildResult::Done(b) => return Err(String::from_utf8_lossy(&b[2.min(b.len())..]).into_owned()),
        mb2_sandbox::ChildResult::Signal(sig) => return Err(format!("{} searches in one process crashed it ({})", c.searches.len(), mb2_sandbox::ChildResult::signal_name(sig))),
        mb2_sandbox::ChildResult::Timeout => {
            obs.inconclusive("watchdog expired");
            return Ok(());
        }
        mb2_sandbox::ChildResult::Broken(code) => {
            obs.inconclusive(format!("child exited with {code} without a record"));
            return Ok(());
        }
    };
    obs.class(format!("found-{}", founds.min(3)));
    if founds >= 1 && c.searches.len() >= 2 {
        obs.nontrivial(fnv(format!("{:?}", c.searches).as_bytes()));
        obs.sample(json!({"searches": c.searches.len(), "successful": founds}));
    }
    Ok(())
}

fn eval_seq_inner(c: &SeqCase, _obs: &mut Obs) -> Result<usize, String> {
    let mut founds = 0;
    for (i, s) in c.searches.iter().enumerate() {
        if s.len > 1 << 17 {
            return Err("malformed case".into());
        }
        let b = buffer(s);
        let want = model(&b);
        let a = Aligned::new(&b);
        let t = run(a.as_ptr(), b.len());
        let ok = match (&want, t.get("r")) {
            (Want::NoHeader, Some(Val::None)) => true,
            (Want::SomeErr, Some(Val::Err(_))) => true,
            (Want::Found(i, l), Some(Val::Ext(o, n))) => o == i && n == l && t.get("idx") == Some(&Val::U(*i as u64)),
            _ => false,
        };
        if matches!(want, Want::Found(..)) {
            founds += 1;
        }
        if !ok {
            return Err(format!("search {} of {} in one process: buffer of {} bytes, plants {:?}: expected {want:?}, got {}", i + 1, c.searches.len(), s.len, s.plants, t.render().replace('\n', " ")));
        }
    }
    Ok(founds)
}

fn strategy_seq(ctx: &Ctx) -> BoxedStrategy<SeqCase> {
    // short buffers with one or two aligned headers at small offsets, so that
    // offsets found earlier recur in later buffers
    let one = (8usize..160, any::<u64>(), proptest::collection::vec((0usize..16, 0u8..3), 0..=2)).prop_map(|(len, key, pl)| {
        let plants = pl
            .into_iter()
            .filter_map(|(slot, lm)| {
                let pos = 8 * slot;
                if pos + 16 > len {
                    return None;
                }
                let room = (len - pos) as u32;
                Some((pos, match lm {
                    0 => 16,
                    1 => room,
                    _ => room + 8,
                }))
            })
            .collect();
        Case { len, key: key & !1, plants, prefix: 0, decoys: vec![], full: vec![] }
    });
    prop_oneof![4 => proptest::collection::vec(one, 2..=6), 1 => proptest::collection::vec(strategy(ctx), 2..=4)].prop_map(|searches| SeqCase { searches }).boxed()
}

// --- buffers that straddle a multiple of 4 GiB ---------------------------------------

fn straddle_ok(addr: usize, pos: usize) -> Result<(), String> {
    let c = Case { len: 16384, key: (addr ^ pos) as u64 & !1, plants: vec![], prefix: 0, decoys: vec![], full: vec![(pos, 2, 1)] };
    let b = buffer(&c);
    let want = model(&b);
    match sbx::at_address(addr, &b, run) {
        None => Err("INCONCLUSIVE: the address could not be mapped".into()),
        Some(Boxed::Inconclusive(w)) => Err(format!("INCONCLUSIVE: {w}")),
        Some(Boxed::Crash(s)) => Err(format!("find_header crashed: {s}")),
        Some(Boxed::Done(t)) => {
            let ok = match (&want, t.get("r")) {
                (Want::NoHeader, Some(Val::None)) => true,
                (Want::SomeErr, Some(Val::Err(_))) => true,
                (Want::Found(i, l), Some(Val::Ext(o, n))) => o == i && n == l && t.get("idx") == Some(&Val::U(*i as u64)),
                _ => false,
            };
            if ok {
                Ok(())
            } else {
                Err(format!("expected {want:?}, got {}", t.render().replace('\n', " ")))
            }
        }
    }
}

fn run_straddle(ctx: &Ctx, rep: &mut SubReport) {
    if ctx.worker != 0 {
        return;
    }
    let mut granted = 0;
    for addr in [0x1_0000_0000usize - 4096, 0x2_0000_0000 - 8192, 0x8000_0000 - 4096, 0x100_0000_0000 - 4096] {
        for pos in [0usize, 4088, 4096, 4160, 8184] {
            match straddle_ok(addr, pos) {
                Ok(()) => {
                    granted += 1;
                    rep.evaluations += 1;
                    rep.nontrivial.insert((addr + pos) as u64);
                }
                Err(m) if m.starts_with("INCONCLUSIVE") => {}
                Err(m) => {
                    rep.violations.push(Violation { sub: "straddling-buffers".into(), profile: profile_name().into(), message: format!("16 KiB image at {addr:#x} (it straddles a multiple of 4 GiB / 2 GiB), complete header at offset {pos}: {m}"), case: json!({"addr": addr, "pos": pos}) });
                    return;
                }
            }
        }
    }
    rep.notes.push(format!("{granted} searches in images that straddle a 2 GiB / 4 GiB / 1 TiB mark"));
    rep.samples.push(json!({"addr": "0xfffff000", "header_at": 4160, "expect": "found at its offset"}));
}

fn replay_straddle(v: &serde_json::Value) -> Result<(), String> {
    straddle_ok(v["addr"].as_u64().unwrap_or(0) as usize, v["pos"].as_u64().unwrap_or(0) as usize)
}

fn lens_of_interest() -> Vec<usize> {
    let mut v: Vec<usize> = (0..=96).collect();
    v.extend(8150..=8230);
    v
}

pub fn enumerate(_: &Ctx) -> Box<dyn Iterator<Item = Case>> {
    let mut v = Vec::new();
    for len in lens_of_interest() {
        v.push(Case { len, key: len as u64, plants: vec![], prefix: 0, decoys: vec![], full: vec![] });
        // a magic at every interesting position relative to this length and the window
        let mut pos: Vec<usize> = vec![0, 1, 4, 8, 16, 24];
        for d in 0..=16 {
            if len >= d {
                pos.push(len - d);
            }
            if 8192 >= d {
                pos.push(8192 - d);
            }
            pos.push(8192 + d);
        }
        pos.sort_unstable();
        pos.dedup();
        for p in pos {
            if p + 1 > len {
                continue;
            }
            for l in [0u32, 16, (len.saturating_sub(p)) as u32, (len.saturating_sub(p) + 1) as u32, 1 << 31, u32::MAX] {
                v.push(Case { len, key: (len * 31 + p) as u64, plants: vec![(p, l)], prefix: 0, decoys: vec![], full: vec![] });
            }
        }
    }
    // images larger than 32 KiB (the specification's limit for where a header may
    // *start*; the statement has no limit on where it ends): a header in the first
    // 8192 bytes whose stored length reaches the end of the buffer or stops short of it
    for len in [32768usize, 32776, 40000, 70000] {
        for pos in [0usize, 8, 8184] {
            for l in [(len - pos) as u32, (len - pos - 8) as u32, 32768, 32776, (len - pos + 8) as u32] {
                v.push(Case { len, key: (len + pos) as u64, plants: vec![(pos, l)], prefix: 0, decoys: vec![], full: vec![] });
            }
        }
    }
    // complete valid headers (checksum, tags, end tag) whose stored length covers
    // 0..=3 further words behind the end tag
    for ntags in 0..4u8 {
        for slack in 0..4u8 {
            for pos in [0usize, 8, 64] {
                v.push(Case { len: 256, key: (ntags as u64) << 4 | slack as u64 | 0xF00, plants: vec![], prefix: 0, decoys: vec![], full: vec![(pos, ntags, slack)] });
            }
        }
    }
    // look-alikes that are not the magic, alone and in front of a real header
    for kind in 0..DECOYS.len() as u8 {
        for len in [64usize, 200] {
            for dp in [0usize, 8, 16, 32] {
                v.push(Case { len, key: (len + dp) as u64 ^ 0xDEC, plants: vec![], prefix: 0, decoys: vec![(dp, kind)], full: vec![] });
                v.push(Case { len, key: (len + dp) as u64 ^ 0xDEC, plants: vec![(48, 16)], prefix: 0, decoys: vec![(dp, kind)], full: vec![] });
            }
        }
    }
    // images that start with a file-format identification, the header at
    // every aligned position of the first 128 bytes
    for prefix in 1..PREFIXES.len() as u8 {
        for len in [96usize, 4096, 9000] {
            for p in (8..128).step_by(8) {
                if p + 16 <= len {
                    v.push(Case { len, key: (len + p) as u64, plants: vec![(p, 16)], prefix, decoys: vec![], full: vec![] });
                    v.push(Case { len, key: (len + p) as u64, plants: vec![(p, (len - p + 1) as u32)], prefix, decoys: vec![], full: vec![] });
                }
            }
        }
    }
    Box::new(v.into_iter())
}

pub fn strategy(_: &Ctx) -> BoxedStrategy<Case> {
    (
        prop_oneof![4 => 0usize..200, 4 => 8100usize..8300, 6 => 0usize..16384, 1 => 16384usize..80000],
        any::<u64>(),
        proptest::collection::vec((any::<u16>(), 0u8..8, any::<u32>(), 0u8..8), 0..=3),
        prop_oneof![3 => Just(0u8), 2 => 1u8..PREFIXES.len() as u8],
        proptest::collection::vec((any::<u16>(), 0u8..DECOYS.len() as u8), 0..=2),
    )
        .prop_map(|(len, key, raw, prefix, dec)| {
            let decoys = dec.into_iter().map(|(p, k)| (crate::gen::pick(p, len + 1) / 8 * 8, k)).collect();
            let plants = raw
                .into_iter()
                .map(|(p, pmode, l, lmode)| {
                    let base = crate::gen::pick(p, len + 1);
                    let pos = match pmode {
                        0 | 1 | 2 => base / 8 * 8,
                        3 => base,
                        4 => 8188usize.min(len.saturating_sub(4)),
                        5 => 8189,
                        6 => len.saturating_sub(4),
                        _ => 8184,
                    };
                    let room = len.saturating_sub(pos) as u32;
                    let lw = match lmode {
                        0 => 0,
                        1 => 16,
                        2 => room,
                        3 => room.wrapping_add(1),
                        4 => l % (room + 1),
                        5 => 1 << 31,
                        6 => u32::MAX,
                        _ => l,
                    };
                    (pos, lw)
                })
                .collect();
            let full = if key % 5 == 0 && len >= 64 { vec![(((key >> 8) as usize % (len - 40)) / 8 * 8, (key >> 16) as u8, (key >> 20) as u8)] } else { vec![] };
            Case { len, key, plants, prefix, decoys, full }
        })
        .boxed()
}

pub fn subs() -> Vec<Box<dyn Sub>> {
    vec![Box::new(PropSub::<Case> {
        name: "find",
        rule: "8-aligned buffers ending at a PROT_NONE page, marker background with accidental magics broken, 0..=3 planted magics, complete valid headers (checksum, tags, end tag, stored length covering further words behind the end tag), optionally starting with an ELF32/ELF64/PE/a.out file identification, optionally with look-alikes that are not the magic (the header in big-endian byte order, the boot-information and Multiboot 1 magics, partial magics). Enumerated: for each identification a header at every aligned position of the first 128 bytes; every length 0..=96 and 8150..=8230 x magic positions {0,1,4,8,16,24, len-16..len, 8192-16..8192+16} x stored length {0, 16, exactly to the end, end+1, 2^31, 2^32-1}; images of 32 KiB .. 70000 bytes with a header that reaches the end; generated: lengths to 80000, aligned/misaligned/straddling positions, random lengths. Oracle: first magic inside min(len,8192) bytes decides: none => Ok(None); misaligned or length word/body outside the buffer => some Err; else exactly buffer[i..i+L] and index i; panic or fault is a violation. Non-trivial = a magic is present or the buffer is shorter than 8192; distinct by buffer hash",
        profiles: Profiles::Both,
        quick: 5000,
        thorough: 200000,
        strategy,
        enumerate: Some(enumerate),
        enum_exhaustive: false,
        eval,
    }),
    Box::new(LoopSub {
        name: "straddling-buffers",
        profiles: Profiles::Both,
        rule: "16 KiB images mapped so that they straddle a multiple of 4 GiB (also 2 GiB, 8 GiB, 1 TiB), with a complete valid header in front of, on and behind the mark: the search gives the reference result wherever the image lives. Non-trivial = every granted mapping",
        run: run_straddle,
        replay: replay_straddle,
    }),
    Box::new(PropSub::<SeqCase> {
        name: "find-sequences",
        rule: "2..=6 searches one after the other in the same process over different heap buffers (mostly short ones with one or two aligned headers at small offsets, so that an offset found earlier recurs later with another header in front of it). Oracle: every result equals the reference search of that buffer alone - the result of a search does not depend on earlier searches. Non-trivial = at least two searches, one of them successful; distinct by the sequence",
        profiles: Profiles::Both,
        quick: 20000,
        thorough: 1000000,
        strategy: strategy_seq,
        enumerate: None,
        enum_exhaustive: false,
        eval: eval_seq,
    }),
    Box::new(super::fuzzsub::FuzzSub { target: "fuzz_find", name: "fuzz-find", runs: 4_000_000, quick_runs: 300_000, max_len: 12000 })]
}
