//! C06 - building then loading a boot information preserves exactly the
//! supplied tags.

use crate::runner::*;
use mb2_model::walk::*;
use mb2_model::*;
use multiboot2 as m;
use multiboot2_common::MaybeDynSized;
use proptest::prelude::*;
use serde::{Deserialize, Serialize};
use serde_json::json;

pub const SLOTS: usize = 22;
const REPEATABLE: [usize; 3] = [2, 12, 21];
const SLOT_NAMES: [&str; SLOTS] = [
    "cmdline", "bootloader", "add_module", "meminfo", "bootdev", "mmap", "vbe", "framebuffer", "elf_sections", "apm", "efi32", "efi64", "add_smbios", "rsdpv1",
    "rsdpv2", "network", "efi_mmap", "efi_bs", "efi32_ih", "efi64_ih", "image_load_addr", "add_custom_tag",
];

#[derive(Clone, Debug, Serialize, Deserialize, PartialEq, Eq)]
pub struct Call {
    pub slot: u8,
    /// content length steering
    pub n: u8,
    pub key: u32,
}

#[derive(Clone, Debug, Serialize, Deserialize)]
pub struct Case {
    pub calls: Vec<Call>,
}

/// Mostly plain ASCII; one text in four carries NULs the way callers pass them
/// (a fixed-size zero-padded buffer, an interior NUL, bytes behind a NUL) or
/// multi-byte characters.
fn text(key: u32, n: usize) -> String {
    let mut t: String = mb2_model::encode::ascii_markers(key as u64, n, 3).into_iter().map(|b| b as char).collect();
    match (key >> 5) & 15 {
        1 => t.push_str("\0\0\0"),
        2 => {
            let at = t.len() / 2;
            t.insert(at, '\0');
        }
        3 => t.push_str("\0tail"),
        4 => t = String::from_utf8(mb2_model::encode::utf8_markers(key as u64, n, 3)).unwrap_or(t),
        _ => {}
    }
    t
}

/// Markers, or (one blob in four) content as firmware writes it / a uniform fill.
fn blob(key: u32, n: usize) -> Vec<u8> {
    if (key >> 5) & 3 == 1 {
        return mb2_model::realistic::blob((key >> 7) as u8, key as u64, n);
    }
    (0..n).map(|i| marker(key as u64, i)).collect()
}

/// A memory map as a PC BIOS reports it (E820 style): conventional memory below
/// 640 KiB, the reserved areas up to 1 MiB, extended memory from 1 MiB, ACPI areas.
fn e820(key: u32) -> Vec<m::MemoryArea> {
    let ext = 0x0100_0000u64 * (1 + (key as u64 >> 9) % 64);
    let mut v = vec![
        m::MemoryArea::new(0, 0x9fc00, m::MemoryAreaTypeId::from(1)),
        m::MemoryArea::new(0x9fc00, 0x400, m::MemoryAreaTypeId::from(2)),
        m::MemoryArea::new(0xf0000, 0x10000, m::MemoryAreaTypeId::from(2)),
        m::MemoryArea::new(0x10_0000, ext, m::MemoryAreaTypeId::from(1)),
        m::MemoryArea::new(0x10_0000 + ext, 0x2_0000, m::MemoryAreaTypeId::from(3)),
        m::MemoryArea::new(0xfffc_0000, 0x4_0000, m::MemoryAreaTypeId::from(2)),
    ];
    v.truncate(2 + (key as usize >> 15) % 5);
    if v.len() < 4 {
        v.push(m::MemoryArea::new(0x10_0000, ext, m::MemoryAreaTypeId::from(1)));
    }
    v
}

fn w(key: u32, i: usize) -> u64 {
    u64::from_le_bytes(core::array::from_fn(|k| marker(key as u64 ^ 0xABCD, 8 * i + k)))
}

/// `bytes[..size]` of a tag.
fn image<T: MaybeDynSized + ?Sized>(t: &T) -> Vec<u8> {
    let b = t.as_bytes().to_vec();
    let size = le32(&b, 4) as usize;
    b[..size.min(b.len())].to_vec()
}

/// Applies one builder call; returns the builder and the image of the tag
/// that was supplied (captured before it is moved in).
fn apply(b: m::Builder, c: &Call) -> (m::Builder, Vec<u8>) {
    let n = c.n as usize;
    let k = c.key;
    match c.slot as usize % SLOTS {
        0 => {
            let t = m::CommandLineTag::new(&text(k, n));
            let i = image(&*t);
            (b.cmdline(t), i)
        }
        1 => {
            let t = m::BootLoaderNameTag::new(&text(k, n));
            let i = image(&*t);
            (b.bootloader(t), i)
        }
        2 => {
            // every fourth key draws the start address from a pool of four, so that
            // histories contain modules that share a start address (or a range)
            let s = if k & 3 == 0 { (k >> 2 & 3) * 0x1000 } else { w(k, 0) as u32 & 0x7fff_ffff };
            let t = m::ModuleTag::new(s, s + 1 + (w(k, 1) as u32 & 0xffff), &text(k, n));
            let i = image(&*t);
            (b.add_module(t), i)
        }
        3 => {
            let t = m::BasicMemoryInfoTag::new(w(k, 0) as u32, w(k, 1) as u32);
            let i = image(&t);
            (b.meminfo(t), i)
        }
        4 => {
            let t = m::BootdevTag::new(w(k, 0) as u32, w(k, 1) as u32, w(k, 2) as u32);
            let i = image(&t);
            (b.bootdev(t), i)
        }
        5 => {
            let areas: Vec<m::MemoryArea> = if (k >> 5) & 1 == 1 { e820(k) } else { (0..n % 6).map(|j| m::MemoryArea::new(w(k, 2 * j), w(k, 2 * j + 1), m::MemoryAreaTypeId::from(w(k, j) as u32 % 7))).collect() };
            let t = m::MemoryMapTag::new(&areas);
            let i = image(&*t);
            (b.mmap(t), i)
        }
        6 => {
            let mut ci = m::VBEControlInfo::default();
            ci.version = w(k, 0) as u16;
            ci.total_memory = w(k, 1) as u16;
            let mut mi = m::VBEModeInfo::default();
            mi.pitch = w(k, 2) as u16;
            mi.bpp = w(k, 3) as u8;
            let t = m::VBEInfoTag::new(w(k, 4) as u16, w(k, 5) as u16, w(k, 6) as u16, w(k, 7) as u16, ci, mi);
            let i = image(&t);
            (b.vbe(t), i)
        }
        7 => {
            let pal: Vec<m::FramebufferColor> = (0..n % 7).map(|j| m::FramebufferColor { red: w(k, j) as u8, green: (w(k, j) >> 8) as u8, blue: (w(k, j) >> 16) as u8 }).collect();
            let f = |x: u64| m::FramebufferField { position: x as u8, size: (x >> 8) as u8 };
            let bt = match k % 3 {
                0 => m::FramebufferType::Indexed { palette: &pal },
                1 => m::FramebufferType::RGB { red: f(w(k, 8)), green: f(w(k, 9)), blue: f(w(k, 10)) },
                _ => m::FramebufferType::Text,
            };
            let t = m::FramebufferTag::new(w(k, 0), w(k, 1) as u32, w(k, 2) as u32, w(k, 3) as u32, w(k, 4) as u8, bt);
            let i = image(&*t);
            (b.framebuffer(t), i)
        }
        8 => {
            let cnt = n % 4;
            let t = m::ElfSectionsTag::new(cnt as u32, 64, 0, &blob(k, cnt * 64));
            let i = image(&*t);
            (b.elf_sections(t), i)
        }
        9 => {
            let t = m::ApmTag::new(w(k, 0) as u16, w(k, 1) as u16, w(k, 2) as u32, w(k, 3) as u16, w(k, 4) as u16, w(k, 5) as u16, w(k, 6) as u16, w(k, 7) as u16, w(k, 8) as u16);
            let i = image(&t);
            (b.apm(t), i)
        }
        10 => {
            let t = m::EFISdt32Tag::new(w(k, 0) as u32);
            let i = image(&t);
            (b.efi32(t), i)
        }
        11 => {
            let t = m::EFISdt64Tag::new(w(k, 0));
            let i = image(&t);
            (b.efi64(t), i)
        }
        12 => {
            let t = m::SmbiosTag::new(w(k, 0) as u8, w(k, 1) as u8, &blob(k, n));
            let i = image(&*t);
            (b.add_smbios(t), i)
        }
        13 => {
            let t = m::RsdpV1Tag::new(w(k, 0) as u8, *b"OEMIDX", w(k, 1) as u8, w(k, 2) as u32);
            let i = image(&t);
            (b.rsdpv1(t), i)
        }
        14 => {
            let t = m::RsdpV2Tag::new(w(k, 0) as u8, *b"oemidy", w(k, 1) as u8, w(k, 2) as u32, 36, w(k, 3), w(k, 4) as u8);
            let i = image(&t);
            (b.rsdpv2(t), i)
        }
        15 => {
            // one key in 16 asks for a large DHCP blob (structures beyond 64 KiB)
            let n = if k & 15 == 7 { 66_000 + n * 100 } else { n };
            let t = m::NetworkTag::new(&blob(k, n));
            let i = image(&*t);
            (b.network(t), i)
        }
        16 => {
            let t = m::EFIMemoryMapTag::new_from_map(48, 1, &blob(k, 48 * (n % 4)));
            let i = image(&*t);
            (b.efi_mmap(t), i)
        }
        17 => {
            let t = m::EFIBootServicesNotExitedTag::new();
            let i = image(&t);
            (b.efi_bs(t), i)
        }
        18 => {
            let t = m::EFIImageHandle32Tag::new(w(k, 0) as u32);
            let i = image(&t);
            (b.efi32_ih(t), i)
        }
        19 => {
            let t = m::EFIImageHandle64Tag::new(w(k, 0));
            let i = image(&t);
            (b.efi64_ih(t), i)
        }
        20 => {
            let t = m::ImageLoadPhysAddrTag::new(w(k, 0) as u32);
            let i = image(&t);
            (b.image_load_addr(t), i)
        }
        _ => {
            // half of the keys draw the custom type id from a pool of three, so that
            // ids repeat (adjacent and interleaved) within one history
            let ty = if k & 1 == 0 { 0x1000 + (k >> 1) % 3 } else { 22 + k % 100_000 };
            let t = multiboot2_common::new_boxed::<m::DynSizedStructure<m::TagHeader>>(m::TagHeader::new(m::TagType::Custom(ty), 0), &[&blob(k, n)]);
            let i = image(&*t);
            (b.add_custom_tag(t), i)
        }
    }
}

pub fn eval(c: &Case, obs: &mut Obs) -> Result<(), String> {
    let r = mb2_model::panics::catch(|| eval_inner(c, obs));
    match r {
        Some(r) => r,
        None => Err(format!("a constructor, the builder or load panicked for the history {:?}", c.calls.iter().map(|x| SLOT_NAMES[x.slot as usize % SLOTS]).collect::<Vec<_>>())),
    }
}

fn eval_inner(c: &Case, obs: &mut Obs) -> Result<(), String> {
    // allocations get exactly the alignment they ask for (see alloc_track)
    let _exact = crate::alloc_track::exact_align();
    // both ways of obtaining an empty builder (chosen by the case content)
    let mut b = if c.calls.iter().map(|x| x.key as u64 + x.n as u64).sum::<u64>() % 2 == 1 { m::Builder::default() } else { m::Builder::new() };
    // model: slot -> images
    let mut single: Vec<Option<Vec<u8>>> = vec![None; SLOTS];
    let mut rep: Vec<Vec<Vec<u8>>> = vec![Vec::new(); SLOTS];
    let mut overridden = false;
    for call in &c.calls {
        let slot = call.slot as usize % SLOTS;
        let (nb, img) = apply(b, call);
        b = nb;
        if REPEATABLE.contains(&slot) {
            rep[slot].push(img);
        } else {
            if single[slot].is_some() {
                overridden = true;
            }
            single[slot] = Some(img);
        }
    }
    let built = b.build();
    let bytes: Vec<u8> = built.as_bytes().to_vec();
    let ptr = built.as_bytes().as_ptr();
    let hist = || c.calls.iter().map(|x| SLOT_NAMES[x.slot as usize % SLOTS]).collect::<Vec<_>>().join(",");
    if ptr as usize % 8 != 0 {
        return Err(format!("[{}] built structure is not 8-aligned", hist()));
    }
    let mbi = unsafe { m::BootInformation::load(ptr.cast()) }.map_err(|e| format!("[{}] built structure does not load: {e:?}", hist()))?;
    let ts = le32(&bytes, 0) as usize;
    if mbi.total_size() != bytes.len() || ts != bytes.len() {
        return Err(format!("[{}] declares {} / header word {ts}, byte length is {}", hist(), mbi.total_size(), bytes.len()));
    }
    if bytes.len() < 16 || bytes[bytes.len() - 8..] != mb2_model::encode::END_TAG {
        return Err(format!("[{}] the final 8 bytes are not an end tag", hist()));
    }
    if predict_mbi_load(&bytes) != MbiLoad::Ok {
        return Err(format!("[{}] the reference model rejects the built structure", hist()));
    }
    let w = walk_mbi(&bytes);
    if w.panic_at.is_some() {
        return Err(format!("[{}] the reference walk over the built structure does not complete", hist()));
    }
    let mut found: Vec<Vec<u8>> = w.items.iter().map(|i| bytes[i.off..i.off + i.size as usize].to_vec()).collect();
    let last = found.pop();
    if last.as_deref() != Some(&mb2_model::encode::END_TAG[..]) {
        return Err(format!("[{}] the walk does not end with the end tag", hist()));
    }
    // expected multiset
    let mut expected: Vec<Vec<u8>> = Vec::new();
    for s in 0..SLOTS {
        if let Some(i) = &single[s] {
            expected.push(i.clone());
        }
        expected.extend(rep[s].iter().cloned());
    }
    let mut fs = found.clone();
    let mut es = expected.clone();
    fs.sort();
    es.sort();
    if fs != es {
        let missing: Vec<String> = es.iter().filter(|e| !fs.contains(e)).map(|e| format!("type {} size {}", le32(e, 0), e.len())).collect();
        let extra: Vec<String> = fs.iter().filter(|e| !es.contains(e)).map(|e| format!("type {} size {}", le32(e, 0), e.len())).collect();
        return Err(format!("[{}] tags in the built structure differ from the supplied ones: {} supplied / {} found; missing or altered: {:?}; unexpected: {:?}", hist(), es.len(), fs.len(), missing, extra));
    }
    // order within each repeatable kind
    for s in REPEATABLE {
        let typ = |img: &Vec<u8>| le32(img, 0);
        let want: Vec<&Vec<u8>> = rep[s].iter().collect();
        let is_kind = |img: &&Vec<u8>| match s {
            2 => typ(img) == 3,
            12 => typ(img) == 13,
            _ => typ(img) > 21,
        };
        let got: Vec<&Vec<u8>> = found.iter().filter(is_kind).collect();
        if got != want {
            return Err(format!("[{}] {} tags are not in call order", hist(), SLOT_NAMES[s]));
        }
    }
    let reps: usize = REPEATABLE.iter().map(|s| rep[*s].len()).sum();
    let odd = expected.iter().any(|i| i.len() % 8 != 0);
    obs.class(format!("calls-{}", c.calls.len().min(9)));
    for call in &c.calls {
        obs.class(format!("!{}", SLOT_NAMES[call.slot as usize % SLOTS]));
    }
    if overridden || reps >= 2 || odd {
        obs.nontrivial(fnv(format!("{:?}", c.calls).as_bytes()));
        obs.sample(json!({"calls": hist(), "built_len": bytes.len(), "overridden_single_valued_call": overridden, "repeatable_tags": reps}));
    }
    Ok(())
}

fn call_for(slot: usize, salt: u32) -> Call {
    Call { slot: slot as u8, n: ((slot * 3 + salt as usize) % 11) as u8, key: slot as u32 * 7919 + salt }
}

fn enumerate(ctx: &Ctx) -> Box<dyn Iterator<Item = Case>> {
    let mut v = vec![Case { calls: vec![] }];
    for a in 0..SLOTS {
        v.push(Case { calls: vec![call_for(a, 1)] });
        for b in 0..SLOTS {
            v.push(Case { calls: vec![call_for(a, 1), call_for(b, 2)] });
            if ctx.tier == Tier::Thorough || (a + b) % 3 == 0 {
                for c in 0..SLOTS {
                    if c > b || ctx.tier == Tier::Thorough {
                        v.push(Case { calls: vec![call_for(a, 1), call_for(b, 2), call_for(c, 3)] });
                    }
                }
            }
        }
    }
    v.push(Case { calls: (0..SLOTS).map(|s| call_for(s, 5)).collect() });
    // a structure larger than 64 KiB (large DHCP blob) and one with 300 modules
    v.push(Case { calls: vec![call_for(0, 1), Call { slot: 15, n: 5, key: 7 }, call_for(20, 2)] });
    v.push(Case { calls: (0..300).map(|i| Call { slot: 2, n: (i % 30) as u8, key: 1000 + i }).collect() });
    v.push(Case { calls: (0..SLOTS).rev().map(|s| call_for(s, 6)).collect() });
    Box::new(v.into_iter())
}

fn strategy(_: &Ctx) -> BoxedStrategy<Case> {
    proptest::collection::vec((prop_oneof![3 => 0u8..SLOTS as u8, 1 => proptest::sample::select(vec![2u8, 12, 21])], prop_oneof![4 => 0u8..12, 1 => 12u8..41], prop_oneof![2 => any::<u32>(), 1 => 0u32..16]), 0..=30)
        .prop_map(|v| Case { calls: v.into_iter().map(|(slot, n, key)| Call { slot, n, key }).collect() })
        .boxed()
}

// --- all 2^22 subsets (thorough, release) --------------------------------------

fn run_subsets(ctx: &Ctx, rep: &mut SubReport) {
    let bits = if ctx.tier == Tier::Thorough { 22 } else { 14 };
    // quick: all subsets of the 14 slots with variable-length or repeatable tags
    let slots: Vec<usize> = if bits == 22 { (0..22).collect() } else { vec![0, 1, 2, 5, 7, 8, 12, 13, 14, 15, 16, 17, 20, 21] };
    let n = 1u64 << slots.len();
    let lo = n * ctx.worker as u64 / ctx.workers as u64;
    let hi = n * (ctx.worker as u64 + 1) / ctx.workers as u64;
    for mask in lo..hi {
        let calls: Vec<Call> = slots.iter().enumerate().filter(|(i, _)| mask >> i & 1 == 1).map(|(_, s)| call_for(*s, 9)).collect();
        let case = Case { calls };
        let mut obs = Obs::new();
        let r = eval(&case, &mut obs);
        rep.evaluations += 1;
        if mask.count_ones() >= 1 {
            rep.nontrivial.insert(mask);
        }
        if let Err(m) = r {
            rep.violations.push(Violation { sub: "subsets".into(), profile: profile_name().into(), message: m, case: serde_json::to_value(&case).unwrap() });
            return;
        }
    }
    rep.exhaustive = true;
    rep.samples.push(json!({"subset_mask_example": "0b1010011", "slots": slots.iter().map(|s| SLOT_NAMES[*s]).collect::<Vec<_>>()}));
    rep.notes.push(format!("all 2^{} subsets of {} builder slots enumerated in slot order", slots.len(), slots.len()));
}

fn replay_subsets(v: &serde_json::Value) -> Result<(), String> {
    let c: Case = serde_json::from_value(v.clone()).map_err(|e| e.to_string())?;
    eval(&c, &mut Obs::new())
}

pub fn subs() -> Vec<Box<dyn Sub>> {
    vec![
        Box::new(super::fuzzsub::FuzzSub { target: "fuzz_build", name: "fuzz-build", runs: 20_000_000, quick_runs: 600_000, max_len: 512 }),
        Box::new(PropSub::<Case> {
            name: "histories",
            rule: "sequences of 0..=30 builder calls over the 22 slots with generated contents (string lengths 0..=40, array lengths 0..=5, marker field values; constructor preconditions respected: module end > start, EFI stride != 0, custom type > 21); enumerated: empty, all singletons, all ordered pairs, triples (a third of them in quick, all in thorough), the full set in both orders. Model: single-valued slot -> last call, repeatable slots (module, SMBIOS, custom) -> all calls in order. Oracle: 8-aligned, loads, total size == byte length == header word, final 8 bytes are the end tag, reference walk minus the end tag == supplied tag images (bytes[..size] captured before the tag is moved in) as a multiset, call order inside each repeatable kind. Non-trivial = an overridden single-valued call, >=2 repeatable tags, or a tag size not a multiple of 8; distinct by call list",
            profiles: Profiles::Both,
            quick: 40000,
            thorough: 2000000,
            strategy,
            enumerate: Some(enumerate),
            enum_exhaustive: false,
            eval,
        }),
        Box::new(LoopSub {
            name: "subsets",
            profiles: Profiles::ReleaseOnly,
            rule: "every subset of the builder slots, one call per chosen slot in slot order, same oracle as `histories`: thorough = all 2^22 subsets of the 22 slots; quick = all 2^14 subsets of the 14 slots with variable-length/repeatable/rarely used tags (incl. network). Non-trivial = non-empty subset; distinct by subset mask",
            run: run_subsets,
            replay: replay_subsets,
        }),
    ]
}
