//! C12 - building then loading a header preserves its tags and is
//! spec-well-formed.

use crate::runner::*;
use mb2_model::walk::*;
use mb2_model::*;
use multiboot2_common::MaybeDynSized;
use multiboot2_header as h;
use proptest::prelude::*;
use serde::{Deserialize, Serialize};
use serde_json::json;

pub const SLOTS: usize = 10;
const SLOT_NAMES: [&str; SLOTS] = ["information_request_tag", "address_tag", "entry_tag", "console_tag", "framebuffer_tag", "module_align_tag", "efi_bs_tag", "efi_32_tag", "efi_64_tag", "relocatable_tag"];

#[derive(Clone, Debug, Serialize, Deserialize)]
pub struct Call {
    pub slot: u8,
    pub n: u16,
    pub key: u32,
    /// 0: marker field values; 1: every field 0 or 8 (bits of `key`), which
    /// makes tag tails that look like an end tag; 2: special-value pool;
    /// 3: one byte value in every position; 4: screen geometries and depths
    #[serde(default)]
    pub mode: u8,
}

const POOL: [u32; 12] = [0, 8, 1, 16, 0xFFFF_FFFF, 0xE852_50D6, 0x8000_0000, 0x7FFF_FFFF, 24, 0x0008_0000, 0x0000_0800, 0x17AD_AF12];

/// Field value number `j` of a call.
fn fv(c: &Call, j: usize) -> u32 {
    match c.mode {
        0 => w(c.key, j),
        1 => [0, 8][(c.key >> (2 + j % 16) & 1) as usize],
        // every field the same byte in all positions (zeroed / erased / poisoned memory)
        3 => u32::from_le_bytes([(c.key >> 8) as u8; 4]),
        // geometries, depths and addresses that occur in practice
        4 => {
            let r = mb2_model::realistic::WIDTHS.iter().chain(mb2_model::realistic::HEIGHTS.iter()).chain(mb2_model::realistic::DEPTHS.iter()).copied().collect::<Vec<u32>>();
            r[(w(c.key, j) % r.len() as u32) as usize]
        }
        _ => POOL[(w(c.key, j) % POOL.len() as u32) as usize],
    }
}

#[derive(Clone, Debug, Serialize, Deserialize)]
pub struct Case {
    pub arch: u32,
    pub calls: Vec<Call>,
}

fn w(key: u32, i: usize) -> u32 {
    u32::from_le_bytes(core::array::from_fn(|k| marker(key as u64 ^ 0xC12, 4 * i + k)))
}

fn image<T: MaybeDynSized + ?Sized>(t: &T) -> Vec<u8> {
    let b = t.as_bytes().to_vec();
    let size = le32(&b, 4) as usize;
    b[..size.min(b.len())].to_vec()
}

fn apply(b: h::Builder, c: &Call) -> (h::Builder, Vec<u8>) {
    let k = c.key;
    let fl = if k & 1 == 0 { h::HeaderTagFlag::Required } else { h::HeaderTagFlag::Optional };
    match c.slot as usize % SLOTS {
        0 => {
            let reqs: Vec<h::MbiTagTypeId> = (0..c.n as usize).map(|j| h::MbiTagTypeId::new(fv(c, j))).collect();
            let t = h::InformationRequestHeaderTag::new(fl, &reqs);
            let i = image(&*t);
            (b.information_request_tag(t), i)
        }
        1 => {
            let t = h::AddressHeaderTag::new(fl, fv(c, 0), fv(c, 1), fv(c, 2), fv(c, 3));
            let i = image(&t);
            (b.address_tag(t), i)
        }
        2 => {
            let t = h::EntryAddressHeaderTag::new(fl, fv(c, 0));
            let i = image(&t);
            (b.entry_tag(t), i)
        }
        3 => {
            let t = h::ConsoleHeaderTag::new(fl, if k & 2 == 0 { h::ConsoleHeaderTagFlags::ConsoleRequired } else { h::ConsoleHeaderTagFlags::EgaTextSupported });
            let i = image(&t);
            (b.console_tag(t), i)
        }
        4 if c.mode == 5 => {
            use mb2_model::realistic::{DEPTHS, HEIGHTS, WIDTHS};
            let t = h::FramebufferHeaderTag::new(fl, WIDTHS[k as usize & 0xff], HEIGHTS[(k >> 8) as usize & 0xff], DEPTHS[(k >> 16) as usize & 0xff]);
            let i = image(&t);
            (b.framebuffer_tag(t), i)
        }
        4 => {
            let t = h::FramebufferHeaderTag::new(fl, fv(c, 0), fv(c, 1), fv(c, 2));
            let i = image(&t);
            (b.framebuffer_tag(t), i)
        }
        5 => {
            let t = h::ModuleAlignHeaderTag::new(fl);
            let i = image(&t);
            (b.module_align_tag(t), i)
        }
        6 => {
            let t = h::EfiBootServiceHeaderTag::new(fl);
            let i = image(&t);
            (b.efi_bs_tag(t), i)
        }
        7 => {
            let t = h::EntryEfi32HeaderTag::new(fl, fv(c, 0));
            let i = image(&t);
            (b.efi_32_tag(t), i)
        }
        8 => {
            let t = h::EntryEfi64HeaderTag::new(fl, fv(c, 0));
            let i = image(&t);
            (b.efi_64_tag(t), i)
        }
        _ => {
            let pf = match k % 3 {
                0 => h::RelocatableHeaderTagPreference::None,
                1 => h::RelocatableHeaderTagPreference::Low,
                _ => h::RelocatableHeaderTagPreference::High,
            };
            let t = h::RelocatableHeaderTag::new(fl, fv(c, 0), fv(c, 1), fv(c, 2), pf);
            let i = image(&t);
            (b.relocatable_tag(t), i)
        }
    }
}

pub fn eval(c: &Case, obs: &mut Obs) -> Result<(), String> {
    match mb2_model::panics::catch(|| eval_inner(c, obs)) {
        Some(r) => r,
        None => Err(format!("a constructor, the builder or load panicked for arch {} calls {:?}", c.arch, c.calls.iter().map(|x| SLOT_NAMES[x.slot as usize % SLOTS]).collect::<Vec<_>>())),
    }
}

fn eval_inner(c: &Case, obs: &mut Obs) -> Result<(), String> {
    // allocations get exactly the alignment they ask for (see alloc_track)
    let _exact = crate::alloc_track::exact_align();
    let isa = if c.arch == 0 { h::HeaderTagISA::I386 } else { h::HeaderTagISA::MIPS32 };
    let arch_word = if c.arch == 0 { 0u32 } else { 4 };
    let mut b = h::Builder::new(isa);
    let mut single: Vec<Option<Vec<u8>>> = vec![None; SLOTS];
    let mut overridden = false;
    for call in &c.calls {
        let (nb, img) = apply(b, call);
        b = nb;
        let s = call.slot as usize % SLOTS;
        if single[s].is_some() {
            overridden = true;
        }
        single[s] = Some(img);
    }
    let built = b.build();
    let bytes = built.as_bytes().to_vec();
    let ptr = built.as_bytes().as_ptr();
    let hist = || format!("arch {} [{}]", arch_word, c.calls.iter().map(|x| SLOT_NAMES[x.slot as usize % SLOTS]).collect::<Vec<_>>().join(","));
    if ptr as usize % 8 != 0 {
        return Err(format!("{}: built header is not 8-aligned", hist()));
    }
    let hdr = unsafe { h::Multiboot2Header::load(ptr.cast()) }.map_err(|e| format!("{}: built header does not load: {e:?}", hist()))?;
    if hdr.header_magic() != HDR_MAGIC || le32(&bytes, 0) != HDR_MAGIC {
        return Err(format!("{}: magic {:#x}", hist(), le32(&bytes, 0)));
    }
    if le32(&bytes, 4) != arch_word || hdr.arch() as u32 != arch_word {
        return Err(format!("{}: architecture word {}", hist(), le32(&bytes, 4)));
    }
    if le32(&bytes, 8) as usize != bytes.len() || hdr.length() as usize != bytes.len() {
        return Err(format!("{}: length word {} but {} bytes", hist(), le32(&bytes, 8), bytes.len()));
    }
    if predict_hdr_load(&bytes) != HdrLoad::Ok {
        return Err(format!("{}: the reference model rejects the built header ({})", hist(), predict_hdr_load(&bytes).text()));
    }
    let w = walk_hdr(&bytes);
    if w.panic_at.is_some() {
        return Err(format!("{}: the reference walk over the built header does not complete", hist()));
    }
    let mut found: Vec<Vec<u8>> = w.items.iter().map(|i| bytes[i.off..i.off + i.size as usize].to_vec()).collect();
    // the specification requires a terminating end tag: type 0, flags 0, size 8
    let end = [0u8, 0, 0, 0, 8, 0, 0, 0];
    if bytes.len() < 24 || bytes[bytes.len() - 8..] != end || found.pop().as_deref() != Some(&end[..]) {
        return Err(format!("{}: the built header is not terminated by an end tag (type 0, flags 0, size 8); last 8 bytes: {}", hist(), hex(&bytes[bytes.len().saturating_sub(8)..])));
    }
    let mut expected: Vec<Vec<u8>> = single.iter().flatten().cloned().collect();
    let mut fs = found.clone();
    fs.sort();
    expected.sort();
    if fs != expected {
        return Err(format!("{}: tags in the built header differ from the supplied ones ({} supplied, {} found)", hist(), expected.len(), fs.len()));
    }
    obs.class(format!("tags-{}", expected.len()));
    if !c.calls.is_empty() {
        obs.nontrivial(fnv(format!("{}{:?}", c.arch, c.calls).as_bytes()));
        obs.sample(json!({"arch": arch_word, "calls": c.calls.iter().map(|x| SLOT_NAMES[x.slot as usize % SLOTS]).collect::<Vec<_>>(), "built_len": bytes.len(), "overridden": overridden}));
    }
    Ok(())
}

/// All 2^10 subsets x both architectures, in every tier.
fn enumerate(_: &Ctx) -> Box<dyn Iterator<Item = Case>> {
    let it = (0..2u32).flat_map(|arch| {
        (0..(1u32 << SLOTS)).map(move |mask| Case {
            arch,
            calls: (0..SLOTS).filter(|s| mask >> s & 1 == 1).map(|s| Call { slot: s as u8, n: ((mask as usize + s) % 33) as u16, key: mask * 31 + s as u32, mode: 0 }).collect(),
        })
    });
    // every single-tag header with all 0/8 field patterns (tails that look
    // like the terminating end tag), and the largest request lists
    let single = (0..2u32).flat_map(|arch| {
        (0..SLOTS as u8).flat_map(move |slot| {
            (0..4u16).flat_map(move |n| (0..64u32).map(move |bits| Case { arch, calls: vec![Call { slot, n, key: bits << 2 | (bits & 1), mode: 1 }] }))
        })
    });
    // every byte value as uniform content of every single-tag header
    let uniform = (0..SLOTS as u8).flat_map(|slot| (0..=255u32).map(move |b| Case { arch: b & 1, calls: vec![Call { slot, n: 4, key: b << 8 | (b & 1), mode: 3 }] }));
    // the framebuffer tag with every geometry x depth of the pools
    let fb = (0..mb2_model::realistic::WIDTHS.len()).flat_map(|wi| {
        (0..mb2_model::realistic::HEIGHTS.len()).flat_map(move |hi| (0..mb2_model::realistic::DEPTHS.len()).map(move |di| Case { arch: 0, calls: vec![Call { slot: 4, n: 0, key: (wi | hi << 8 | di << 16) as u32, mode: 5 }] }))
    });
    let big = [2040u16, 2041, 2042, 2047, 2048, 4096, 8100].into_iter().map(|n| Case { arch: 0, calls: vec![Call { slot: 0, n, key: n as u32, mode: 0 }, Call { slot: 2, n: 0, key: 5, mode: 0 }] });
    Box::new(it.chain(single).chain(uniform).chain(fb).chain(big))
}

fn strategy(_: &Ctx) -> BoxedStrategy<Case> {
    let n = prop_oneof![16 => 0u16..33, 1 => 33u16..2100, 1 => 2000u16..8100];
    let mode = prop_oneof![3 => Just(0u8), 2 => Just(1u8), 1 => Just(2u8), 1 => Just(3u8), 1 => Just(4u8)];
    (0u32..2, proptest::collection::vec((0u8..SLOTS as u8, n, any::<u32>(), mode), 0..=16))
        .prop_map(|(arch, v)| Case { arch, calls: v.into_iter().map(|(slot, n, key, mode)| Call { slot, n, key, mode }).collect() })
        .boxed()
}

pub fn subs() -> Vec<Box<dyn Sub>> {
    vec![Box::new(PropSub::<Case> {
        name: "builder",
        rule: "header Builder: enumerated completely in every tier: all 2^10 subsets of the builder slots x both architectures (one call per chosen slot); generated: 0..=16 calls in random order with repeats, information-request lists of 0..=32 entries (sometimes up to 8100, i.e. headers up to the specification's 32768 bytes), field values as markers, as 0/8 patterns (tag tails that look like an end tag; all single-tag headers with such patterns are enumerated), from a special-value pool, as one byte value in every position (all 256 values enumerated for every single-tag header), or as screen geometries/depths that occur in practice (the framebuffer tag with the full cross product of 12 widths x 12 heights x 8 depths is enumerated). Oracle: 8-aligned, loads, magic, chosen architecture, length word == byte length, checksum congruence (reference model), walk == supplied tags (last call per slot wins) byte-identical up to their sizes, and the final 8 bytes are an end tag (type 0, flags 0, size 8). Non-trivial = at least one call; distinct by (arch, call list)",
        profiles: Profiles::Both,
        quick: 30000,
        thorough: 2000000,
        strategy,
        enumerate: Some(enumerate),
        enum_exhaustive: false,
        eval,
    })]
}
