//! C11 - header accessors and typed getters decode the specified fields.

use crate::gen;
use crate::runner::*;
use mb2_model::exercise_hdr::{exercise_hdr, HdrOpts};
use mb2_model::expect_hdr::expect_hdr;
use mb2_model::walk::*;
use mb2_model::*;
use proptest::prelude::*;
use serde::{Deserialize, Serialize};
use serde_json::json;

#[derive(Clone, Debug, Serialize, Deserialize)]
pub struct Case {
    pub region: Hex,
}

fn stored(k: &str) -> bool {
    !k.split('.').any(|seg| seg == "dbg" || seg.starts_with('~'))
}

pub fn eval(c: &Case, obs: &mut Obs) -> Result<(), String> {
    let bytes = &c.region.0;
    if bytes.len() < 16 || predict_hdr_load(bytes) != HdrLoad::Ok || bytes.len() != le32(bytes, 8) as usize {
        return Err("malformed case: not a valid header".into());
    }
    {
        let mut copy = bytes.clone();
        if mb2_model::expect_hdr::sanitize_hdr_enums(&mut copy) != 0 {
            return Err("malformed case: undefined enumerated field".into());
        }
    }
    let w = walk_hdr(bytes);
    if w.panic_at.is_some() {
        return Err("malformed case: the reference walk does not complete".into());
    }
    let a = Aligned::new(bytes);
    let got = unsafe { exercise_hdr(a.as_ptr(), &HdrOpts { debug: false, max_steps: bytes.len() / 8 + 4 }) };
    let exp = expect_hdr(a.as_slice());
    let mut kinds: Vec<u32> = w.items.iter().map(|i| i.typ).collect();
    for k in &kinds {
        obs.class(format!("!kind-{k}"));
    }
    let n = kinds.len();
    kinds.sort_unstable();
    let dup = kinds.windows(2).any(|p| p[0] == p[1]);
    if n >= 3 && dup {
        obs.nontrivial(fnv(bytes));
        obs.sample(json!({"region": sample_bytes(bytes), "tag_types_in_walk_order": w.items.iter().map(|i| i.typ).collect::<Vec<_>>()}));
    }
    let d = exp.diff(&got, &stored);
    if d.is_empty() {
        Ok(())
    } else {
        Err(d.join("; "))
    }
}

fn strategy(_: &Ctx) -> BoxedStrategy<Case> {
    gen::hdr_spec(12, false)
        .prop_map(|mut s| {
            // conformant: known kinds only, no interior end tags
            for t in &mut s.tags {
                t.kind = 1 + t.kind % 10;
            }
            Case { region: Hex(gen::build_hdr(&s)) }
        })
        .boxed()
}

fn enumerate(_: &Ctx) -> Box<dyn Iterator<Item = Case>> {
    let mut v = Vec::new();
    let t = |kind: u32, key: u64, sel: u32, n: u16| gen::HdrTagSpec { kind, n, sel, key, size_tweak: None, extra: vec![] };
    for arch in [0u32, 4] {
        for end in [true, false] {
            let mk = |tags: Vec<gen::HdrTagSpec>| gen::HdrSpec { arch, tags, end, pad: 0, magic_xor: 0, sum_delta: 0, len: gen::TsTweak::None };
            v.push(Case { region: Hex(gen::build_hdr(&mk(vec![]))) });
            for k in 1..=10u32 {
                for n in [0u16, 1, 2, 3, 8, 32] {
                    if k != 1 && n > 0 {
                        continue;
                    }
                    v.push(Case { region: Hex(gen::build_hdr(&mk(vec![t(k, k as u64, 0, n)]))) });
                    v.push(Case { region: Hex(gen::build_hdr(&mk(vec![t(k, 50 + k as u64, 1, n), t(k, 90 + k as u64, 2, n)]))) });
                }
                for k2 in 1..=10u32 {
                    v.push(Case { region: Hex(gen::build_hdr(&mk(vec![t(k, 3 * k as u64, 5, 2), t(k2, 5 * k2 as u64, 2, 3), t(k, 17, 3, 1)]))) });
                }
            }
        }
    }
    Box::new(v.into_iter())
}

// --- the same header wherever it lives -----------------------------------------------

fn straddle_ok(addr: usize, shift: usize) -> Result<(), String> {
    use mb2_model::encode::{conformant_hdr_tag, hdr, hdr_end_tag};
    let mut tags: Vec<Vec<u8>> = [1u32, 2, 3, 5, 10].iter().map(|k| conformant_hdr_tag(*k, 0xC11 + *k as u64, 3, 0)).collect();
    tags.push(hdr_end_tag());
    let h = hdr(0, &tags, 0);
    // the header starts `shift` bytes in front of the mark the mapping straddles
    let start = addr + 4096 - shift;
    match crate::sbx::at_address(start, &h, |p, _| unsafe { exercise_hdr(p, &HdrOpts { debug: false, max_steps: 64 }) }) {
        None => Err("INCONCLUSIVE: the address could not be mapped".into()),
        Some(crate::sbx::Boxed::Inconclusive(w)) => Err(format!("INCONCLUSIVE: {w}")),
        Some(crate::sbx::Boxed::Crash(s)) => Err(format!("crashed: {s}")),
        Some(crate::sbx::Boxed::Done(t)) => {
            let d = expect_hdr(&h).diff(&t, &stored);
            if d.is_empty() {
                Ok(())
            } else {
                Err(d.join("; "))
            }
        }
    }
}

fn run_straddle(ctx: &Ctx, rep: &mut SubReport) {
    if ctx.worker != 0 {
        return;
    }
    let mut granted = 0;
    for addr in [0x1_0000_0000usize - 4096, 0x2_0000_0000 - 4096, 0x8000_0000 - 4096, 0x100_0000_0000 - 4096] {
        // in front of the mark, across it at every tag boundary, ending at it, behind it
        for shift in [4096usize, 136, 112, 88, 72, 56, 40, 24, 16, 8, 0] {
            match straddle_ok(addr, shift) {
                Ok(()) => {
                    granted += 1;
                    rep.evaluations += 1;
                    rep.nontrivial.insert((addr + shift) as u64);
                }
                Err(m) if m.starts_with("INCONCLUSIVE") => {}
                Err(m) => {
                    rep.violations.push(Violation { sub: "straddling-headers".into(), profile: profile_name().into(), message: format!("valid header with five tags, starting {shift} bytes in front of {:#x}: {m}", addr + 4096), case: json!({"addr": addr, "shift": shift}) });
                    return;
                }
            }
        }
    }
    rep.notes.push(format!("{granted} headers decoded around a 2 GiB / 4 GiB / 8 GiB / 1 TiB mark"));
    rep.samples.push(json!({"mark": "0x100000000", "header_starts_in_front_by": 56, "expect": "all accessors, the walk and the getters as anywhere else"}));
}

fn replay_straddle(v: &serde_json::Value) -> Result<(), String> {
    straddle_ok(v["addr"].as_u64().unwrap_or(0) as usize, v["shift"].as_u64().unwrap_or(0) as usize)
}

pub fn subs() -> Vec<Box<dyn Sub>> {
    vec![
        Box::new(LoopSub {
            name: "straddling-headers",
            profiles: Profiles::Both,
            rule: "a valid header with five tags and an end tag mapped in front of, across (at every tag boundary), ending at and behind a 2 GiB / 4 GiB / 8 GiB / 1 TiB mark: the complete stored transcript (accessors, walk, every getter and field) equals the reference model's, wherever the header lives. Non-trivial = every granted mapping",
            run: run_straddle,
            replay: replay_straddle,
        }),Box::new(PropSub::<Case> {
        name: "decode",
        rule: "valid headers from the independent encoder: 0..=12 tags of the 10 non-end kinds in random order/multiplicity, marker field bytes with in-range enumerated fields, information-request lists of 0..=32 entries, both architectures, with/without terminating end tag; enumerated: empty header, each kind alone / duplicated / every ordered pair with a repeated kind, request-list lengths {0,1,2,3,8,32}. Oracle: full transcript (4 header accessors, checksum verification, walk from offset 16 to length, typed fields of every item, 10 getters first-match/None) equals the reference model. Non-trivial = >=3 tags with a duplicated kind; distinct by region hash",
        profiles: Profiles::Both,
        quick: 40000,
        thorough: 3000000,
        strategy,
        enumerate: Some(enumerate),
        enum_exhaustive: false,
        eval,
    })]
}
