//! C03 - tag iteration reproduces the specification's tag walk, zero-copy.

use crate::gen;
use crate::runner::*;
use mb2_model::exercise_mbi::{exercise_mbi, MbiOpts};
use mb2_model::expect_mbi::{expect_mbi, ExpectOpts};
use mb2_model::walk::*;
use mb2_model::*;
use proptest::prelude::*;
use serde::{Deserialize, Serialize};
use serde_json::json;

#[derive(Clone, Debug, Serialize, Deserialize)]
pub struct Case {
    pub region: Hex,
}

fn walk_keys(k: &str) -> bool {
    k == "load" || k.starts_with("mbi.") || k.starts_with('w') || k.starts_with('m') || k == "g.module"
}

/// Compares `tags()` / `module_tags()` on this region with the reference walk.
/// In-process: the walk is bounds-checked slicing, and C01 covers crashes.
pub fn eval(c: &Case, obs: &mut Obs) -> Result<(), String> {
    let bytes = &c.region.0;
    if bytes.len() < 8 || bytes.len() != r8(le32(bytes, 0) as usize).max(8) {
        return Err("malformed case: region length must be max(8, r8(total size))".into());
    }
    let a = Aligned::new(bytes);
    let opts = MbiOpts { debug: false, max_steps: bytes.len() / 8 + 2, typed_all: false };
    let got = unsafe { exercise_mbi(a.as_ptr(), &opts) };
    let exp = expect_mbi(a.as_slice(), &ExpectOpts { typed_all: false });
    if predict_mbi_load(bytes) == MbiLoad::Ok {
        let w = walk_mbi(bytes);
        let odd = w.items.iter().filter(|i| i.size % 8 != 0).count();
        obs.class(if w.panic_at.is_some() { "walk-panics" } else { "walk-completes" });
        if w.items.iter().any(|i| i.typ == 3) {
            obs.class("has-module");
        }
        if (w.items.len() >= 2 && odd >= 1) || w.panic_at.is_some() {
            obs.nontrivial(fnv(bytes));
            obs.sample(json!({"region": sample_bytes(bytes), "tags": w.items.len(), "sizes_not_multiple_of_8": odd, "model_panics_at": w.panic_at}));
        }
    } else {
        obs.class("does-not-load");
    }
    let d = exp.diff(&got, &walk_keys);
    if d.is_empty() {
        Ok(())
    } else {
        Err(format!("walk differs from the specification walk: {}", d.join("; ")))
    }
}

fn strategy(_: &Ctx) -> BoxedStrategy<Case> {
    // size-word heavy tweaks: bias the tweak selector towards field 0 (size)
    gen::mbi_spec(24, 2)
        .prop_map(|mut s| {
            for t in &mut s.tags {
                // keep bodies small so that regions stay <= ~2 KiB
                t.n = t.n.min(12);
                if t.kind == 7 {
                    t.kind = 1;
                }
                for tw in &mut t.tweaks {
                    if tw.2 & 3 != 0 {
                        tw.0 = 0; // the size word
                    }
                }
            }
            Case { region: Hex(gen::build_mbi(&s)) }
        })
        .boxed()
}

/// All walks over regions with k <= 5 payload words: DFS over the size word at
/// every offset the walk visits (0..=remaining+9); the final 8 bytes are a
/// valid end tag so that the region loads.
fn enumerate(ctx: &Ctx) -> Box<dyn Iterator<Item = Case>> {
    Box::new(enumerate_regions(ctx).map(|region| Case { region }))
}

pub fn enumerate_regions(ctx: &Ctx) -> Box<dyn Iterator<Item = Hex>> {
    let kmax = if ctx.tier == Tier::Thorough { 6 } else { 5 };
    let mut out = Vec::new();
    for k in 1..=kmax {
        let ts = 8 + 8 * k;
        let mut base: Vec<u8> = (0..ts).map(|i| marker(0xC03, i)).collect();
        put32(&mut base, 0, ts as u32);
        put32(&mut base, 4, 0);
        base[ts - 8..ts].copy_from_slice(&mb2_model::encode::END_TAG);
        dfs(&mut base, 8, ts, &mut out);
    }
    Box::new(out.into_iter())
}

fn dfs(region: &mut Vec<u8>, off: usize, ts: usize, out: &mut Vec<Hex>) {
    if off >= ts - 8 {
        // reached (or jumped over) the end tag: the walk is determined
        out.push(Hex(region.clone()));
        return;
    }
    let remaining = ts - off;
    let saved: [u8; 8] = region[off..off + 8].try_into().unwrap();
    for size in 0..=(remaining + 9) {
        let typ = [1u32, 3, 0x1337, 0xE852_50D6, 0x36D7_6289][(off / 8 + size) % 5];
        put32(region, off, typ);
        put32(region, off + 4, size as u32);
        if size < 8 || size > remaining {
            out.push(Hex(region.clone()));
        } else {
            dfs(region, off + r8(size), ts, out);
        }
    }
    region[off..off + 8].copy_from_slice(&saved);
}

// ---------------------------------------------------------------------------
// iterator histories

#[derive(Clone, Debug, Serialize, Deserialize)]
pub enum Op {
    Next(u8),
    Clone(u8),
    Fresh,
    Modules,
    /// `nth(k)` on iterator i
    Nth(u8, u8),
    /// `clone().count()` of iterator i
    Count(u8),
    /// `clone().last()` of iterator i
    Last(u8),
    /// `module_tags().nth(k)` / `.count()`
    ModulesNth(u8),
}

#[derive(Clone, Debug, Serialize, Deserialize)]
pub struct HistCase {
    pub region: Hex,
    pub ops: Vec<Op>,
    /// a second boot information alive at the same time
    #[serde(default)]
    pub other: Option<Hex>,
    /// which of the two each op addresses (parallel to `ops`)
    #[serde(default)]
    pub on: Vec<u8>,
}

struct Obj<'a> {
    mbi: &'a multiboot2::BootInformation<'a>,
    w: Walk,
    base: usize,
    /// model iterator = index into the walk; None = poisoned by a panic
    model: Vec<Option<usize>>,
    real: Vec<Option<multiboot2::TagIter<'a>>>,
    mid_clone: bool,
}

impl<'a> Obj<'a> {
    fn new(mbi: &'a multiboot2::BootInformation<'a>, base: usize, bytes: &[u8]) -> Self {
        Self { mbi, w: walk_mbi(bytes), base, model: Vec::new(), real: Vec::new(), mid_clone: false }
    }

    fn apply(&mut self, step: usize, op: &Op) -> Result<(), String> {
        let Self { mbi, w, base, model, real, mid_clone } = self;
        let base = *base;
        let mbi: &'a multiboot2::BootInformation<'a> = *mbi;
        {
        match op {
                Op::Fresh => {
                    if real.len() < 4 {
                        real.push(Some(mbi.tags()));
                        model.push(Some(0));
                    }
                }
                Op::Clone(i) => {
                    if real.is_empty() || real.len() >= 4 {
                        return Ok(());
                    }
                    let i = *i as usize % real.len();
                    if let (Some(r), Some(m)) = (&real[i], model[i]) {
                        if m > 0 && m < w.items.len() {
                            *mid_clone = true;
                        }
                        real.push(Some(r.clone()));
                        model.push(Some(m));
                    }
                }
                Op::Next(i) => {
                    if real.is_empty() {
                        return Ok(());
                    }
                    let i = *i as usize % real.len();
                    let (Some(r), Some(m)) = (real[i].as_mut(), model[i]) else { return Ok(()) };
                    let got = mb2_model::panics::catch(|| r.next().map(|t| (t as *const _ as *const u8 as usize - base, u32::from(t.header().typ), t.header().size, t.payload().as_ptr() as usize - base, t.payload().len())));
                    if m < w.items.len() {
                        let it = w.items[m];
                        let want = Some(Some((it.off, it.typ, it.size, it.off + 8, it.size as usize - 8)));
                        if got != want {
                            return Err(format!("step {step}: iterator {i} at index {m}: expected {want:?}, got {got:?}"));
                        }
                        model[i] = Some(m + 1);
                    } else if w.panic_at == Some(m) {
                        if got.is_some() {
                            return Err(format!("step {step}: iterator {i}: the walk must end in a controlled panic at index {m}, got {got:?}"));
                        }
                        // state after a panic is unspecified: retire this iterator
                        model[i] = None;
                        real[i] = None;
                    } else {
                        // exhausted: must stay exhausted
                        if got != Some(None) {
                            return Err(format!("step {step}: iterator {i} is exhausted after {m} items, got {got:?}"));
                        }
                    }
                }
                Op::Nth(i, k) => {
                    if real.is_empty() {
                        return Ok(());
                    }
                    let i = *i as usize % real.len();
                    let k = (*k % 5) as usize;
                    let (Some(r), Some(m)) = (real[i].as_mut(), model[i]) else { return Ok(()) };
                    let got = mb2_model::panics::catch(|| r.nth(k).map(|t| t as *const _ as *const u8 as usize - base));
                    let target = m + k;
                    // the model panics if the walk's panic point lies at or before the target
                    let must_panic = w.panic_at.map_or(false, |p| p >= m && p <= target);
                    if must_panic {
                        if got.is_some() {
                            return Err(format!("step {step}: iterator {i}: nth({k}) from index {m} must end in a controlled panic (walk panics at {:?}), got {got:?}", w.panic_at));
                        }
                        model[i] = None;
                        real[i] = None;
                    } else if target < w.items.len() {
                        if got != Some(Some(w.items[target].off)) {
                            return Err(format!("step {step}: iterator {i}: nth({k}) from index {m}: expected the tag at offset {}, got {got:?}", w.items[target].off));
                        }
                        model[i] = Some(target + 1);
                    } else {
                        if got != Some(None) {
                            return Err(format!("step {step}: iterator {i}: nth({k}) from index {m} of {} items: expected None, got {got:?}", w.items.len()));
                        }
                        model[i] = Some(w.items.len());
                    }
                }
                Op::Count(i) | Op::Last(i) => {
                    if real.is_empty() {
                        return Ok(());
                    }
                    let i = *i as usize % real.len();
                    let (Some(r), Some(m)) = (real[i].as_ref(), model[i]) else { return Ok(()) };
                    let m = m.min(w.items.len());
                    let must_panic = w.panic_at.map_or(false, |p| p >= m);
                    if let Op::Count(_) = op {
                        let got = mb2_model::panics::catch(|| r.clone().count());
                        let want = if must_panic { None } else { Some(w.items.len() - m) };
                        if got != want {
                            return Err(format!("step {step}: iterator {i}: clone().count() at index {m}: expected {want:?}, got {got:?}"));
                        }
                    } else {
                        let got = mb2_model::panics::catch(|| r.clone().last().map(|t| t as *const _ as *const u8 as usize - base));
                        let want = if must_panic { None } else { Some(if m < w.items.len() { w.items.last().map(|x| x.off) } else { None }) };
                        if got != want {
                            return Err(format!("step {step}: iterator {i}: clone().last() at index {m}: expected {want:?}, got {got:?}"));
                        }
                    }
                }
                Op::ModulesNth(k) => {
                    let k = (*k % 4) as usize;
                    let mut mods = Vec::new();
                    let mut must_panic = w.panic_at.is_some();
                    for it in w.items.iter().filter(|i| i.typ == 3) {
                        if it.size < 16 {
                            must_panic = true;
                            break;
                        }
                        mods.push(it.off);
                    }
                    let got = mb2_model::panics::catch(|| mbi.module_tags().nth(k).map(|t| t as *const _ as *const u8 as usize - base));
                    // nth(k) only needs the walk up to the k-th module
                    if k < mods.len() {
                        if got != Some(Some(mods[k])) {
                            return Err(format!("step {step}: module_tags().nth({k}): expected the module at {}, got {got:?}", mods[k]));
                        }
                    } else if must_panic {
                        if got.is_some() {
                            return Err(format!("step {step}: module_tags().nth({k}) must end in a controlled panic, got {got:?}"));
                        }
                    } else if got != Some(None) {
                        return Err(format!("step {step}: module_tags().nth({k}) of {} modules: expected None, got {got:?}", mods.len()));
                    }
                    if !must_panic {
                        let c = mb2_model::panics::catch(|| mbi.module_tags().count());
                        if c != Some(mods.len()) {
                            return Err(format!("step {step}: module_tags().count(): expected {}, got {c:?}", mods.len()));
                        }
                    }
                }
                Op::Modules => {
                    let got = mb2_model::panics::catch(|| mbi.module_tags().map(|t| t as *const _ as *const u8 as usize - base).collect::<Vec<_>>());
                    let mut want = Vec::new();
                    let mut must_panic = w.panic_at.is_some();
                    for it in w.items.iter().filter(|i| i.typ == 3) {
                        if it.size < 16 {
                            must_panic = true;
                            break;
                        }
                        want.push(it.off);
                    }
                    match (got, must_panic) {
                        (None, true) => {}
                        (Some(g), false) if g == want => {}
                        (g, _) => return Err(format!("step {step}: module_tags(): expected {} {want:?}, got {g:?}", if must_panic { "panic after" } else { "exactly" })),
                    }
                }
            }

        }
        Ok(())
    }
}

fn eval_hist(c: &HistCase, obs: &mut Obs) -> Result<(), String> {
    let bytes = &c.region.0;
    if predict_mbi_load(bytes) != MbiLoad::Ok {
        obs.class("does-not-load");
        return Ok(());
    }
    let a = Aligned::new(bytes);
    // a second boot information that is alive at the same time (same total
    // size, other tag order): what is done to one must not show in the other
    let other_bytes = c.other.as_ref().map(|h| h.0.clone()).filter(|b| predict_mbi_load(b) == MbiLoad::Ok);
    let b = other_bytes.as_ref().map(|x| Aligned::new(x));
    let load = |a: &Aligned| match mb2_model::panics::catch(|| unsafe { multiboot2::BootInformation::load(a.as_ptr().cast()) }) {
        Some(Ok(m)) => Ok(m),
        other => Err(format!("model says the region loads, load returned {:?}", other.map(|r| r.err()))),
    };
    let m0 = load(&a)?;
    let m1 = match b.as_ref() {
        Some(b) => Some(load(b)?),
        None => None,
    };
    let mut objs = vec![Obj::new(&m0, a.as_ptr() as usize, bytes)];
    if let (Some(m1), Some(b), Some(ob)) = (m1.as_ref(), b.as_ref(), other_bytes.as_ref()) {
        objs.push(Obj::new(m1, b.as_ptr() as usize, ob));
    }
    for (step, op) in c.ops.iter().enumerate() {
        let which = c.on.get(step).copied().unwrap_or(0) as usize % objs.len();
        objs[which].apply(step, op).map_err(|m| if objs.len() > 1 { format!("boot information {which} of 2 alive: {m}") } else { m })?;
    }
    let mid_clone = objs.iter().any(|o| o.mid_clone);
    let two = objs.len() > 1 && c.on.iter().any(|x| x % 2 == 1) && c.on.iter().any(|x| x % 2 == 0);
    obs.class(if two { "two-alive" } else { "one-alive" });
    obs.class(if mid_clone { "!clone-mid-walk" } else { "no-mid-clone" });
    if mid_clone {
        obs.nontrivial(fnv(format!("{:?}{}", c.ops, hex(bytes)).as_bytes()));
        obs.sample(json!({"region": sample_bytes(bytes), "ops": format!("{:?}", c.ops)}));
    }
    Ok(())
}

fn hist_strategy(_: &Ctx) -> BoxedStrategy<HistCase> {
    let op = prop_oneof![
        6 => any::<u8>().prop_map(Op::Next),
        2 => any::<u8>().prop_map(Op::Clone),
        1 => Just(Op::Fresh),
        1 => Just(Op::Modules),
        2 => (any::<u8>(), any::<u8>()).prop_map(|(i, k)| Op::Nth(i, k)),
        1 => any::<u8>().prop_map(Op::Count),
        1 => any::<u8>().prop_map(Op::Last),
        1 => any::<u8>().prop_map(Op::ModulesNth),
    ];
    (
        gen::mbi_spec(8, 1),
        proptest::collection::vec(op, 1..=24),
        // second object: none / the same tags rotated by k (same total size) / an independent one
        prop_oneof![2 => Just(0u8), 3 => 1u8..8, 1 => Just(255u8)],
        gen::mbi_spec(8, 1),
        proptest::collection::vec(0u8..2, 24),
    )
        .prop_map(|(mut s, mut ops, second, mut s2, mut on)| {
            let tame = |s: &mut gen::MbiSpec| {
                for t in &mut s.tags {
                    t.n = t.n.min(8);
                    if t.kind == 7 {
                        t.kind = 3;
                    }
                    for tw in &mut t.tweaks {
                        if tw.2 & 1 != 0 {
                            tw.0 = 0;
                        }
                    }
                }
                s.end = gen::EndPolicy::Valid;
                s.ts = gen::TsTweak::None;
            };
            tame(&mut s);
            tame(&mut s2);
            ops.insert(0, Op::Fresh);
            on.insert(0, 0);
            let other = match second {
                0 => None,
                255 => Some(Hex(gen::build_mbi(&s2))),
                k => {
                    let mut r = s.clone();
                    if !r.tags.is_empty() {
                        let k = k as usize % r.tags.len();
                        r.tags.rotate_left(k);
                    }
                    Some(Hex(gen::build_mbi(&r)))
                }
            };
            if other.is_some() {
                // the second object gets a fresh iterator early on
                ops.insert(1, Op::Fresh);
                on.insert(1, 1);
            }
            HistCase { region: Hex(gen::build_mbi(&s)), ops, other, on }
        })
        .boxed()
}

// --- walks with more tags than a 16-bit counter counts ---------------------------------

fn long_walk_ok(n: usize) -> Result<(), String> {
    // n header-only custom tags, two module tags, the end tag
    let mut tags: Vec<Vec<u8>> = (0..n).map(|i| mb2_model::encode::tag(0x100 + (i % 7) as u32, &[])).collect();
    let m = mb2_model::encode::conformant_tag(3, 0x3A, 3, 0);
    tags.push(m.clone());
    tags.push(m);
    let region = mb2_model::encode::mbi(&tags, 0, 0, true);
    let a = Aligned::new(&region);
    let base = a.as_ptr() as usize;
    let r = mb2_model::panics::catch(|| -> Result<(), String> {
        let mbi = unsafe { multiboot2::BootInformation::load(a.as_ptr().cast()) }.map_err(|e| format!("does not load: {e:?}"))?;
        let total = n + 3;
        let mut seen = 0usize;
        for (i, t) in mbi.tags().enumerate() {
            let off = t as *const _ as *const u8 as usize - base;
            let want = if i <= n { 8 + 8 * i } else { 8 + 8 * n + r8(le32(&region, 8 + 8 * n + 4) as usize) * (i - n) };
            if off != want {
                return Err(format!("item {i} at offset {off}, the walk has it at {want}"));
            }
            seen += 1;
        }
        if seen != total {
            return Err(format!("{seen} tags yielded, the walk has {total}"));
        }
        if mbi.tags().count() != total {
            return Err(format!("count() = {}, the walk has {total} tags", mbi.tags().count()));
        }
        for k in [65534usize, 65535, 65536, n, n + 1, n + 2] {
            if k < total && mbi.tags().nth(k).is_none() {
                return Err(format!("nth({k}) is None, the walk has {total} tags"));
            }
        }
        let mods = mbi.module_tags().count();
        if mods != 2 {
            return Err(format!("module_tags() yields {mods} modules, the walk has 2 (behind {n} other tags)"));
        }
        if mbi.tags().last().map(|t| u32::from(t.header().typ)) != Some(0) {
            return Err("last() is not the end tag".into());
        }
        Ok(())
    });
    r.unwrap_or_else(|| Err("the walk panicked on a well-formed region".into()))
}

fn run_long(ctx: &Ctx, rep: &mut SubReport) {
    for (i, n) in [65533usize, 65534, 65535, 65536, 70000, 131072].into_iter().enumerate() {
        if !ctx.mine(i as u64) {
            continue;
        }
        rep.evaluations += 1;
        rep.nontrivial.insert(n as u64);
        if let Err(m) = long_walk_ok(n) {
            rep.violations.push(Violation { sub: "long-walks".into(), profile: profile_name().into(), message: format!("well-formed region with {n} header-only tags and two modules: {m}"), case: json!({"n": n}) });
            return;
        }
    }
    rep.samples.push(json!({"tags": 65536, "expect": "all yielded in place, modules behind them found"}));
}

fn replay_long(v: &serde_json::Value) -> Result<(), String> {
    long_walk_ok(v["n"].as_u64().unwrap_or(65536) as usize)
}

pub fn subs() -> Vec<Box<dyn Sub>> {
    vec![
        Box::new(LoopSub {
            name: "long-walks",
            profiles: Profiles::Both,
            rule: "well-formed regions that really hold 65533 .. 131072 header-only tags followed by two module tags (0.5 - 1 MB): every tag is yielded at its place, count()/nth() at and around 2^16 and last() agree, module_tags() finds both modules. Non-trivial = every case",
            run: run_long,
            replay: replay_long,
        }),
        Box::new(PropSub::<Case> {
            name: "walk",
            rule: "tags()/module_tags() vs the reference walk (address offsets, stored type/size, payload extent, panic step, stays exhausted). Enumerated: every region of 1..=5 (thorough 6) payload words, DFS over the size word 0..=remaining+9 at each visited offset. Generated: up to 24 tags with tampered size words (all residues mod 8, beyond the region), missing/invalid end tags. Non-trivial = >=2 tags with a size not a multiple of 8, or a walk the model ends in a panic; distinct by region hash",
            profiles: Profiles::Both,
            quick: 40000,
            thorough: 3000000,
            strategy,
            enumerate: Some(enumerate),
            enum_exhaustive: false,
            eval,
        }),
        Box::new(PropSub::<HistCase> {
            name: "histories",
            rule: "up to 24 operations {next(i), clone(i), fresh, nth(i,k), clone(i).count(), clone(i).last(), module_tags, module_tags().nth(k)/count()} over up to 4 iterators per boot information; in two thirds of the cases a second boot information is alive at the same time (the same tags rotated, hence the same total size, or an independent one) and each operation addresses one of the two; model = index into the reference walk of the addressed object; checks repeatability across clones/fresh iterators, exhaustion, panic step. Non-trivial = history with a clone taken mid-walk; distinct by (ops, region)",
            profiles: Profiles::Both,
            quick: 30000,
            thorough: 2500000,
            strategy: hist_strategy,
            enumerate: None,
            enum_exhaustive: false,
            eval: eval_hist,
        }),
    ]
}
