//! C20 - type-identifier conversions are lossless and consistent for all 2^32
//! values.

use crate::runner::*;
use mb2_model::expect_mbi::elf_type_name;
use mb2_model::*;
use multiboot2 as m;
use serde_json::{json, Value};

const NAMES: [&str; 22] = [
    "End", "Cmdline", "BootLoaderName", "Module", "BasicMeminfo", "Bootdev", "Mmap", "Vbe", "Framebuffer", "ElfSections", "Apm", "Efi32", "Efi64", "Smbios", "AcpiV1", "AcpiV2", "Network",
    "EfiMmap", "EfiBs", "Efi32Ih", "Efi64Ih", "LoadBaseAddr",
];
const VARIANTS: [m::TagType; 22] = [
    m::TagType::End,
    m::TagType::Cmdline,
    m::TagType::BootLoaderName,
    m::TagType::Module,
    m::TagType::BasicMeminfo,
    m::TagType::Bootdev,
    m::TagType::Mmap,
    m::TagType::Vbe,
    m::TagType::Framebuffer,
    m::TagType::ElfSections,
    m::TagType::Apm,
    m::TagType::Efi32,
    m::TagType::Efi64,
    m::TagType::Smbios,
    m::TagType::AcpiV1,
    m::TagType::AcpiV2,
    m::TagType::Network,
    m::TagType::EfiMmap,
    m::TagType::EfiBs,
    m::TagType::Efi32Ih,
    m::TagType::Efi64Ih,
    m::TagType::LoadBaseAddr,
];
const AREA_VARIANTS: [m::MemoryAreaType; 5] = [m::MemoryAreaType::Available, m::MemoryAreaType::Reserved, m::MemoryAreaType::AcpiAvailable, m::MemoryAreaType::ReservedHibernate, m::MemoryAreaType::Defective];
const AREA_NAMES: [&str; 6] = ["", "Available", "Reserved", "AcpiAvailable", "ReservedHibernate", "Defective"];

/// All conversion/equality laws for one value. `deep`: also the Debug names.
fn laws(v: u32, deep: bool) -> Result<(), String> {
    let tt = m::TagType::from(v);
    if u32::from(tt) != v || tt.val() != v {
        return Err(format!("u32 -> TagType -> u32: {v} became {}", u32::from(tt)));
    }
    let named = !matches!(tt, m::TagType::Custom(_));
    if named != (v <= 21) {
        return Err(format!("{v}: named variant = {named}, the specification names exactly 0..=21"));
    }
    if let m::TagType::Custom(c) = tt {
        if c != v {
            return Err(format!("{v} became Custom({c})"));
        }
    }
    let id = m::TagTypeId::from(v);
    let id2 = m::TagTypeId::new(v);
    let id3 = m::TagTypeId::from(tt);
    if u32::from(id) != v || id != id2 || id != id3 || m::TagType::from(id) != tt {
        return Err(format!("{v}: conversions through TagTypeId do not commute with the direct ones"));
    }
    for o in [v, v ^ 1, v.wrapping_add(1), 0, 21, 22, v % 22, (v >> 8) % 22] {
        let e = o == v;
        let ot = m::TagType::from(o);
        let oi = m::TagTypeId::from(o);
        let got = [tt == o, o == tt, id == o, o == id, tt == oi, oi == tt, id == ot, ot == id, tt == ot, id == oi];
        if got.iter().any(|g| *g != e) {
            return Err(format!("equality between {v} and {o} across u32/TagTypeId/TagType: {got:?}, numeric equality is {e}"));
        }
    }
    // a directly constructed Custom(v) has the numeric value v, whatever v is
    let cu = m::TagType::Custom(v);
    if u32::from(cu) != v || cu.val() != v || u32::from(m::TagTypeId::from(cu)) != v {
        return Err(format!("Custom({v}) converts to {}", u32::from(cu)));
    }
    for o in [v, v ^ 1, v.wrapping_add(1), 0, 21, 22] {
        let e = o == v;
        let oi = m::TagTypeId::from(o);
        let got = [cu == o, o == cu, cu == oi, oi == cu];
        if got.iter().any(|g| *g != e) {
            return Err(format!("equality between Custom({v}) and the number/id {o}: {got:?}, numeric equality is {e}"));
        }
    }
    let ca = m::MemoryAreaType::Custom(v);
    if u32::from(m::MemoryAreaTypeId::from(ca)) != v {
        return Err(format!("MemoryAreaType::Custom({v}) converts to {}", u32::from(m::MemoryAreaTypeId::from(ca))));
    }
    for o in [v, v ^ 1, 1, 5, 6] {
        let e = o == v;
        let oid = m::MemoryAreaTypeId::from(o);
        if (ca == oid) != e || (oid == ca) != e {
            return Err(format!("equality between MemoryAreaType::Custom({v}) and the id {o} disagrees with numeric equality"));
        }
    }
    // memory area types
    let aid = m::MemoryAreaTypeId::from(v);
    let at = m::MemoryAreaType::from(aid);
    if u32::from(aid) != v || u32::from(m::MemoryAreaTypeId::from(at)) != v {
        return Err(format!("memory-area type {v} does not round-trip"));
    }
    let anamed = !matches!(at, m::MemoryAreaType::Custom(_));
    if anamed != (1..=5).contains(&v) {
        return Err(format!("memory-area type {v}: named = {anamed}, the specification names exactly 1..=5"));
    }
    for o in [v, v ^ 1, v.wrapping_add(1), 0, 1, 2, 3, 4, 5, 6] {
        let e = o == v;
        let oid = m::MemoryAreaTypeId::from(o);
        let ot = m::MemoryAreaType::from(oid);
        let got = [aid == ot, ot == aid, at == oid, oid == at, aid == oid, at == ot];
        if got.iter().any(|g| *g != e) {
            return Err(format!("memory-area equality between {v} and {o}: {got:?}, numeric equality is {e}"));
        }
    }
    if deep {
        // the specification's table, by variant (not by any textual rendering)
        let want = if v <= 21 { VARIANTS[v as usize] } else { m::TagType::Custom(v) };
        if tt != want {
            return Err(format!("{v} maps to {tt:?}, the specification's table says {} ({want:?})", if v <= 21 { NAMES[v as usize] } else { "Custom" }));
        }
        let want = if (1..=5).contains(&v) { AREA_VARIANTS[v as usize - 1] } else { m::MemoryAreaType::Custom(v) };
        if at != want {
            return Err(format!("memory-area type {v} maps to {at:?}, the specification says {} ({want:?})", if (1..=5).contains(&v) { AREA_NAMES[v as usize] } else { "Custom" }));
        }
    }
    Ok(())
}

/// ELF raw-type classification for `count` consecutive raw values starting at
/// `start`, through a crafted ELF64 table and the public iterator.
fn elf_batch(start: u32, count: usize) -> Result<(), String> {
    let mut body = vec![0u8; 12 + 64 * count];
    put32(&mut body, 0, count as u32);
    put32(&mut body, 4, 64);
    put32(&mut body, 8, 0);
    for e in 0..count {
        put32(&mut body, 12 + 64 * e + 4, start.wrapping_add(e as u32));
        put64(&mut body, 12 + 64 * e + 16, e as u64); // addr = index
    }
    let mut img = mb2_model::encode::tag(9, &body);
    mb2_model::encode::pad8(&mut img, 0);
    let a = Aligned::new(&img);
    let tag = multiboot2_common::DynSizedStructure::<m::TagHeader>::ref_from_slice(a.as_slice()).map_err(|e| format!("{e:?}"))?;
    let tag = tag.cast::<m::ElfSectionsTag>();
    let mut it = tag.sections();
    for e in 0..count {
        let raw = start.wrapping_add(e as u32);
        let name = elf_type_name(raw);
        if name == "Unused" {
            continue;
        }
        match it.next() {
            Some(s) if s.start_address() == e as u64 && s.section_type_raw() == raw => {
                let got = s.section_type() as u32;
                if got != mb2_model::expect_mbi::elf_type_class(raw) {
                    return Err(format!("ELF raw type {raw:#x} classified as {:?}, documented: {name}", s.section_type()));
                }
            }
            Some(s) => return Err(format!("ELF raw type {raw:#x} ({name}) expected next, the iterator yielded entry {} with raw type {:#x}", s.start_address(), s.section_type_raw())),
            None => return Err(format!("ELF raw type {raw:#x} ({name}) is in use but was skipped")),
        }
    }
    if let Some(s) = it.next() {
        return Err(format!("the iterator yielded an unused entry: raw type {:#x}", s.section_type_raw()));
    }
    Ok(())
}

/// An ELF64 table with the given (raw type, flags) headers: the iterator yields
/// exactly the in-use ones, in order, each classified as documented - whatever
/// the flags and whatever the neighbouring headers are.
fn elf_custom(entries: &[(u32, u64)]) -> Result<(), String> {
    elf_custom_named(entries, None)
}

/// `names`: Some(base) - every header's address is the harness-owned names buffer
/// (header 0 is the string table) and its name is one of the names linkers emit,
/// rotating; the header index is then carried by the size field instead of the address.
fn elf_custom_named(entries: &[(u32, u64)], names: Option<usize>) -> Result<(), String> {
    let count = entries.len();
    let mut body = vec![0u8; 12 + 64 * count];
    put32(&mut body, 0, count as u32);
    put32(&mut body, 4, 64);
    put32(&mut body, 8, 0);
    for (e, (t, f)) in entries.iter().enumerate() {
        put32(&mut body, 12 + 64 * e + 4, *t);
        put64(&mut body, 12 + 64 * e + 8, *f);
        put64(&mut body, 12 + 64 * e + 16, e as u64);
        if let Some(b) = names {
            put32(&mut body, 12 + 64 * e, mb2_model::elfnames::real_name_off(e));
            put64(&mut body, 12 + 64 * e + 16, b as u64);
            put64(&mut body, 12 + 64 * e + 32, e as u64);
        }
    }
    let mut img = mb2_model::encode::tag(9, &body);
    mb2_model::encode::pad8(&mut img, 0);
    let a = Aligned::new(&img);
    let tag = multiboot2_common::DynSizedStructure::<m::TagHeader>::ref_from_slice(a.as_slice()).map_err(|e| format!("{e:?}"))?;
    let tag = tag.cast::<m::ElfSectionsTag>();
    let mut it = tag.sections();
    let index_of = |s: &m::ElfSection| if names.is_some() { s.size() } else { s.start_address() };
    for (e, (raw, f)) in entries.iter().enumerate() {
        if elf_type_name(*raw) == "Unused" {
            continue;
        }
        match it.next() {
            Some(s) if index_of(&s) == e as u64 && s.section_type_raw() == *raw => {
                if s.section_type() as u32 != mb2_model::expect_mbi::elf_type_class(*raw) {
                    return Err(format!("ELF raw type {raw:#x} with flags {f:#x}{} (header {e} of {count}) classified as {:?}, documented: {}", if names.is_some() { format!(", named {:?}", mb2_model::elfnames::REAL_NAMES[e % mb2_model::elfnames::REAL_NAMES.len()]) } else { String::new() }, s.section_type(), elf_type_name(*raw)));
                }
            }
            Some(s) => return Err(format!("header {e} (raw type {raw:#x}, flags {f:#x}, {}) expected next, the iterator yielded header {} with raw type {:#x}", elf_type_name(*raw), index_of(&s), s.section_type_raw())),
            None => return Err(format!("header {e} (raw type {raw:#x}, flags {f:#x}) is in use ({}) but was skipped", elf_type_name(*raw))),
        }
    }
    if let Some(s) = it.next() {
        return Err(format!("the iterator yielded an unused header: index {} raw type {:#x} flags {:#x}", index_of(&s), s.section_type_raw(), s.flags().bits()));
    }
    Ok(())
}

/// Tables in which classification could depend on more than the raw type: every
/// small raw type with every combination of the three flag bits, and for every
/// in-use type k and every bit b the neighbours (k ^ 2^b, k) and (k, k ^ 2^b)
/// at both parities of the header index.
fn elf_contexts() -> Result<u64, String> {
    let mut n = 0u64;
    for flags in 0..8u64 {
        for base in [0u32, 0x5FFF_FFF0, 0x6FFF_FFF0, 0x7FFF_FFF0] {
            let entries: Vec<(u32, u64)> = (0..64).map(|i| (base.wrapping_add(i), flags | if i % 2 == 0 { 0 } else { 0xFFFF_FFFF_FFFF_FFF8 })).collect();
            elf_custom(&entries)?;
            n += 64;
        }
    }
    // every boundary raw type under every name linkers emit (the classification is
    // a function of the raw type: not of what the section is called)
    if let Some(base) = mb2_model::elfnames::base() {
        let raws: Vec<u32> = (0..=16).chain([0x5FFF_FFFF, 0x6000_0000, 0x6000_0001, 0x6FFF_FFF5, 0x6FFF_FFFF, 0x7000_0000, 0x7000_0001, 0x7000_0002, 0x7FFF_FFFF, 0x8000_0000, u32::MAX]).collect();
        let nn = mb2_model::elfnames::REAL_NAMES.len();
        for raw in raws {
            // header 0: the string table itself; then the raw type once per name
            let mut entries: Vec<(u32, u64)> = vec![(3, 0)];
            entries.extend((0..nn).map(|_| (raw, 2u64)));
            elf_custom_named(&entries, Some(base))?;
            n += nn as u64;
        }
    }
    let known: Vec<u32> = (1..=11).chain([0x6000_0000, 0x6FFF_FFFF, 0x7000_0000, 0x7FFF_FFFF]).collect();
    for b in 0..32u32 {
        let mut entries: Vec<(u32, u64)> = Vec::new();
        for k in &known {
            let u = k ^ (1 << b);
            entries.extend([(u, 2), (*k, 2), (u, 6), (*k, 6)]);
        }
        // the same pairs shifted by one header
        let mut shifted = vec![(0u32, 0u64)];
        shifted.extend(entries.iter().cloned());
        elf_custom(&entries)?;
        elf_custom(&shifted)?;
        let rev: Vec<(u32, u64)> = entries.iter().rev().cloned().collect();
        elf_custom(&rev)?;
        n += 3 * entries.len() as u64;
    }
    Ok(n)
}

/// `batches` consecutive ELF batches of 4096 raw values in a forked child, so
/// that a fault while classifying (the property says classification is
/// total) is a verdict about the library and not the end of the worker.
fn elf_batches_in_child(start: u32, batches: usize, last_count: usize) -> Result<(), (u32, String)> {
    let r = mb2_sandbox::run_child(|| {
        let mut s = start;
        for b in 0..batches {
            let c = if b + 1 == batches { last_count } else { 4096 };
            match mb2_model::panics::catch(|| elf_batch(s, c)) {
                Some(Ok(())) => {}
                Some(Err(m)) => return format!("E {s} {m}").into_bytes(),
                None => return format!("E {s} ELF iteration panicked on a well-formed table").into_bytes(),
            }
            s = s.wrapping_add(c as u32);
        }
        b"OK".to_vec()
    });
    match r {
        mb2_sandbox::ChildResult::Done(b) if b == b"OK" => Ok(()),
        mb2_sandbox::ChildResult::Done(b) => {
            let t = String::from_utf8_lossy(&b).into_owned();
            let mut it = t.splitn(3, ' ');
            it.next();
            let at = it.next().and_then(|x| x.parse().ok()).unwrap_or(start);
            Err((at, it.next().unwrap_or("").to_string()))
        }
        mb2_sandbox::ChildResult::Signal(sig) => Err((start, format!("classifying the ELF raw types of a well-formed table starting at {start:#x} crashed the process (signal {sig})"))),
        mb2_sandbox::ChildResult::Timeout => Err((start, "INCONCLUSIVE watchdog".into())),
        mb2_sandbox::ChildResult::Broken(c) => Err((start, format!("INCONCLUSIVE child broke ({c})"))),
    }
}

fn framebuffer_all() -> Result<(), String> {
    for b in 0..=511u32 {
        // with and without colour-info bytes behind the fixed part
        let n = if b < 256 { 2 } else { 0 };
        let b = b & 0xff;
        let img = mb2_model::encode::conformant_tag(8, 0xC20, n, b);
        let a = Aligned::new(&{
            let mut i = img.clone();
            mb2_model::encode::pad8(&mut i, 0);
            i
        });
        let tag = multiboot2_common::DynSizedStructure::<m::TagHeader>::ref_from_slice(a.as_slice()).map_err(|e| format!("{e:?}"))?;
        let tag = tag.cast::<m::FramebufferTag>();
        let got = tag.buffer_type();
        let ok = match (b, &got) {
            (0, Ok(m::FramebufferType::Indexed { .. })) | (1, Ok(m::FramebufferType::RGB { .. })) | (2, Ok(m::FramebufferType::Text)) => true,
            (x, Err(e)) if x > 2 => mb2_model::exercise_mbi::fb_err(e) == mb2_model::Val::Err(format!("unknown-framebuffer-type:{x}")),
            _ => false,
        };
        if !ok {
            return Err(format!("framebuffer type byte {b} classified as {got:?}"));
        }
    }
    Ok(())
}

/// The framebuffer type byte classified through the getter of a loaded boot
/// information, with conventional addresses and with other tags present: the
/// classification depends on the type byte alone.
fn framebuffer_in_mbi() -> Result<u64, String> {
    let companions: [&[u32]; 7] = [&[], &[11], &[12], &[11, 12], &[17, 18], &[1, 2, 3, 4, 5, 6, 7], &[9, 10, 13, 14, 15, 16, 19, 20, 21]];
    let mut n = 0u64;
    for b in 0..=255u32 {
        for (ai, addr) in mb2_model::realistic::FB_ADDRS.iter().enumerate() {
            for (ci, comp) in companions.iter().enumerate() {
                // all combinations for the defined types and a few unknown ones, a diagonal for the rest
                if b > 4 && (ai + ci + b as usize) % 7 != 0 {
                    continue;
                }
                let mut fb = mb2_model::encode::conformant_tag(8, 0xC20 + b as u64, if b == 0 { 2 } else { 0 }, b);
                put64(&mut fb, 8, *addr);
                let mut tags: Vec<Vec<u8>> = comp.iter().map(|k| mb2_model::encode::conformant_tag(*k, 0xC0 + *k as u64, 2, 1)).collect();
                tags.insert(ci % (tags.len() + 1), fb);
                let region = mb2_model::encode::mbi(&tags, 0, 0, true);
                let a = Aligned::new(&region);
                let mbi = unsafe { m::BootInformation::load(a.as_ptr().cast()) }.map_err(|e| format!("conformant boot information does not load: {e:?}"))?;
                let got = mbi.framebuffer_tag();
                let ok = match (b, &got) {
                    (0..=2, Some(Ok(t))) => matches!((b, t.buffer_type()), (0, Ok(m::FramebufferType::Indexed { .. })) | (1, Ok(m::FramebufferType::RGB { .. })) | (2, Ok(m::FramebufferType::Text))),
                    (x, Some(Err(e))) if x > 2 => mb2_model::exercise_mbi::fb_err(e) == mb2_model::Val::Err(format!("unknown-framebuffer-type:{x}")),
                    _ => false,
                };
                if !ok {
                    return Err(format!("framebuffer type byte {b} (address {addr:#x}, other tags {comp:?}) through the getter of a loaded boot information: classified as {}", match &got { None => "absent".to_string(), Some(Ok(t)) => format!("{:?}", t.buffer_type()), Some(Err(e)) => format!("Err({e:?})") }));
                }
                n += 1;
            }
        }
    }
    Ok(n)
}

/// The panic=abort build of the crates (the `abortprobe` binary, built by the
/// check script) classifies conformant framebuffer tags - stand-alone and
/// through the getter of a loaded boot information - and prints one line per
/// case. Returns the number of compared lines, or a note when the probe is
/// not available.
fn abort_probe() -> Result<Result<u64, String>, String> {
    let dir = std::env::var("VERIF_DIR").unwrap_or_else(|_| "/verif".into());
    let bin = std::path::Path::new(&dir).join("abortprobe/target/release/mb2-abortprobe");
    if !bin.exists() {
        return Ok(Err("panic=abort probe not built (see out/abortprobe-build.log): that configuration was not examined in this run".into()));
    }
    let out = match std::process::Command::new(&bin).output() {
        Ok(o) => o,
        Err(e) => return Ok(Err(format!("panic=abort probe could not be started: {e}"))),
    };
    let text = String::from_utf8_lossy(&out.stdout).into_owned();
    if !out.status.success() {
        let last = text.lines().last().unwrap_or("(no output)");
        return Err(format!("built with panic=abort, classifying conformant framebuffer tags ended the process ({:?}); last completed case: `{last}`", out.status));
    }
    let mut n = 0u64;
    for line in text.lines() {
        let Some((case, got)) = line.split_once(" -> ") else { continue };
        let f: Vec<&str> = case.split(' ').collect();
        if f.len() != 4 {
            continue;
        }
        let (ty, colours): (u32, u32) = (f[0].parse().unwrap_or(999), f[1].parse().unwrap_or(0));
        let want = match ty {
            0 => format!("indexed:{colours}"),
            1 => "rgb".to_string(),
            2 => "text".to_string(),
            x => format!("unknown:{x}"),
        };
        if got != want {
            return Err(format!("built with panic=abort: framebuffer type byte {ty} with {colours} palette entries and {} slack bytes ({}) is classified as `{got}`, documented: `{want}`", f[2], f[3]));
        }
        n += 1;
    }
    if n < 1000 {
        return Ok(Err(format!("panic=abort probe printed only {n} cases")));
    }
    Ok(Ok(n))
}

fn run(ctx: &Ctx, rep: &mut SubReport) {
    let fail = |rep: &mut SubReport, what: &str, v: u32, m: String| {
        rep.violations.push(Violation { sub: "conversions".into(), profile: profile_name().into(), message: m, case: json!({"what": what, "v": v}) });
    };
    if m::MAGIC != 0x36D7_6289 || multiboot2_header::MAGIC != 0xE852_50D6 {
        fail(rep, "magic", 0, format!("exported magics {:#x} / {:#x}", m::MAGIC, multiboot2_header::MAGIC));
        return;
    }
    if ctx.worker == 0 {
        match mb2_model::panics::catch(framebuffer_all) {
            Some(Ok(())) => rep.evaluations += 512,
            Some(Err(msg)) => {
                fail(rep, "framebuffer", 0, msg);
                return;
            }
            None => {
                fail(rep, "framebuffer", 0, "buffer_type() panicked for a conformant tag".into());
                return;
            }
        }
    }
    if ctx.worker == 1 % ctx.workers {
        match mb2_model::panics::catch(framebuffer_in_mbi) {
            Some(Ok(n)) => rep.evaluations += n,
            Some(Err(msg)) => {
                fail(rep, "framebuffer-mbi", 0, msg);
                return;
            }
            None => {
                fail(rep, "framebuffer-mbi", 0, "framebuffer_tag() panicked for a conformant boot information".into());
                return;
            }
        }
    }
    if ctx.worker == 2 % ctx.workers {
        let r = mb2_sandbox::run_child(|| match mb2_model::panics::catch(elf_contexts) {
            Some(Ok(n)) => format!("OK {n}").into_bytes(),
            Some(Err(m)) => format!("E {m}").into_bytes(),
            None => b"E ELF iteration panicked on a well-formed table".to_vec(),
        });
        match r {
            mb2_sandbox::ChildResult::Done(b) if b.starts_with(b"OK ") => rep.evaluations += String::from_utf8_lossy(&b[3..]).parse::<u64>().unwrap_or(0),
            mb2_sandbox::ChildResult::Done(b) => {
                fail(rep, "elf-contexts", 0, String::from_utf8_lossy(&b[2.min(b.len())..]).into_owned());
                return;
            }
            mb2_sandbox::ChildResult::Signal(sig) => {
                fail(rep, "elf-contexts", 0, format!("classifying ELF headers crashed the process (signal {sig})"));
                return;
            }
            _ => rep.inconclusive.push("elf-contexts: child did not report".into()),
        }
    }
    if ctx.worker == 3 % ctx.workers && profile_name() == "release" {
        match abort_probe() {
            Ok(Ok(n)) => {
                rep.evaluations += n;
                rep.notes.push(format!("{n} classifications compared in the panic=abort build of the crates"));
            }
            Ok(Err(note)) => rep.notes.push(note),
            Err(m) => {
                fail(rep, "abort-probe", 0, m);
                return;
            }
        }
    }
    let full = ctx.tier == Tier::Thorough && profile_name() == "release";
    let mut check = |rep: &mut SubReport, v: u32, deep: bool| -> bool {
        match mb2_model::panics::catch(|| laws(v, deep)) {
            Some(Ok(())) => true,
            Some(Err(m)) => {
                fail(rep, "laws", v, m);
                false
            }
            None => {
                fail(rep, "laws", v, format!("a conversion panicked for {v}"));
                false
            }
        }
    };
    if full {
        let n = 1u64 << 32;
        let lo = n * ctx.worker as u64 / ctx.workers as u64;
        let hi = n * (ctx.worker as u64 + 1) / ctx.workers as u64;
        for v in lo..hi {
            let v = v as u32;
            if !check(rep, v, v & 0xFFF == 0 || v < 64) {
                return;
            }
        }
        rep.evaluations += hi - lo;
        let mut s = lo;
        while s < hi {
            let c = ((hi - s) as usize).min(4096 * 256);
            let batches = (c + 4095) / 4096;
            let last = c - (batches - 1) * 4096;
            if let Err((at, m)) = elf_batches_in_child(s as u32, batches, last) {
                if m.starts_with("INCONCLUSIVE") {
                    rep.inconclusive.push(m);
                } else {
                    fail(rep, "elf", at, m);
                }
                return;
            }
            s += c as u64;
        }
        rep.evaluations += hi - lo;
        for v in lo..(lo + (1 << 15)).min(hi) {
            if v > 21 {
                rep.nontrivial.insert(v);
            }
        }
        rep.exhaustive = true;
        rep.notes.push("all 2^32 values enumerated for tag types, memory-area types and ELF section types (release); distinct set records a 2^15 prefix per worker".into());
    } else {
        let mut vs: Vec<u32> = (0..(1u32 << 16)).filter(|x| ctx.mine(*x as u64)).collect();
        for k in 0..32 {
            for d in 0..=16u32 {
                vs.push((1u32 << k).wrapping_sub(d));
                vs.push((1u32 << k).wrapping_add(d));
            }
        }
        for base in [0x5FFF_FFF0u32, 0x6FFF_FFF0, 0x7FFF_FFF0, 0xFFFF_FFE0, 0] {
            for d in 0..32 {
                vs.push(base.wrapping_add(d));
            }
        }
        let mut s = ctx.seed.wrapping_mul(0x9E3779B97F4A7C15) ^ (ctx.worker as u64 + 1234);
        for _ in 0..(1 << 16) {
            s ^= s << 13;
            s ^= s >> 7;
            s ^= s << 17;
            vs.push(s as u32);
        }
        for v in &vs {
            if !check(rep, *v, true) {
                return;
            }
            rep.evaluations += 1;
            if *v > 21 {
                rep.nontrivial.insert(*v as u64);
            }
        }
        // ELF: batches around every class boundary + sampled batches
        let mut starts: Vec<u32> = vec![0, 0x5FFF_F800, 0x6000_0000 - 16, 0x6FFF_F800, 0x7000_0000 - 16, 0x7FFF_F800, 0x8000_0000 - 16, 0xFFFF_F000];
        for v in vs.iter().step_by(97).take(200) {
            starts.push(*v);
        }
        for st in starts {
            if !ctx.mine(st as u64 / 7) {
                continue;
            }
            match elf_batches_in_child(st, 1, 4096) {
                Ok(()) => rep.evaluations += 4096,
                Err((_, m)) if m.starts_with("INCONCLUSIVE") => {
                    rep.inconclusive.push(m);
                    return;
                }
                Err((at, m)) => {
                    fail(rep, "elf", at, m);
                    return;
                }
            }
        }
    }
    rep.samples.push(json!({"v": 22, "expect": "Custom(22)"}));
    rep.samples.push(json!({"elf_raw_type": "0x6fffffff", "expect": "EnvironmentSpecific"}));
    rep.samples.push(json!({"framebuffer_type_byte": 3, "expect": "Err(Unknown framebuffer type 3)"}));
}

fn replay(v: &Value) -> Result<(), String> {
    let x = v["v"].as_u64().unwrap_or(0) as u32;
    match v["what"].as_str().unwrap_or("") {
        "laws" => mb2_model::panics::catch(|| laws(x, true)).unwrap_or_else(|| Err("panicked".into())),
        "elf" => elf_batches_in_child(x, 1, 4096).map_err(|e| e.1),
        "framebuffer" => mb2_model::panics::catch(framebuffer_all).unwrap_or_else(|| Err("panicked".into())),
        "elf-contexts" => mb2_model::panics::catch(elf_contexts).unwrap_or_else(|| Err("panicked".into())).map(|_| ()),
        "abort-probe" => match abort_probe() {
            Ok(_) => Ok(()),
            Err(m) => Err(m),
        },
        "framebuffer-mbi" => mb2_model::panics::catch(framebuffer_in_mbi).unwrap_or_else(|| Err("panicked".into())).map(|_| ()),
        _ => Ok(()),
    }
}

pub fn subs() -> Vec<Box<dyn Sub>> {
    vec![Box::new(LoopSub {
        name: "conversions",
        profiles: Profiles::Both,
        rule: "for a 32-bit value v: u32->TagType->u32 identity, named iff v<=21 with the specification's names, Custom(v) otherwise; TagTypeId paths commute; == between u32/TagTypeId/TagType in all directions against v, v^1, v+1, 0, 21, 22 equals numeric equality; MemoryAreaType (1..=5 named) both directions and cross ==; ELF raw-type classification through crafted ELF64 tables of 4096 consecutive raw values (iterator yields exactly the in-use classes with the documented names), and in context: every raw type 0..=63 and around each class boundary x all 8 combinations of the low flag bits (high flag bits all set in every second header), every boundary raw type under each of 14 section names that linkers emit (resolvable through a valid string table), and for every in-use type k and every bit b the neighbouring headers (k ^ 2^b, k) in both orders and at both index parities; all 256 framebuffer type bytes on a stand-alone tag, and through the getter of a loaded boot information with 6 conventional framebuffer addresses (EGA text, VGA, PCI BARs) x 7 sets of other tags present (none, EFI system tables, EFI map + boot services, ...); the same classification in a build of the crates with panic=abort (a probe binary that prints 1036 classifications - all type bytes, exact-fit and slack palettes, stand-alone and through the getter); both exported magics. Thorough/release: all 2^32 values (exhaustive); otherwise all v<2^16, 2^k+-16, class boundaries, 2^16 seeded samples, ELF batches at every class boundary + 200 sampled. Non-trivial = v > 21; distinct by v",
        run,
        replay,
    })]
}
