//! C19 - ELF-section iteration decodes 32/64-bit entries in order, inside the tag.

use crate::runner::*;
use crate::sbx::{self, Boxed, Place};
use mb2_model::expect_mbi::{decode_elf_entry, elf_in_use, elf_shape, ElfShape};
use mb2_model::transcript::{Rec, Transcript, Val};
use mb2_model::*;
use proptest::prelude::*;
use serde::{Deserialize, Serialize};
use serde_json::json;
use std::sync::OnceLock;

#[derive(Clone, Debug, Serialize, Deserialize)]
pub struct Case {
    pub n: u32,
    pub entsize: u32,
    pub shndx: u32,
    /// length of the section-header bytes in the tag
    pub table_len: usize,
    /// raw type word per entry (for as many entries as fit)
    pub types: Vec<u32>,
    pub key: u64,
    /// every entry's sh_link holds a small index (as in real section tables)
    /// instead of marker bytes
    #[serde(default)]
    pub small_links: bool,
}

/// Reserved ELF section indices (SHN_LORESERVE, SHN_ABS, SHN_COMMON, SHN_XINDEX)
/// and their neighbours: as a string-table index they are ordinary numbers.
const SHN_SPECIAL: [u32; 7] = [0xff00, 0xff1f, 0xfff1, 0xfff2, 0xfffe, 0xffff, 0x1_0000];

use mb2_model::elfnames::{model_name, names, NAME_OFFS};

fn image(c: &Case) -> Vec<u8> {
    let mut body: Vec<u8> = (0..12 + c.table_len).map(|i| marker(c.key, i)).collect();
    put32(&mut body, 0, c.n);
    put32(&mut body, 4, c.entsize);
    put32(&mut body, 8, c.shndx);
    let es = c.entsize as usize;
    if es == 40 || es == 64 {
        let fit = c.table_len / es;
        for e in 0..fit {
            let at = 12 + e * es;
            put32(&mut body, at, NAME_OFFS[(c.key as usize + e) % NAME_OFFS.len()]);
            if let Some(t) = c.types.get(e) {
                put32(&mut body, at + 4, *t);
            }
            // every entry's addr field points at the names: whichever entry the
            // tag designates as string table, name() stays inside owned memory
            let p = names32() as u64;
            if es == 40 {
                // a 32-bit layout cannot hold a 64-bit pointer; see `names32`
                put32(&mut body, at + 12, names32() as u32);
            } else {
                put64(&mut body, at + 16, p);
            }
            // in three of four tables every header's size field is the true size of
            // the names (so that every name lies inside "its" string table)
            if c.key & 0xC0 != 0xC0 {
                let n = mb2_model::elfnames::names().len() as u64;
                if es == 40 {
                    put32(&mut body, at + 20, n as u32);
                } else {
                    put64(&mut body, at + 32, n);
                }
            }
            // headers of a type the crate does not know (they are skipped, never
            // named) in every fourth table: a section on the last page of the address
            // space - address + size is 2^64 (ELF64) / 2^32 (ELF32)
            if c.key & 0x300 == 0x100 && e as u32 != c.shndx {
                if let Some(t) = c.types.get(e) {
                    if !elf_in_use(*t) {
                        if es == 40 {
                            put32(&mut body, at + 12, 0xFFFF_F000);
                            put32(&mut body, at + 20, 0x1000);
                        } else {
                            put64(&mut body, at + 16, 0xFFFF_FFFF_FFFF_F000);
                            put64(&mut body, at + 32, 0x1000);
                        }
                    }
                }
            }
            if c.small_links {
                let l = ((c.key >> 8) as usize + e) % (fit + 1);
                put32(&mut body, at + if es == 40 { 24 } else { 40 }, l as u32);
            }
        }
    }
    let mut img = mb2_model::encode::tag(9, &body);
    mb2_model::encode::pad8(&mut img, 0x5A);
    img
}

/// The names buffer every harness process maps below 4 GiB (the ELF32 layout
/// can hold its address).
fn names32() -> usize {
    mb2_model::elfnames::install().expect("the names buffer could not be mapped at its fixed address")
}

/// Real-API exercise: view the image as ELF-sections tag, iterate, decode every
/// item, resolve names when `with_names`.
pub(crate) fn exercise(ptr: *const u8, len: usize, with_names: bool, max_steps: usize) -> Transcript {
    use mb2_model::panics::catch;
    let mut rec = Rec::new(ptr as usize);
    let slice = unsafe { core::slice::from_raw_parts(ptr, len) };
    let tag = match catch(|| multiboot2_common::DynSizedStructure::<multiboot2::TagHeader>::ref_from_slice(slice)) {
        Some(Ok(t)) => t,
        _ => {
            rec.t.push("ref", Val::Panic);
            return rec.t;
        }
    };
    let Some(t) = catch(|| tag.cast::<multiboot2::ElfSectionsTag>()) else {
        rec.t.push("cast", Val::Panic);
        return rec.t;
    };
    let v = rec.ext(t);
    rec.t.push("cast", v);
    // Debug of the tag (it walks the sections; what it reads is watched by the guard page)
    let dv = catch(|| format!("{t:?}").len());
    rec.t.push("dbg", if dv.is_some() { Val::Ok } else { Val::Panic });
    match catch(|| t.sections()) {
        None => rec.t.push("s.new", Val::Panic),
        Some(mut it) => {
            rec.t.push("s.new", Val::Ok);
            let mut j = 0;
            loop {
                if j > max_steps {
                    rec.t.push("s.end", Val::Txt("step-bound".into()));
                    break;
                }
                match catch(|| it.next()) {
                    None => {
                        rec.t.push(format!("s{j}"), Val::Panic);
                        break;
                    }
                    Some(None) => {
                        rec.t.push("s.end", Val::None);
                        break;
                    }
                    Some(Some(s)) => {
                        let q = format!("s{j}");
                        rec.t.push(q.clone(), Val::Ok);
                        rec.call(format!("{q}.raw_type"), || Val::U(s.section_type_raw() as u64));
                        rec.call(format!("{q}.type"), || Val::U(s.section_type() as u32 as u64));
                        rec.call(format!("{q}.flags"), || Val::U(s.flags().bits()));
                        rec.call(format!("{q}.addr"), || Val::U(s.start_address()));
                        rec.call(format!("{q}.size"), || Val::U(s.size()));
                        rec.call(format!("{q}.addralign"), || Val::U(s.addralign()));
                        if with_names {
                            rec.call(format!("{q}.name"), || match s.name() {
                                Ok(n) => Val::Txt(hex(n.as_bytes())),
                                Err(_) => Val::ErrUtf8,
                            });
                        }
                        j += 1;
                    }
                }
            }
        }
    }
    // secondary iterator methods must agree with next(): nth(k), count()
    if let Some(Some(c)) = catch(|| catch(|| t.sections().count())) {
        rec.t.push("cnt", Val::U(c as u64));
        for k in nth_probes(c.min(max_steps)) {
            match catch(|| t.sections().nth(k).map(|s| (s.section_type_raw(), s.start_address()))) {
                Some(Some((ty, ad))) => rec.t.push(format!("n{k}"), Val::Txt(format!("{ty:#x}/{ad:#x}"))),
                Some(None) => rec.t.push(format!("n{k}"), Val::None),
                None => rec.t.push(format!("n{k}"), Val::Panic),
            }
        }
    }
    rec.t
}

/// The arguments with which nth() is probed for an iterator of `c` items:
/// all of 0..=c for short ones, both ends and the middle for long ones.
fn nth_probes(c: usize) -> Vec<usize> {
    if c <= 64 {
        return (0..=c).collect();
    }
    let mut v: Vec<usize> = (0..=32).collect();
    v.extend([c / 2, c - 2, c - 1, c]);
    v
}

pub fn eval(c: &Case, obs: &mut Obs) -> Result<(), String> {
    eval_mode(c, obs, None)
}

/// `shared`: run in this process on that memory (the image is written to its
/// start, so consecutive cases sit at the same address) instead of in a
/// sandbox child.
fn eval_mode(c: &Case, obs: &mut Obs, shared: Option<&mut Aligned>) -> Result<(), String> {
    let _ = names32();
    let img = image(c);
    let size = le32(&img, 4) as usize;
    let len = (size - 20) as u64;
    let (n, es, shndx) = (c.n as u64, c.entsize as u64, c.shndx as u64);
    let shape = elf_shape(n, es, shndx, len);
    obs.class(format!("{shape:?}"));
    let ctx = format!("n {n} entsize {es} shndx {shndx} table bytes {len}");
    // names are resolved only when the designated string-table entry is inside
    // the tag (otherwise name() has no defined source for its address)
    let with_names = shape == ElfShape::Fits;
    let max_steps = img.len() / 8 + 8;
    let boxed = match shared {
        None => sbx::with_guarded(&img, 8, Place::End, |p, l| exercise(p, l, with_names, max_steps)),
        Some(buf) => {
            let mut all = buf.as_slice().to_vec();
            if img.len() > all.len() {
                return Err("malformed case: image larger than the shared buffer".into());
            }
            for b in all.iter_mut() {
                *b = 0xEE;
            }
            all[..img.len()].copy_from_slice(&img);
            buf.overwrite(&all);
            Boxed::Done(exercise(buf.as_ptr(), img.len(), with_names, max_steps))
        }
    };
    let t = match boxed {
        Boxed::Done(t) => t,
        Boxed::Crash(s) => return Err(format!("{ctx}: crashed: {s}")),
        Boxed::Inconclusive(w) => {
            obs.inconclusive(w);
            return Ok(());
        }
    };
    if t.lines.iter().any(|(_, v)| matches!(v, Val::Txt(s) if s == "step-bound")) {
        return Err(format!("{ctx}: iteration exceeded its step bound"));
    }
    // model: in-use entries that are fully inside the tag, in order
    let fit = if es == 40 || es == 64 { (len / es).min(n) as usize } else { 0 };
    let mut model = Vec::new();
    for e in 0..fit {
        let ent = decode_elf_entry(&img, 20 + e * es as usize, es as usize);
        if elf_in_use(ent.raw_type) {
            model.push(ent);
        }
    }
    let skipped = fit - model.len();
    if shape != ElfShape::Fits || (n >= 2 && skipped >= 1) {
        obs.nontrivial(fnv(&img));
        obs.sample(json!({"n": n, "entsize": es, "shndx": shndx, "table_bytes": len, "shape": format!("{shape:?}"), "in_use_entries": model.len(), "skipped_entries": skipped}));
    }
    // items the implementation produced before ending / panicking
    let mut produced = 0usize;
    let mut ended_none = false;
    let mut saw_panic = t.get("s.new") == Some(&Val::Panic);
    for (k, v) in &t.lines {
        if k == "s.end" && *v == Val::None {
            ended_none = true;
        }
        if let Some(j) = k.strip_prefix('s').and_then(|r| r.parse::<usize>().ok()) {
            if v.is_panic() {
                saw_panic = true;
            } else {
                produced = produced.max(j + 1);
            }
        }
    }
    // every produced item must be the model's j-th in-use entry (inside the tag)
    if produced > model.len() {
        return Err(format!("{ctx}: produced {produced} sections, only {} in-use entries lie inside the tag", model.len()));
    }
    let tmap = t.map();
    for (j, ent) in model.iter().take(produced).enumerate() {
        let q = format!("s{j}");
        let want: Vec<(String, Val)> = vec![
            (format!("{q}.raw_type"), Val::U(ent.raw_type as u64)),
            (format!("{q}.type"), Val::U(mb2_model::expect_mbi::elf_type_class(ent.raw_type) as u64)),
            (format!("{q}.flags"), Val::U(ent.flags & 7)),
            (format!("{q}.addr"), Val::U(ent.addr)),
            (format!("{q}.size"), Val::U(ent.size)),
            (format!("{q}.addralign"), Val::U(ent.addralign)),
        ];
        for (k, v) in want {
            if tmap.get(k.as_str()).copied() != Some(&v) {
                return Err(format!("{ctx}: {k}: expected {}, got {:?}", v.render(), t.get(&k).map(|x| x.render())));
            }
        }
        // (where the string table's own size field says the name is not inside the
        // table, a bounded lookup may refuse or cut it: outcome left open)
        let st_size = if with_names { decode_elf_entry(&img, 20 + shndx as usize * es as usize, es as usize).size } else { 0 };
        let name_len = mb2_model::elfnames::names().get(ent.name_index as usize..).and_then(|r| r.iter().position(|x| *x == 0)).unwrap_or(0) as u64;
        if with_names && ent.name_index as u64 + name_len < st_size {
            let k = format!("{q}.name");
            let v = model_name(ent.name_index);
            if tmap.get(k.as_str()).copied() != Some(&v) {
                return Err(format!("{ctx}: {k}: expected {}, got {:?}", v.render(), t.get(&k).map(|x| x.render())));
            }
        }
    }
    if shape == ElfShape::Fits {
        if t.get("cnt") != Some(&Val::U(model.len() as u64)) {
            return Err(format!("{ctx}: sections().count() = {:?}, {} in-use entries", t.get("cnt").map(|v| v.render()), model.len()));
        }
        let tm = t.map();
        for k in nth_probes(model.len()) {
            let want = match model.get(k) {
                Some(e) => Val::Txt(format!("{:#x}/{:#x}", e.raw_type, e.addr)),
                None => Val::None,
            };
            if tm.get(format!("n{k}").as_str()).copied() != Some(&want) {
                return Err(format!("{ctx}: sections().nth({k}): expected {}, got {:?}", want.render(), t.get(&format!("n{k}")).map(|v| v.render())));
            }
        }
    }
    match shape {
        ElfShape::Fits => {
            if saw_panic || !ended_none || produced != model.len() {
                return Err(format!("{ctx}: a well-formed tag must yield exactly its {} in-use entries; produced {produced}, panic {saw_panic}, completed {ended_none}", model.len()));
            }
        }
        ElfShape::Empty => {
            if produced != 0 {
                return Err(format!("{ctx}: an empty section table produced {produced} sections"));
            }
        }
        ElfShape::Reject => {
            if !saw_panic {
                return Err(format!("{ctx}: entry count/size reaching outside the tag was not rejected by a controlled panic (produced {produced}, completed {ended_none})"));
            }
        }
        ElfShape::ShndxOutside => {
            // sections() may reject up front; otherwise resolving a name must
            // panic - probe with names enabled
            if !saw_panic {
                let t2 = match sbx::with_guarded(&img, 8, Place::End, |p, l| exercise(p, l, true, max_steps)) {
                    Boxed::Done(t) => t,
                    Boxed::Crash(s) => return Err(format!("{ctx}: resolving a name through a string-table index outside the tag crashed: {s}")),
                    Boxed::Inconclusive(w) => {
                        obs.inconclusive(w);
                        return Ok(());
                    }
                };
                for (k, v) in &t2.lines {
                    if k.ends_with(".name") && !v.is_panic() {
                        return Err(format!("{ctx}: {k} = {} although the string-table index reaches outside the tag", v.render()));
                    }
                }
            }
        }
    }
    Ok(())
}

// --- several tags one after the other at the same address ---------------------------

#[derive(Clone, Debug, Serialize, Deserialize)]
pub struct SeqCase {
    pub steps: Vec<Case>,
}

/// The tags are written one after the other to the same address and examined
/// in this process: each must be treated exactly as if it had been the only
/// one (in particular a truncated twin of a tag that was accepted before must
/// still be rejected).
pub fn eval_seq(c: &SeqCase, obs: &mut Obs) -> Result<(), String> {
    let _ = names32();
    let need = c.steps.iter().map(|s| 20 + s.table_len + 16).max().unwrap_or(0);
    // the whole sequence runs in one forked child (so that the tags do follow
    // each other in one process, and a fault is a verdict about the library)
    let r = mb2_sandbox::run_child(|| {
        let mut buf = Aligned::new(&vec![0xEEu8; need.max(1 << 16) + 4096]);
        for (i, step) in c.steps.iter().enumerate() {
            let mut o = Obs::new();
            if let Err(m) = eval_mode(step, &mut o, Some(&mut buf)) {
                return format!("E tag {} of {} at the same address: {m}", i + 1, c.steps.len()).into_bytes();
            }
        }
        b"OK".to_vec()
    });
    match r {
        mb2_sandbox::ChildResult::Done(b) if b == b"OK" => {}
        mb2_sandbox::ChildResult::Done(b) => return Err(String::from_utf8_lossy(&b[2.min(b.len())..]).into_owned()),
        mb2_sandbox::ChildResult::Signal(sig) => return Err(format!("a sequence of {} tags at the same address crashed the process ({}): {}", c.steps.len(), mb2_sandbox::ChildResult::signal_name(sig), c.steps.iter().map(|s| format!("[n {} es {} shndx {} table {}]", s.n, s.entsize, s.shndx, s.table_len)).collect::<Vec<_>>().join(" "))),
        mb2_sandbox::ChildResult::Timeout => {
            obs.inconclusive("watchdog expired");
            return Ok(());
        }
        mb2_sandbox::ChildResult::Broken(code) => {
            obs.inconclusive(format!("child exited with {code} without a record"));
            return Ok(());
        }
    }
    let shapes: Vec<ElfShape> = c.steps.iter().map(|step| elf_shape(step.n as u64, step.entsize as u64, step.shndx as u64, step.table_len as u64)).collect();
    let mixed = shapes.iter().any(|s| *s == ElfShape::Fits) && shapes.iter().any(|s| *s != ElfShape::Fits);
    obs.class(if mixed { "!accepted-and-rejected" } else { "uniform" });
    if mixed {
        obs.nontrivial(fnv(format!("{:?}", c.steps).as_bytes()));
        obs.sample(json!({"steps": c.steps.iter().map(|s| format!("n {} es {} shndx {} table {}", s.n, s.entsize, s.shndx, s.table_len)).collect::<Vec<_>>()}));
    }
    Ok(())
}

fn strategy_seq(ctx: &Ctx) -> BoxedStrategy<SeqCase> {
    // a base case and 1..=3 variations of it: same fields with a shorter or longer
    // table, another count, another index - or an unrelated case
    (strategy(ctx), proptest::collection::vec((0u8..6, any::<u16>(), strategy(ctx)), 1..=3))
        .prop_map(|(base, vars)| {
            let mut steps = vec![base.clone()];
            for (kind, r, other) in vars {
                let mut v = base.clone();
                let es = (base.entsize as usize).clamp(1, 4096);
                match kind {
                    0 => v.table_len = v.table_len.saturating_sub(es * (1 + r as usize % 3)),
                    1 => v.table_len = v.table_len.saturating_sub(1 + r as usize % 40),
                    2 => v.table_len = (v.table_len + es).min(4000),
                    3 => v.n = v.n.wrapping_add(1 + r as u32 % 3),
                    4 => v.shndx = v.shndx.wrapping_add(1 + r as u32 % 3),
                    _ => v = other,
                }
                steps.push(v);
            }
            if steps.len() >= 2 && steps[0].key & 1 == 1 {
                steps.swap(0, 1);
            }
            SeqCase { steps }
        })
        .boxed()
}

fn enumerate_seq(_: &Ctx) -> Box<dyn Iterator<Item = SeqCase>> {
    let mut v = Vec::new();
    for es in [40u32, 64] {
        for n in 1..=4u32 {
            for cut in [1usize, es as usize, 8] {
                let full = Case { n, entsize: es, shndx: 0, table_len: (n * es) as usize, types: vec![1, 2, 3, 1], key: (n + es) as u64, small_links: true };
                let mut short = full.clone();
                short.table_len -= cut.min(short.table_len);
                v.push(SeqCase { steps: vec![full.clone(), short.clone()] });
                v.push(SeqCase { steps: vec![short, full.clone()] });
            }
        }
    }
    // tables that really hold more entries than a 16-bit counter counts
    for (n, es) in [(65535u32, 40u32), (65536, 40), (65539, 40), (65536, 64)] {
        v.push(SeqCase { steps: vec![Case { n, entsize: es, shndx: n - 1, table_len: (n * es) as usize, types: vec![1, 2, 3, 1], key: n as u64, small_links: false }] });
    }
    Box::new(v.into_iter())
}

fn type_classes() -> Vec<u32> {
    vec![0, 1, 2, 3, 4, 5, 6, 7, 8, 9, 10, 11, 12, 0x5FFF_FFFF, 0x6000_0000, 0x6FFF_FFFF, 0x7000_0000, 0x7FFF_FFFF, 0x8000_0000, u32::MAX]
}

fn enumerate(ctx: &Ctx) -> Box<dyn Iterator<Item = Case>> {
    let mut v = Vec::new();
    let tc = type_classes();
    let nmax = if ctx.tier == Tier::Thorough { 7 } else { 5 };
    let mut rot = 0usize;
    // counts at which count * entry size wraps around 2^32
    for (n, es, fit) in [(0x0400_0000u32, 64u32, 2usize), (0x0400_0002, 64, 2), (0x0666_6667, 40, 1), (0x0666_6668, 40, 3), (0x0800_0001, 64, 1)] {
        for shndx in [0u32, 1, n - 1] {
            rot += 1;
            v.push(Case { n, entsize: es, shndx, table_len: fit * es as usize, types: vec![1, 2, 3, 1], key: 0xE1F0 + rot as u64, small_links: false });
        }
    }
    for n in 0..=nmax {
        for es in [0u32, 39, 40, 41, 63, 64, 65, 128] {
            let full = n as usize * es as usize;
            let mut lens = vec![full, full + 8];
            if full >= 1 {
                lens.push(full - 1);
            }
            if full >= 8 {
                lens.push(full - 8);
            }
            for table_len in lens {
                let mut idx: Vec<u32> = (0..n).collect();
                idx.extend([n, 1 << 16, u32::MAX, 0x0400_0000 + n.saturating_sub(1), 0x0666_6667]);
                idx.extend(SHN_SPECIAL);
                for shndx in idx {
                    rot += 1;
                    let types: Vec<u32> = (0..8).map(|e| tc[(rot * 3 + e * 7) % tc.len()]).collect();
                    v.push(Case { n, entsize: es, shndx, table_len, types, key: rot as u64, small_links: rot % 2 == 0 });
                }
            }
        }
    }
    Box::new(v.into_iter())
}

/// Counts/indices whose product with 40 or 64 wraps around 2^32 to something small.
fn wrap_values() -> BoxedStrategy<u32> {
    (proptest::sample::select(vec![0x0400_0000u32, 0x0666_6667, 0x0800_0000, 0x0CCC_CCCD, 0x1000_0000, 0x8000_0000, 0x4000_0000]), 0u32..6).prop_map(|(b, d)| b + d).boxed()
}

fn strategy(_: &Ctx) -> BoxedStrategy<Case> {
    (
        prop_oneof![8 => 0u32..12, 1 => any::<u32>(), 1 => Just(1u32 << 20), 2 => wrap_values()],
        prop_oneof![4 => Just(40u32), 4 => Just(64u32), 1 => 0u32..130, 1 => any::<u32>()],
        prop_oneof![6 => 0u32..12, 1 => any::<u32>(), 1 => wrap_values(), 1 => proptest::sample::select(SHN_SPECIAL.to_vec())],
        0usize..14,
        prop_oneof![6 => Just(0i32), 2 => -9i32..9, 1 => -70i32..70],
        proptest::collection::vec(prop_oneof![3 => proptest::sample::select(type_classes()), 1 => any::<u32>()], 16),
        any::<u64>(),
    )
        .prop_map(|(n, entsize, shndx, fit, delta, types, key)| {
            let es = entsize as usize % 4096;
            let shndx = if shndx < 12 && fit > 0 && key & 3 != 0 { shndx % fit as u32 } else { shndx };
            let n = if n < 12 && key & 12 != 0 { fit as u32 } else { n };
            let table_len = ((fit * es) as i64 + delta as i64).clamp(0, 4000) as usize;
            Case { n, entsize, shndx, table_len, types, key, small_links: key & 0x30 == 0 }
        })
        .boxed()
}

// --- a 32-bit string table whose names reach across the 4 GiB mark -----------------------

fn names_4g() -> Result<(), String> {
    let mut pages = vec![0u8; 8192];
    pages[1..5].copy_from_slice(b".low");
    pages[0x1010..0x1019].copy_from_slice(b".beyond4g");
    let Some(mut map) = mb2_sandbox::FixedMap::new(0xFFFF_F000, 8192) else {
        return Err("INCONCLUSIVE: the pages around 4 GiB could not be mapped".into());
    };
    map.put(&pages);
    let r = mb2_sandbox::run_child(|| {
        let mut out = String::new();
        for es in [40usize, 64] {
            let mut body = vec![0u8; 12 + 2 * es];
            put32(&mut body, 0, 2);
            put32(&mut body, 4, es as u32);
            put32(&mut body, 8, 0);
            for (e, (ty, name)) in [(3u32, 1u32), (1, 0x1010)].into_iter().enumerate() {
                let at = 12 + e * es;
                put32(&mut body, at, name);
                put32(&mut body, at + 4, ty);
                if es == 40 {
                    put32(&mut body, at + 12, 0xFFFF_F000);
                } else {
                    put64(&mut body, at + 16, 0xFFFF_F000);
                }
            }
            let mut img = mb2_model::encode::tag(9, &body);
            mb2_model::encode::pad8(&mut img, 0);
            let a = Aligned::new(&img);
            let got = mb2_model::panics::catch(|| {
                let g = multiboot2_common::DynSizedStructure::<multiboot2::TagHeader>::ref_from_slice(a.as_slice()).unwrap();
                g.cast::<multiboot2::ElfSectionsTag>().sections().map(|s| s.name().map(|n| n.to_string()).unwrap_or_else(|_| "<utf8>".into())).collect::<Vec<_>>()
            });
            out.push_str(&format!("{es}:{got:?};"));
        }
        out.into_bytes()
    });
    drop(map);
    match r {
        mb2_sandbox::ChildResult::Done(b) => {
            let t = String::from_utf8_lossy(&b).into_owned();
            let want = r#"40:Some([".low", ".beyond4g"]);64:Some([".low", ".beyond4g"]);"#;
            if t == want {
                Ok(())
            } else {
                Err(format!("string table at 0xfffff000, name offsets 1 and 0x1010 (the second name lies behind the 4 GiB mark): got {t}, expected {want}"))
            }
        }
        mb2_sandbox::ChildResult::Signal(sig) => Err(format!("string table at 0xfffff000 with a name behind the 4 GiB mark: resolving the names crashed the process (signal {sig})")),
        _ => Err("INCONCLUSIVE: child did not report".into()),
    }
}

fn run_4g(ctx: &Ctx, rep: &mut SubReport) {
    if ctx.worker != 0 {
        return;
    }
    match names_4g() {
        Ok(()) => {
            rep.evaluations += 2;
            rep.nontrivial.insert(0x1_0000_0010);
            rep.samples.push(json!({"string_table": "0xfffff000", "name_offset": "0x1010", "expect": ".beyond4g"}));
        }
        Err(m) if m.starts_with("INCONCLUSIVE") => rep.notes.push(m),
        Err(m) => rep.violations.push(Violation { sub: "names-across-4gib".into(), profile: profile_name().into(), message: m, case: json!({})}),
    }
}

fn replay_4g(_: &serde_json::Value) -> Result<(), String> {
    names_4g()
}

pub fn subs() -> Vec<Box<dyn Sub>> {
    vec![
    Box::new(LoopSub {
        name: "names-across-4gib",
        profiles: Profiles::Both,
        rule: "an ELF32 and an ELF64 table whose string table sits in the last page below 4 GiB (mapped for this purpose together with the page behind it) and one of whose names starts behind the 4 GiB mark: both names resolve through the designated string-table entry (in a forked child). Non-trivial = both layouts",
        run: run_4g,
        replay: replay_4g,
    }),
    Box::new(PropSub::<SeqCase> {
        name: "elf-sequences",
        rule: "2..=4 ELF-sections tags written one after the other to the same address and examined in one process (ordinary heap memory): a base case and variations of it (the same count / entry size / index with a table shortened by whole entries or a few bytes, a longer table, another count, another index) or unrelated cases. Oracle: each tag is treated exactly as by the single-tag rule, whatever was examined at that address before. Enumerated: full table followed by its truncated twin and vice versa, n 1..=4 x both entry sizes x 3 cuts; and tables that really hold 65535, 65536 and 65539 entries (2.6 - 4 MB). Non-trivial = a sequence with an accepted and a rejected tag; distinct by the sequence",
        profiles: Profiles::Both,
        quick: 3000,
        thorough: 150000,
        strategy: strategy_seq,
        enumerate: Some(enumerate_seq),
        enum_exhaustive: false,
        eval: eval_seq,
    }),Box::new(PropSub::<Case> {
        name: "elf-iter",
        rule: "ELF-sections tags with marker entry bytes (sh_link alternately a small in-table index), stand-alone ending at a PROT_NONE page; every entry's addr field points at a harness-owned NUL-terminated names buffer (some names invalid UTF-8) so that name() is defined. Enumerated: n 0..=5 (thorough 7) x entry size {0,39,40,41,63,64,65,128} x table length {n*es, +8, -1, -8} x shndx {0..n-1, n, 2^16, 2^32-1, reserved ELF indices 0xff00..0xffff} with raw types rotating through 20 classes; generated: up to 13 fitting entries, random counts/sizes/indices/types. Fits (es in {40,64}, n*es <= len, (shndx+1)*es <= len): exactly the in-use entries in order with type/flags/addr/size/align/name decoded by the model from the ELF32/ELF64 layout. Count or size outside: controlled panic, anything produced before it is a correct in-tag entry. shndx outside: sections() or every name() panics. n == 0: no items. Non-trivial = not Fits, or n>=2 with a skipped entry; distinct by image hash",
        profiles: Profiles::Both,
        quick: 4000,
        thorough: 150000,
        strategy,
        enumerate: Some(enumerate),
        enum_exhaustive: false,
        eval,
    })]
}
