//! C04 - typed getters select the first matching tag and decode every
//! specified field (spec-conformant boot informations).

use crate::gen;
use crate::runner::*;
use mb2_model::exercise_mbi::{exercise_mbi, MbiOpts};
use mb2_model::expect_mbi::{expect_mbi, ExpectOpts};
use mb2_model::walk::*;
use mb2_model::*;
use proptest::prelude::*;
use serde::{Deserialize, Serialize};
use serde_json::json;

#[derive(Clone, Debug, Serialize, Deserialize)]
pub struct Case {
    pub region: Hex,
}

fn stored(k: &str) -> bool {
    !k.split('.').any(|seg| seg == "dbg" || seg.starts_with('~'))
}

pub fn eval(c: &Case, obs: &mut Obs) -> Result<(), String> {
    let bytes = &c.region.0;
    if predict_mbi_load(bytes) != MbiLoad::Ok || bytes.len() != le32(bytes, 0) as usize {
        return Err("malformed case: not a loadable region".into());
    }
    let w = walk_mbi(bytes);
    if w.panic_at.is_some() {
        return Err("malformed case: the reference walk does not complete".into());
    }
    let a = Aligned::new(bytes);
    let opts = MbiOpts { debug: false, max_steps: bytes.len() / 8 + 4, typed_all: true };
    let got = unsafe { exercise_mbi(a.as_ptr(), &opts) };
    let exp = expect_mbi(a.as_slice(), &ExpectOpts { typed_all: true });
    // classification
    let mut kinds: Vec<u32> = w.items.iter().map(|i| i.typ).collect();
    let n = kinds.len();
    for k in &kinds {
        obs.class(format!("!kind-{k}"));
    }
    if let Some((_, it)) = w.first_of(8) {
        let ty = bytes[it.off + 29];
        obs.class(if ty > 2 { "!fb-unknown-type" } else { "fb-known-type" });
    }
    if w.first_of(17).is_some() {
        obs.class(if w.first_of(18).is_some() { "!efi-map-withheld" } else { "efi-map-available" });
    }
    kinds.sort_unstable();
    let dup = kinds.windows(2).any(|p| p[0] == p[1]);
    if n >= 4 && dup {
        obs.nontrivial(fnv(bytes));
        obs.sample(json!({"region": sample_bytes(bytes), "tag_types_in_walk_order": w.items.iter().map(|i| i.typ).collect::<Vec<_>>()}));
    }
    let d = exp.diff(&got, &stored);
    if d.is_empty() {
        Ok(())
    } else {
        Err(d.join("; "))
    }
}

fn strategy(_: &Ctx) -> BoxedStrategy<Case> {
    (proptest::collection::vec(gen::conf_tag(), 0..=12), any::<u16>(), 0u8..10, prop_oneof![Just(0u8), Just(0x5Au8)])
        .prop_map(|(mut tags, pos, bs, pad)| {
            // boot-services-not-exited tag present in ~40% of the cases that carry an EFI map
            let has17 = tags.iter().any(|t| t.kind == 17);
            tags.retain(|t| t.kind != 18);
            if has17 && bs < 4 {
                let at = gen::pick(pos, tags.len() + 1);
                tags.insert(at, gen::ConfTag { kind: 18, n: 0, sel: 0, key: 0 });
            }
            Case { region: Hex(gen::build_conformant_mbi(&tags, pad)) }
        })
        .boxed()
}

/// Every kind alone, every ordered pair of kinds, all 256 framebuffer type
/// bytes, and every kind duplicated with different contents.
fn enumerate(_: &Ctx) -> Box<dyn Iterator<Item = Case>> {
    let mut v = Vec::new();
    let t = |kind: u32, key: u64, sel: u32| gen::ConfTag { kind, n: 3, sel, key };
    for k in 1..=21u32 {
        v.push(Case { region: Hex(gen::build_conformant_mbi(&[t(k, k as u64, 0)], 0)) });
        v.push(Case { region: Hex(gen::build_conformant_mbi(&[t(k, 100 + k as u64, 1), t(k, 200 + k as u64, 2)], 0)) });
        for k2 in 1..=21u32 {
            v.push(Case { region: Hex(gen::build_conformant_mbi(&[t(k, 7 * k as u64, 5), t(k2, 11 * k2 as u64, 6), t(k, 13, 7)], 0x5A)) });
        }
    }
    for b in 0..=255u32 {
        v.push(Case { region: Hex(gen::build_conformant_mbi(&[t(1, 1, 0), t(8, b as u64, b)], 0)) });
    }
    Box::new(v.into_iter())
}

pub fn subs() -> Vec<Box<dyn Sub>> {
    vec![Box::new(PropSub::<Case> {
        name: "decode",
        rule: "boot informations made of spec-conformant tags from the independent encoder (all 21 non-end kinds, every field byte a position-dependent non-zero marker, multiplicity and order random, 0..=12 tags, boot-services tag in ~40% of the cases with an EFI map, framebuffer type byte uniform over all 256 values); enumerated: each kind alone / duplicated / every ordered pair with a repeated kind, all 256 framebuffer type bytes. Oracle: the full transcript (walk, every item's typed fields, all 22 getters, module iterator) equals the reference model's decode; any panic is a mismatch. Non-trivial = >=4 tags with a duplicated kind; distinct by region hash",
        profiles: Profiles::Both,
        quick: 40000,
        thorough: 3000000,
        strategy,
        enumerate: Some(enumerate),
        enum_exhaustive: false,
        eval,
    })]
}
