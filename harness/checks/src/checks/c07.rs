//! C07 - every tag constructor emits the spec-exact binary image.

use crate::runner::*;
use mb2_model::encode::{hdr_tag, tag};
use mb2_model::*;
use multiboot2 as m;
use multiboot2_common::{MaybeDynSized, Tag};
use multiboot2_header as h;
use proptest::prelude::*;
use serde::{Deserialize, Serialize};
use serde_json::json;

pub const N_CTORS: u8 = 40;

#[derive(Clone, Debug, Serialize, Deserialize)]
pub struct Case {
    pub ctor: u8,
    /// argument words, consumed in declaration order
    pub words: Vec<u64>,
    /// variable-length content (tables, DHCP data, section bytes, …)
    pub content: Hex,
    pub text: String,
}

struct Args<'a> {
    w: &'a [u64],
    i: usize,
}

impl Args<'_> {
    fn next(&mut self) -> u64 {
        let v = self.w.get(self.i).copied().unwrap_or(0x0102_0304_0506_0708u64.wrapping_mul(self.i as u64 + 1));
        self.i += 1;
        v
    }
    fn u8(&mut self) -> u8 {
        self.next() as u8
    }
    fn u16(&mut self) -> u16 {
        self.next() as u16
    }
    fn u32(&mut self) -> u32 {
        self.next() as u32
    }
    fn u64(&mut self) -> u64 {
        self.next()
    }
}

/// What one constructor call produced, plus what the specification says it
/// must have produced.
struct Built {
    name: &'static str,
    /// bytes of the tag as `as_bytes()` returns them (incl. padding)
    bytes: Vec<u8>,
    /// the independent encoder's image (unpadded)
    spec: Vec<u8>,
    /// offsets (relative to the tag start) excluded from the comparison:
    /// padding bytes *inside* argument structures
    mask: Vec<usize>,
    /// `T::ID` as a number
    id: u32,
    /// read-back mismatches
    readback: Vec<String>,
    /// outcome of the placement probes (sized tags): description of a failure
    placement: Option<String>,
}

macro_rules! rb {
    ($v:expr, $name:expr, $got:expr, $want:expr) => {
        if ($got) as u64 != ($want) as u64 {
            $v.push(format!("{}() = {:#x}, argument was {:#x}", $name, ($got) as u64, ($want) as u64));
        }
    };
}

#[repr(C)]
struct P4<T> {
    pad: u32,
    t: T,
}

#[repr(C)]
struct P12<T> {
    pad: [u8; 12],
    t: T,
}

/// "The tag's byte view is obtainable wherever the tag is placed."
fn placements<T: MaybeDynSized>(make: &dyn Fn() -> T, size: usize) -> Option<String> {
    use mb2_model::panics::catch;
    let reference = match catch(|| make().as_bytes().to_vec()) {
        Some(b) => b,
        None => return Some("as_bytes() panicked for a local value".into()),
    };
    let same = |b: &[u8]| b.len() == reference.len() && b[..size.min(b.len())] == reference[..size.min(reference.len())];
    let probes: Vec<(&str, Option<Vec<u8>>)> = vec![
        ("boxed", catch(|| Box::new(make()).as_bytes().to_vec())),
        ("array element", catch(|| [make(), make(), make()][1].as_bytes().to_vec())),
        ("field after a u32", catch(|| P4 { pad: 7, t: make() }.t.as_bytes().to_vec())),
        ("field after 12 bytes", catch(|| P12 { pad: [1; 12], t: make() }.t.as_bytes().to_vec())),
        ("boxed field after a u32", catch(|| Box::new(P4 { pad: 7, t: make() }).t.as_bytes().to_vec())),
        ("vec element", catch(|| vec![make(), make()][1].as_bytes().to_vec())),
    ];
    for (where_, r) in probes {
        match r {
            None => return Some(format!("as_bytes() panicked for the tag placed as {where_}")),
            Some(b) if !same(&b) => return Some(format!("as_bytes() differs for the tag placed as {where_}")),
            _ => {}
        }
    }
    None
}

fn mbi_id<T: Tag<IDType = m::TagType> + ?Sized>() -> u32 {
    u32::from(T::ID)
}

fn hdr_id<T: Tag<IDType = h::HeaderTagType> + ?Sized>() -> u32 {
    T::ID as u16 as u32
}

fn flag(x: u64) -> (h::HeaderTagFlag, u16) {
    if x & 1 == 0 {
        (h::HeaderTagFlag::Required, 0)
    } else {
        (h::HeaderTagFlag::Optional, 1)
    }
}

fn build(c: &Case) -> Built {
    let mut a = Args { w: &c.words, i: 0 };
    let content = &c.content.0;
    let mut rbv: Vec<String> = Vec::new();
    macro_rules! sized {
        ($name:expr, $T:ty, $make:expr, $spec:expr) => {{
            let make = $make;
            let t: $T = make();
            let spec: Vec<u8> = $spec;
            Built { name: $name, bytes: t.as_bytes().to_vec(), placement: placements::<$T>(&make, spec.len()), spec, mask: vec![], id: 0, readback: vec![] }
        }};
    }
    let mut b = match c.ctor {
        0 => {
            let (v, cs, of, c16, ds, fl, cl, c16l, dl) = (a.u16(), a.u16(), a.u32(), a.u16(), a.u16(), a.u16(), a.u16(), a.u16(), a.u16());
            let mut body = vec![];
            body.extend(v.to_le_bytes());
            body.extend(cs.to_le_bytes());
            body.extend(of.to_le_bytes());
            body.extend(c16.to_le_bytes());
            body.extend(ds.to_le_bytes());
            body.extend(fl.to_le_bytes());
            body.extend(cl.to_le_bytes());
            body.extend(c16l.to_le_bytes());
            body.extend(dl.to_le_bytes());
            let t = m::ApmTag::new(v, cs, of, c16, ds, fl, cl, c16l, dl);
            rb!(rbv, "version", t.version(), v);
            rb!(rbv, "cseg", t.cseg(), cs);
            rb!(rbv, "offset", t.offset(), of);
            rb!(rbv, "cset_16", t.cset_16(), c16);
            rb!(rbv, "dseg", t.dseg(), ds);
            rb!(rbv, "flags", t.flags(), fl);
            rb!(rbv, "cseg_len", t.cseg_len(), cl);
            rb!(rbv, "cseg_16_len", t.cseg_16_len(), c16l);
            rb!(rbv, "dseg_len", t.dseg_len(), dl);
            let mut x = sized!("ApmTag::new", m::ApmTag, move || m::ApmTag::new(v, cs, of, c16, ds, fl, cl, c16l, dl), tag(10, &body));
            x.id = mbi_id::<m::ApmTag>();
            x
        }
        1 => {
            let (lo, up) = (a.u32(), a.u32());
            let t = m::BasicMemoryInfoTag::new(lo, up);
            rb!(rbv, "memory_lower", t.memory_lower(), lo);
            rb!(rbv, "memory_upper", t.memory_upper(), up);
            let mut body = vec![];
            body.extend(lo.to_le_bytes());
            body.extend(up.to_le_bytes());
            let mut x = sized!("BasicMemoryInfoTag::new", m::BasicMemoryInfoTag, move || m::BasicMemoryInfoTag::new(lo, up), tag(4, &body));
            x.id = mbi_id::<m::BasicMemoryInfoTag>();
            x
        }
        2 => {
            let (bd, sl, pt) = (a.u32(), a.u32(), a.u32());
            let t = m::BootdevTag::new(bd, sl, pt);
            rb!(rbv, "biosdev", t.biosdev(), bd);
            rb!(rbv, "slice", t.slice(), sl);
            rb!(rbv, "part", t.part(), pt);
            let mut body = vec![];
            body.extend(bd.to_le_bytes());
            body.extend(sl.to_le_bytes());
            body.extend(pt.to_le_bytes());
            let mut x = sized!("BootdevTag::new", m::BootdevTag, move || m::BootdevTag::new(bd, sl, pt), tag(5, &body));
            x.id = mbi_id::<m::BootdevTag>();
            x
        }
        3 | 4 => {
            // string tags (details in C17): stored as given plus a terminating
            // NUL unless the text already ends in one; reads back the text before
            // the first NUL
            let s = c.text.clone();
            let mut body = s.as_bytes().to_vec();
            if !s.ends_with('\0') {
                body.push(0);
            }
            let s = s[..s.find('\0').unwrap_or(s.len())].to_string();
            if c.ctor == 3 {
                let t = m::CommandLineTag::new(&c.text);
                if t.cmdline() != Ok(s.as_str()) {
                    rbv.push(format!("cmdline() = {:?}", t.cmdline()));
                }
                Built { name: "CommandLineTag::new", bytes: t.as_bytes().to_vec(), spec: tag(1, &body), mask: vec![], id: mbi_id::<m::CommandLineTag>(), readback: vec![], placement: None }
            } else {
                let t = m::BootLoaderNameTag::new(&c.text);
                if t.name() != Ok(s.as_str()) {
                    rbv.push(format!("name() = {:?}", t.name()));
                }
                rb!(rbv, "size", t.size(), 8 + body.len());
                rb!(rbv, "typ", u32::from(t.typ()), 2);
                Built { name: "BootLoaderNameTag::new", bytes: t.as_bytes().to_vec(), spec: tag(2, &body), mask: vec![], id: mbi_id::<m::BootLoaderNameTag>(), readback: vec![], placement: None }
            }
        }
        5 => {
            let p = a.u32();
            rb!(rbv, "sdt_address", m::EFISdt32Tag::new(p).sdt_address(), p);
            let mut x = sized!("EFISdt32Tag::new", m::EFISdt32Tag, move || m::EFISdt32Tag::new(p), tag(11, &p.to_le_bytes()));
            x.id = mbi_id::<m::EFISdt32Tag>();
            x
        }
        6 => {
            let p = a.u64();
            rb!(rbv, "sdt_address", m::EFISdt64Tag::new(p).sdt_address(), p);
            let mut x = sized!("EFISdt64Tag::new", m::EFISdt64Tag, move || m::EFISdt64Tag::new(p), tag(12, &p.to_le_bytes()));
            x.id = mbi_id::<m::EFISdt64Tag>();
            x
        }
        7 => {
            let p = a.u32();
            rb!(rbv, "image_handle", m::EFIImageHandle32Tag::new(p).image_handle(), p);
            let mut x = sized!("EFIImageHandle32Tag::new", m::EFIImageHandle32Tag, move || m::EFIImageHandle32Tag::new(p), tag(19, &p.to_le_bytes()));
            x.id = mbi_id::<m::EFIImageHandle32Tag>();
            x
        }
        8 => {
            let p = a.u64();
            rb!(rbv, "image_handle", m::EFIImageHandle64Tag::new(p).image_handle(), p);
            let mut x = sized!("EFIImageHandle64Tag::new", m::EFIImageHandle64Tag, move || m::EFIImageHandle64Tag::new(p), tag(20, &p.to_le_bytes()));
            x.id = mbi_id::<m::EFIImageHandle64Tag>();
            x
        }
        9 => {
            let mut x = sized!("EFIBootServicesNotExitedTag::new", m::EFIBootServicesNotExitedTag, m::EFIBootServicesNotExitedTag::new, tag(18, &[]));
            x.id = mbi_id::<m::EFIBootServicesNotExitedTag>();
            x
        }
        10 => {
            let (n, es, sh) = (a.u32(), a.u32(), a.u32());
            let t = m::ElfSectionsTag::new(n, es, sh, content);
            rb!(rbv, "number_of_sections", t.number_of_sections(), n);
            rb!(rbv, "entry_size", t.entry_size(), es);
            rb!(rbv, "shndx", t.shndx(), sh);
            let mut body = vec![];
            body.extend(n.to_le_bytes());
            body.extend(es.to_le_bytes());
            body.extend(sh.to_le_bytes());
            body.extend_from_slice(content);
            Built { name: "ElfSectionsTag::new", bytes: t.as_bytes().to_vec(), spec: tag(9, &body), mask: vec![], id: mbi_id::<m::ElfSectionsTag>(), readback: vec![], placement: None }
        }
        11 => {
            let mut x = sized!("EndTag::default", m::EndTag, m::EndTag::default, tag(0, &[]));
            x.id = mbi_id::<m::EndTag>();
            x
        }
        12 | 13 | 14 => {
            let (ad, pi, wi, he, bpp) = (a.u64(), a.u32(), a.u32(), a.u32(), a.u8());
            let mut body = vec![];
            body.extend(ad.to_le_bytes());
            body.extend(pi.to_le_bytes());
            body.extend(wi.to_le_bytes());
            body.extend(he.to_le_bytes());
            body.push(bpp);
            let palette: Vec<m::FramebufferColor> = content.chunks_exact(3).map(|p| m::FramebufferColor { red: p[0], green: p[1], blue: p[2] }).collect();
            let f = |x: u8, y: u8| m::FramebufferField { position: x, size: y };
            let rgb = [a.u8(), a.u8(), a.u8(), a.u8(), a.u8(), a.u8()];
            let bt = match c.ctor {
                12 => {
                    body.push(0);
                    body.extend([0, 0]);
                    body.extend((palette.len() as u16).to_le_bytes());
                    for p in &palette {
                        body.extend([p.red, p.green, p.blue]);
                    }
                    m::FramebufferType::Indexed { palette: &palette }
                }
                13 => {
                    body.push(1);
                    body.extend([0, 0]);
                    body.extend(rgb);
                    m::FramebufferType::RGB { red: f(rgb[0], rgb[1]), green: f(rgb[2], rgb[3]), blue: f(rgb[4], rgb[5]) }
                }
                _ => {
                    body.push(2);
                    body.extend([0, 0]);
                    m::FramebufferType::Text
                }
            };
            let t = m::FramebufferTag::new(ad, pi, wi, he, bpp, bt.clone());
            rb!(rbv, "address", t.address(), ad);
            rb!(rbv, "pitch", t.pitch(), pi);
            rb!(rbv, "width", t.width(), wi);
            rb!(rbv, "height", t.height(), he);
            rb!(rbv, "bpp", t.bpp(), bpp);
            if t.buffer_type() != Ok(bt) {
                rbv.push(format!("buffer_type() = {:?}", t.buffer_type()));
            }
            Built { name: "FramebufferTag::new", bytes: t.as_bytes().to_vec(), spec: tag(8, &body), mask: vec![], id: mbi_id::<m::FramebufferTag>(), readback: vec![], placement: None }
        }
        15 => {
            let p = a.u32();
            rb!(rbv, "load_base_addr", m::ImageLoadPhysAddrTag::new(p).load_base_addr(), p);
            let mut x = sized!("ImageLoadPhysAddrTag::new", m::ImageLoadPhysAddrTag, move || m::ImageLoadPhysAddrTag::new(p), tag(21, &p.to_le_bytes()));
            x.id = mbi_id::<m::ImageLoadPhysAddrTag>();
            x
        }
        16 => {
            let n = (content.len() / 3).min(6);
            let mut areas = Vec::new();
            let mut body = vec![];
            body.extend(24u32.to_le_bytes());
            body.extend(0u32.to_le_bytes());
            for _ in 0..n {
                let (ba, le, ty) = (a.u64(), a.u64(), a.u32());
                areas.push(m::MemoryArea::new(ba, le, m::MemoryAreaTypeId::from(ty)));
                body.extend(ba.to_le_bytes());
                body.extend(le.to_le_bytes());
                body.extend(ty.to_le_bytes());
                body.extend(0u32.to_le_bytes());
            }
            if a.w.first().copied().unwrap_or(0) & 3 == 0 && n > 0 {
                // areas copied out of a parsed boot information: whatever the boot
                // loader stored in the reserved word travels with them
                let src = mb2_model::encode::conformant_tag(6, a.w[0] | 1, n, 0);
                let al = Aligned::new(&{
                    let mut i = src.clone();
                    mb2_model::encode::pad8(&mut i, 0);
                    i
                });
                let parsed = multiboot2_common::DynSizedStructure::<m::TagHeader>::ref_from_slice(al.as_slice()).unwrap().cast::<m::MemoryMapTag>();
                areas = parsed.memory_areas().to_vec();
                body = vec![];
                body.extend(24u32.to_le_bytes());
                body.extend(0u32.to_le_bytes());
                body.extend_from_slice(&src[16..]);
            }
            let t = m::MemoryMapTag::new(&areas);
            rb!(rbv, "entry_size", t.entry_size(), 24);
            rb!(rbv, "entry_version", t.entry_version(), 0);
            if t.memory_areas() != &areas[..] {
                rbv.push("memory_areas() differs from the supplied areas".into());
            }
            Built { name: "MemoryMapTag::new", bytes: t.as_bytes().to_vec(), spec: tag(6, &body), mask: vec![], id: mbi_id::<m::MemoryMapTag>(), readback: vec![], placement: None }
        }
        17 => {
            let n = (content.len() / 3).min(5);
            let mut descs = Vec::new();
            let mut body = vec![];
            body.extend(40u32.to_le_bytes());
            body.extend(1u32.to_le_bytes());
            let mut mask = vec![];
            for j in 0..n {
                let (ty, ph, vi, pc, at) = (a.u32(), a.u64(), a.u64(), a.u64(), a.u64());
                descs.push(m::EFIMemoryDesc { ty: m::EFIMemoryAreaType(ty), phys_start: ph, virt_start: vi, page_count: pc, att: m::EFIMemoryAttribute::from_bits_retain(at) });
                body.extend(ty.to_le_bytes());
                body.extend([0u8; 4]);
                for k in 0..4 {
                    mask.push(16 + 40 * j + 4 + k);
                }
                body.extend(ph.to_le_bytes());
                body.extend(vi.to_le_bytes());
                body.extend(pc.to_le_bytes());
                body.extend(at.to_le_bytes());
            }
            let t = m::EFIMemoryMapTag::new_from_descs(&descs);
            let got: Vec<m::EFIMemoryDesc> = t.memory_areas().copied().collect();
            if got != descs {
                rbv.push("memory_areas() differs from the supplied descriptors".into());
            }
            Built { name: "EFIMemoryMapTag::new_from_descs", bytes: t.as_bytes().to_vec(), spec: tag(17, &body), mask, id: mbi_id::<m::EFIMemoryMapTag>(), readback: vec![], placement: None }
        }
        18 => {
            let (ds, dv) = (a.u32().max(1), a.u32());
            let t = m::EFIMemoryMapTag::new_from_map(ds, dv, content);
            let mut body = vec![];
            body.extend(ds.to_le_bytes());
            body.extend(dv.to_le_bytes());
            body.extend_from_slice(content);
            Built { name: "EFIMemoryMapTag::new_from_map", bytes: t.as_bytes().to_vec(), spec: tag(17, &body), mask: vec![], id: 17, readback: vec![], placement: None }
        }
        19 => {
            let (x, y) = (a.u32(), a.u32());
            let (st, en) = if x < y { (x, y) } else if y < x { (y, x) } else { (x, x.wrapping_add(1).max(1)) };
            let (st, en) = if st < en { (st, en) } else { (0, 1) };
            let full = c.text.clone();
            let s = full[..full.find('\0').unwrap_or(full.len())].to_string();
            let t = m::ModuleTag::new(st, en, &full);
            rb!(rbv, "start_address", t.start_address(), st);
            rb!(rbv, "end_address", t.end_address(), en);
            rb!(rbv, "module_size", t.module_size(), en - st);
            if t.cmdline() != Ok(s.as_str()) {
                rbv.push(format!("cmdline() = {:?}", t.cmdline()));
            }
            let mut body = vec![];
            body.extend(st.to_le_bytes());
            body.extend(en.to_le_bytes());
            body.extend_from_slice(full.as_bytes());
            if !full.ends_with('\0') {
                body.push(0);
            }
            Built { name: "ModuleTag::new", bytes: t.as_bytes().to_vec(), spec: tag(3, &body), mask: vec![], id: mbi_id::<m::ModuleTag>(), readback: vec![], placement: None }
        }
        20 => {
            let t = m::NetworkTag::new(content);
            Built { name: "NetworkTag::new", bytes: t.as_bytes().to_vec(), spec: tag(16, content), mask: vec![], id: mbi_id::<m::NetworkTag>(), readback: vec![], placement: None }
        }
        21 => {
            let (ck, rev, rs) = (a.u8(), a.u8(), a.u32());
            let oem: [u8; 6] = core::array::from_fn(|i| 0x41 + ((a.w.first().copied().unwrap_or(0) >> (8 * i)) as u8) % 26);
            let t = m::RsdpV1Tag::new(ck, oem, rev, rs);
            rb!(rbv, "revision", t.revision(), rev);
            rb!(rbv, "rsdt_address", t.rsdt_address(), rs);
            if t.signature() != Ok("RSD PTR ") || t.oem_id() != core::str::from_utf8(&oem) {
                rbv.push("signature()/oem_id() differ".into());
            }
            let mut body = b"RSD PTR ".to_vec();
            body.push(ck);
            body.extend(oem);
            body.push(rev);
            body.extend(rs.to_le_bytes());
            let sum = body.iter().fold(0u8, |x, y| x.wrapping_add(*y));
            if t.checksum_is_valid() != (sum == 0) {
                rbv.push(format!("checksum_is_valid() = {}, byte sum is {sum}", t.checksum_is_valid()));
            }
            let mut x = sized!("RsdpV1Tag::new", m::RsdpV1Tag, move || m::RsdpV1Tag::new(ck, oem, rev, rs), tag(14, &body));
            x.id = mbi_id::<m::RsdpV1Tag>();
            x
        }
        22 => {
            let (ck, rev, rs, len, xs, ek) = (a.u8(), a.u8(), a.u32(), a.u32(), a.u64(), a.u8());
            let oem: [u8; 6] = core::array::from_fn(|i| 0x61 + ((a.w.first().copied().unwrap_or(0) >> (8 * i)) as u8) % 26);
            let t = m::RsdpV2Tag::new(ck, oem, rev, rs, len, xs, ek);
            rb!(rbv, "revision", t.revision(), rev);
            rb!(rbv, "xsdt_address", t.xsdt_address(), xs);
            rb!(rbv, "ext_checksum", t.ext_checksum(), ek);
            let mut body = b"RSD PTR ".to_vec();
            body.push(ck);
            body.extend(oem);
            body.push(rev);
            body.extend(rs.to_le_bytes());
            body.extend(len.to_le_bytes());
            body.extend(xs.to_le_bytes());
            body.push(ek);
            body.extend([0, 0, 0]);
            let mut x = sized!("RsdpV2Tag::new", m::RsdpV2Tag, move || m::RsdpV2Tag::new(ck, oem, rev, rs, len, xs, ek), tag(15, &body));
            x.id = mbi_id::<m::RsdpV2Tag>();
            x
        }
        23 => {
            let (ma, mi) = (a.u8(), a.u8());
            let t = m::SmbiosTag::new(ma, mi, content);
            rb!(rbv, "major", t.major(), ma);
            rb!(rbv, "minor", t.minor(), mi);
            if t.tables() != &content[..] {
                rbv.push("tables() differs".into());
            }
            let mut body = vec![ma, mi, 0, 0, 0, 0, 0, 0];
            body.extend_from_slice(content);
            Built { name: "SmbiosTag::new", bytes: t.as_bytes().to_vec(), spec: tag(13, &body), mask: vec![], id: mbi_id::<m::SmbiosTag>(), readback: vec![], placement: None }
        }
        24 => {
            let (mo, sg, of, ln) = (a.u16(), a.u16(), a.u16(), a.u16());
            let mut ci = m::VBEControlInfo::default();
            let mut mi = m::VBEModeInfo::default();
            let sig = a.u32();
            ci.signature = sig.to_le_bytes();
            ci.version = a.u16();
            ci.oem_string_ptr = a.u32();
            ci.capabilities = m::VBECapabilities::from_bits_retain(a.u32());
            ci.mode_list_ptr = a.u32();
            ci.total_memory = a.u16();
            ci.oem_software_revision = a.u16();
            ci.oem_vendor_name_ptr = a.u32();
            ci.oem_product_name_ptr = a.u32();
            ci.oem_product_revision_ptr = a.u32();
            mi.mode_attributes = m::VBEModeAttributes::from_bits_retain(a.u16());
            mi.window_a_attributes = m::VBEWindowAttributes::from_bits_retain(a.u8());
            mi.window_b_attributes = m::VBEWindowAttributes::from_bits_retain(a.u8());
            mi.window_granularity = a.u16();
            mi.window_size = a.u16();
            mi.window_a_segment = a.u16();
            mi.window_b_segment = a.u16();
            mi.window_function_ptr = a.u32();
            mi.pitch = a.u16();
            mi.resolution = (a.u16(), a.u16());
            mi.character_size = (a.u8(), a.u8());
            mi.number_of_planes = a.u8();
            mi.bpp = a.u8();
            mi.number_of_banks = a.u8();
            let mm = a.u8() % 8;
            mi.memory_model = [
                m::VBEMemoryModel::Text,
                m::VBEMemoryModel::CGAGraphics,
                m::VBEMemoryModel::HerculesGraphics,
                m::VBEMemoryModel::Planar,
                m::VBEMemoryModel::PackedPixel,
                m::VBEMemoryModel::Unchained,
                m::VBEMemoryModel::DirectColor,
                m::VBEMemoryModel::YUV,
            ][mm as usize];
            mi.bank_size = a.u8();
            mi.number_of_image_pages = a.u8();
            mi.red_field = m::VBEField { size: a.u8(), position: a.u8() };
            mi.green_field = m::VBEField { size: a.u8(), position: a.u8() };
            mi.blue_field = m::VBEField { size: a.u8(), position: a.u8() };
            mi.reserved_field = m::VBEField { size: a.u8(), position: a.u8() };
            mi.direct_color_attributes = m::VBEDirectColorAttributes::from_bits_retain(a.u8());
            mi.framebuffer_base_ptr = a.u32();
            mi.offscreen_memory_offset = a.u32();
            mi.offscreen_memory_size = a.u16();
            let mut body = vec![];
            body.extend(mo.to_le_bytes());
            body.extend(sg.to_le_bytes());
            body.extend(of.to_le_bytes());
            body.extend(ln.to_le_bytes());
            // VbeInfoBlock
            body.extend(sig.to_le_bytes());
            body.extend({ ci.version }.to_le_bytes());
            body.extend({ ci.oem_string_ptr }.to_le_bytes());
            body.extend({ ci.capabilities }.bits().to_le_bytes());
            body.extend({ ci.mode_list_ptr }.to_le_bytes());
            body.extend({ ci.total_memory }.to_le_bytes());
            body.extend({ ci.oem_software_revision }.to_le_bytes());
            body.extend({ ci.oem_vendor_name_ptr }.to_le_bytes());
            body.extend({ ci.oem_product_name_ptr }.to_le_bytes());
            body.extend({ ci.oem_product_revision_ptr }.to_le_bytes());
            body.extend([0u8; 222 + 256]);
            // ModeInfoBlock
            body.extend({ mi.mode_attributes }.bits().to_le_bytes());
            body.push({ mi.window_a_attributes }.bits());
            body.push({ mi.window_b_attributes }.bits());
            body.extend({ mi.window_granularity }.to_le_bytes());
            body.extend({ mi.window_size }.to_le_bytes());
            body.extend({ mi.window_a_segment }.to_le_bytes());
            body.extend({ mi.window_b_segment }.to_le_bytes());
            body.extend({ mi.window_function_ptr }.to_le_bytes());
            body.extend({ mi.pitch }.to_le_bytes());
            body.extend({ mi.resolution }.0.to_le_bytes());
            body.extend({ mi.resolution }.1.to_le_bytes());
            body.push({ mi.character_size }.0);
            body.push({ mi.character_size }.1);
            body.push(mi.number_of_planes);
            body.push(mi.bpp);
            body.push(mi.number_of_banks);
            body.push(mm);
            body.push(mi.bank_size);
            body.push(mi.number_of_image_pages);
            body.push(0);
            for fld in [mi.red_field, mi.green_field, mi.blue_field, mi.reserved_field] {
                body.push(fld.size);
                body.push(fld.position);
            }
            body.push({ mi.direct_color_attributes }.bits());
            body.extend({ mi.framebuffer_base_ptr }.to_le_bytes());
            body.extend({ mi.offscreen_memory_offset }.to_le_bytes());
            body.extend({ mi.offscreen_memory_size }.to_le_bytes());
            body.extend([0u8; 206]);
            let t = m::VBEInfoTag::new(mo, sg, of, ln, ci, mi);
            rb!(rbv, "mode", t.mode(), mo);
            rb!(rbv, "interface_segment", t.interface_segment(), sg);
            rb!(rbv, "interface_offset", t.interface_offset(), of);
            rb!(rbv, "interface_length", t.interface_length(), ln);
            if t.control_info() != ci || t.mode_info() != mi {
                rbv.push("control_info()/mode_info() differ from the arguments".into());
            }
            let mut x = sized!("VBEInfoTag::new", m::VBEInfoTag, move || m::VBEInfoTag::new(mo, sg, of, ln, ci, mi), tag(7, &body));
            x.id = mbi_id::<m::VBEInfoTag>();
            x
        }
        25 => {
            // the generic tag header itself
            let (ty, sz) = (a.u32(), a.u32());
            let hd = m::TagHeader::new(m::TagType::from(ty), sz);
            let mut v: Vec<u8> = vec![];
            v.extend(u32::from(hd.typ).to_le_bytes());
            v.extend(hd.size.to_le_bytes());
            let mut spec = vec![];
            spec.extend(ty.to_le_bytes());
            spec.extend(sz.to_le_bytes());
            return Built { name: "TagHeader::new", bytes: v, spec, mask: vec![], id: ty, readback: if hd.size != sz { vec!["size differs".into()] } else { vec![] }, placement: None };
        }
        // ---- header crate -------------------------------------------------
        26 => {
            let (fl, fw) = flag(a.u64());
            let (ha, la, le, be) = (a.u32(), a.u32(), a.u32(), a.u32());
            let t = h::AddressHeaderTag::new(fl, ha, la, le, be);
            rb!(rbv, "header_addr", t.header_addr(), ha);
            rb!(rbv, "load_addr", t.load_addr(), la);
            rb!(rbv, "load_end_addr", t.load_end_addr(), le);
            rb!(rbv, "bss_end_addr", t.bss_end_addr(), be);
            rb!(rbv, "flags", t.flags() as u16, fw);
            rb!(rbv, "typ", t.typ() as u16, 2);
            rb!(rbv, "size", t.size(), 24);
            let mut body = vec![];
            body.extend(ha.to_le_bytes());
            body.extend(la.to_le_bytes());
            body.extend(le.to_le_bytes());
            body.extend(be.to_le_bytes());
            let mut x = sized!("AddressHeaderTag::new", h::AddressHeaderTag, move || h::AddressHeaderTag::new(fl, ha, la, le, be), hdr_tag(2, fw, &body));
            x.id = hdr_id::<h::AddressHeaderTag>();
            x
        }
        27 => {
            let (fl, fw) = flag(a.u64());
            let (cf, cw) = if a.u64() & 1 == 0 { (h::ConsoleHeaderTagFlags::ConsoleRequired, 0u32) } else { (h::ConsoleHeaderTagFlags::EgaTextSupported, 1u32) };
            let t = h::ConsoleHeaderTag::new(fl, cf);
            rb!(rbv, "console_flags", t.console_flags() as u32, cw);
            rb!(rbv, "flags", t.flags() as u16, fw);
            rb!(rbv, "size", t.size(), 12);
            let mut x = sized!("ConsoleHeaderTag::new", h::ConsoleHeaderTag, move || h::ConsoleHeaderTag::new(fl, cf), hdr_tag(4, fw, &cw.to_le_bytes()));
            x.id = hdr_id::<h::ConsoleHeaderTag>();
            x
        }
        38 => {
            // the same tags through their Default impls
            let t = h::EndHeaderTag::default();
            rb!(rbv, "typ", t.typ() as u16, 0);
            rb!(rbv, "flags", t.flags() as u16, 0);
            rb!(rbv, "size", t.size(), 8);
            let mut x = sized!("EndHeaderTag::default", h::EndHeaderTag, h::EndHeaderTag::default, hdr_tag(0, 0, &[]));
            x.id = hdr_id::<h::EndHeaderTag>();
            x
        }
        39 => {
            let mut x = sized!("EFIBootServicesNotExitedTag::default", m::EFIBootServicesNotExitedTag, m::EFIBootServicesNotExitedTag::default, tag(18, &[]));
            x.id = mbi_id::<m::EFIBootServicesNotExitedTag>();
            x
        }
        28 => {
            let t = h::EndHeaderTag::new();
            rb!(rbv, "typ", t.typ() as u16, 0);
            rb!(rbv, "flags", t.flags() as u16, 0);
            rb!(rbv, "size", t.size(), 8);
            let mut x = sized!("EndHeaderTag::new", h::EndHeaderTag, h::EndHeaderTag::new, hdr_tag(0, 0, &[]));
            x.id = hdr_id::<h::EndHeaderTag>();
            x
        }
        29 | 30 | 31 => {
            let (fl, fw) = flag(a.u64());
            let ea = a.u32();
            match c.ctor {
                29 => {
                    let t = h::EntryAddressHeaderTag::new(fl, ea);
                    rb!(rbv, "entry_addr", t.entry_addr(), ea);
                    rb!(rbv, "flags", t.flags() as u16, fw);
                    rb!(rbv, "size", t.size(), 12);
                    let mut x = sized!("EntryAddressHeaderTag::new", h::EntryAddressHeaderTag, move || h::EntryAddressHeaderTag::new(fl, ea), hdr_tag(3, fw, &ea.to_le_bytes()));
                    x.id = hdr_id::<h::EntryAddressHeaderTag>();
                    x
                }
                30 => {
                    let t = h::EntryEfi32HeaderTag::new(fl, ea);
                    rb!(rbv, "entry_addr", t.entry_addr(), ea);
                    rb!(rbv, "flags", t.flags() as u16, fw);
                    let mut x = sized!("EntryEfi32HeaderTag::new", h::EntryEfi32HeaderTag, move || h::EntryEfi32HeaderTag::new(fl, ea), hdr_tag(8, fw, &ea.to_le_bytes()));
                    x.id = hdr_id::<h::EntryEfi32HeaderTag>();
                    x
                }
                _ => {
                    let t = h::EntryEfi64HeaderTag::new(fl, ea);
                    rb!(rbv, "entry_addr", t.entry_addr(), ea);
                    rb!(rbv, "flags", t.flags() as u16, fw);
                    let mut x = sized!("EntryEfi64HeaderTag::new", h::EntryEfi64HeaderTag, move || h::EntryEfi64HeaderTag::new(fl, ea), hdr_tag(9, fw, &ea.to_le_bytes()));
                    x.id = hdr_id::<h::EntryEfi64HeaderTag>();
                    x
                }
            }
        }
        32 => {
            let (fl, fw) = flag(a.u64());
            let (wi, he, de) = (a.u32(), a.u32(), a.u32());
            let t = h::FramebufferHeaderTag::new(fl, wi, he, de);
            rb!(rbv, "width", t.width(), wi);
            rb!(rbv, "height", t.height(), he);
            rb!(rbv, "depth", t.depth(), de);
            rb!(rbv, "flags", t.flags() as u16, fw);
            rb!(rbv, "size", t.size(), 20);
            let mut body = vec![];
            body.extend(wi.to_le_bytes());
            body.extend(he.to_le_bytes());
            body.extend(de.to_le_bytes());
            let mut x = sized!("FramebufferHeaderTag::new", h::FramebufferHeaderTag, move || h::FramebufferHeaderTag::new(fl, wi, he, de), hdr_tag(5, fw, &body));
            x.id = hdr_id::<h::FramebufferHeaderTag>();
            x
        }
        33 => {
            let (fl, fw) = flag(a.u64());
            let n = (content.len() / 2).min(32);
            let reqs: Vec<h::MbiTagTypeId> = (0..n).map(|_| h::MbiTagTypeId::new(a.u32())).collect();
            let t = h::InformationRequestHeaderTag::new(fl, &reqs);
            if t.requests() != &reqs[..] {
                rbv.push("requests() differs".into());
            }
            rb!(rbv, "flags", t.flags() as u16, fw);
            rb!(rbv, "size", t.size(), 8 + 4 * n);
            let mut body = vec![];
            for r in &reqs {
                body.extend(u32::from(*r).to_le_bytes());
            }
            Built { name: "InformationRequestHeaderTag::new", bytes: t.as_bytes().to_vec(), spec: hdr_tag(1, fw, &body), mask: vec![], id: hdr_id::<h::InformationRequestHeaderTag>(), readback: vec![], placement: None }
        }
        34 => {
            let (fl, fw) = flag(a.u64());
            let mut x = sized!("ModuleAlignHeaderTag::new", h::ModuleAlignHeaderTag, move || h::ModuleAlignHeaderTag::new(fl), hdr_tag(6, fw, &[]));
            x.id = hdr_id::<h::ModuleAlignHeaderTag>();
            x
        }
        35 => {
            let (fl, fw) = flag(a.u64());
            let (mn, mx, al) = (a.u32(), a.u32(), a.u32());
            let (pf, pw) = match a.u64() % 3 {
                0 => (h::RelocatableHeaderTagPreference::None, 0u32),
                1 => (h::RelocatableHeaderTagPreference::Low, 1),
                _ => (h::RelocatableHeaderTagPreference::High, 2),
            };
            let t = h::RelocatableHeaderTag::new(fl, mn, mx, al, pf);
            rb!(rbv, "min_addr", t.min_addr(), mn);
            rb!(rbv, "max_addr", t.max_addr(), mx);
            rb!(rbv, "align", t.align(), al);
            rb!(rbv, "preference", t.preference() as u32, pw);
            rb!(rbv, "flags", t.flags() as u16, fw);
            let mut body = vec![];
            body.extend(mn.to_le_bytes());
            body.extend(mx.to_le_bytes());
            body.extend(al.to_le_bytes());
            body.extend(pw.to_le_bytes());
            let mut x = sized!("RelocatableHeaderTag::new", h::RelocatableHeaderTag, move || h::RelocatableHeaderTag::new(fl, mn, mx, al, pf), hdr_tag(10, fw, &body));
            x.id = hdr_id::<h::RelocatableHeaderTag>();
            x
        }
        36 => {
            let (fl, fw) = flag(a.u64());
            let mut x = sized!("EfiBootServiceHeaderTag::new", h::EfiBootServiceHeaderTag, move || h::EfiBootServiceHeaderTag::new(fl), hdr_tag(7, fw, &[]));
            x.id = hdr_id::<h::EfiBootServiceHeaderTag>();
            x
        }
        _ => {
            // custom boot-information tag through the generic constructor
            let ty = 22 + a.u32() % 1000;
            let t = multiboot2_common::new_boxed::<m::DynSizedStructure<m::TagHeader>>(m::TagHeader::new(m::TagType::Custom(ty), 0), &[content]);
            Built { name: "new_boxed::<DynSizedStructure<TagHeader>>", bytes: t.as_bytes().to_vec(), spec: tag(ty, content), mask: vec![], id: ty, readback: vec![], placement: None }
        }
    };
    b.readback = rbv;
    b
}

pub fn eval(c: &Case, obs: &mut Obs) -> Result<(), String> {
    if c.ctor >= N_CTORS {
        return Err("malformed case".into());
    }
    let built = match mb2_model::panics::catch(|| build(c)) {
        Some(b) => b,
        None => return Err(format!("constructor #{} (or one of its accessors / as_bytes) panicked", c.ctor)),
    };
    let name = built.name;
    obs.class(format!("!{name}"));
    if c.ctor == 25 {
        // a bare tag header: both words are arguments
        obs.nontrivial(fnv(&built.spec) ^ 25);
        return if built.bytes == built.spec && built.readback.is_empty() {
            Ok(())
        } else {
            Err(format!("TagHeader::new: stored words {} differ from the arguments {}", hex(&built.bytes), hex(&built.spec)))
        };
    }
    let spec = &built.spec;
    let size = spec.len();
    if size % 8 != 0 || c.words.iter().all(|w| *w != 0) {
        obs.nontrivial(fnv(spec) ^ c.ctor as u64);
        obs.sample(json!({"constructor": name, "spec_image": sample_bytes(spec)}));
    }
    if built.bytes.len() != r8(size) {
        return Err(format!("{name}: as_bytes() has {} bytes, the spec image of {size} bytes needs {}", built.bytes.len(), r8(size)));
    }
    let stored_size = le32(&built.bytes, 4) as usize;
    if stored_size != size {
        return Err(format!("{name}: size field {stored_size}, the exact unpadded byte count of the fields and content is {size}"));
    }
    let is_hdr = (26..=36).contains(&c.ctor);
    let typ = if is_hdr { le16(&built.bytes, 0) as u32 } else { le32(&built.bytes, 0) };
    let spec_typ = if is_hdr { le16(spec, 0) as u32 } else { le32(spec, 0) };
    if typ != spec_typ || built.id != spec_typ {
        return Err(format!("{name}: type field {typ}, ID constant {}, specified number {spec_typ}", built.id));
    }
    for i in 0..size {
        if built.mask.contains(&i) {
            continue;
        }
        if built.bytes[i] != spec[i] {
            return Err(format!("{name}: byte {i} is {:#04x}, the specification's little-endian encoding has {:#04x} (built {} / spec {})", built.bytes[i], spec[i], hex(&built.bytes[..size.min(64)]), hex(&spec[..size.min(64)])));
        }
    }
    if let Some(r) = built.readback.first() {
        return Err(format!("{name}: read-back: {r}"));
    }
    if let Some(p) = built.placement {
        return Err(format!("{name}: {p}"));
    }
    Ok(())
}

fn strategy(_: &Ctx) -> BoxedStrategy<Case> {
    let word = prop_oneof![
        12 => any::<u64>(),
        2 => Just(0u64),
        2 => Just(u64::MAX),
        1 => Just(0x8000_0000_8000_8080u64),
        2 => (0u64..8),
        // numbers that mean something in a neighbouring specification or on a PC:
        // reserved ELF indices, header sizes, the EGA/VGA windows, text geometries,
        // depths, table lengths, the 16- and 32-bit marks
        3 => proptest::sample::select(vec![0xffffu64, 0xfff1, 0xff00, 40, 64, 0xb8000, 0xa0000, 80, 25, 43, 50, 16, 24, 32, 36, 20, 0x7fff_ffff, 0x1_0000, 0x1_0000_0000]),
        // one byte value in all eight bytes (zeroed, erased, poisoned memory)
        2 => any::<u8>().prop_map(|b| u64::from_le_bytes([b; 8])),
    ];
    let content = prop_oneof![
        3 => proptest::collection::vec(any::<u8>(), 0..=80),
        2 => (0u8..8, any::<u64>(), 0usize..48).prop_map(|(v, k, n)| mb2_model::realistic::blob(v, k, n)),
    ];
    (
        0u8..N_CTORS,
        proptest::collection::vec(word, 64),
        content,
        "[^\\x00]{0,40}",
    )
        .prop_map(|(ctor, mut words, mut content, mut text)| {
            // some texts carry an interior and/or a trailing NUL
            let sel = words[63];
            if sel % 5 == 0 {
                let at = text.char_indices().nth(text.chars().count() / 2).map(|(i, _)| i).unwrap_or(0);
                text.insert(at, '\0');
            }
            if sel % 7 == 0 {
                text.push('\0');
            }
            // ELF sections: every second call gets coherent arguments - a section
            // table as a linker writes it (small link indices), its entry count and
            // entry size, and a string-table index that is in range or one of the
            // reserved ELF indices
            if ctor == 10 && sel % 2 == 0 {
                let es = if sel & 2 == 0 { 40usize } else { 64 };
                let k = 1 + (sel >> 2) as usize % 4;
                content.clear();
                for j in 0..k {
                    content.extend(mb2_model::realistic::elf_section_header(es, j as u32, [0u32, 1, 3, 2][j % 4], 6, 0x10_0000 * j as u64, 0x100, ((sel >> (8 + 2 * j)) as usize % k) as u32, sel, j));
                }
                words[0] = k as u64;
                words[1] = es as u64;
                words[2] = [0u64, (k - 1) as u64, 0xffff, 0xfff1, 0xff00, k as u64][(sel >> 5) as usize % 6];
            }
            // framebuffer: every second call describes a mode that occurs (address,
            // geometry, and a depth with the channel layout that belongs to it:
            // 5:5:5 at 15 and 16 bpp, 5:6:5, 8:8:8 at 24 and 32 bpp, 3:3:2)
            if (12..=14).contains(&ctor) && sel % 2 == 0 {
                use mb2_model::realistic::{FB_ADDRS, HEIGHTS, WIDTHS};
                const FORMATS: [(u64, [u64; 6]); 6] = [(15, [10, 5, 5, 5, 0, 5]), (16, [10, 5, 5, 5, 0, 5]), (16, [11, 5, 5, 6, 0, 5]), (24, [16, 8, 8, 8, 0, 8]), (32, [16, 8, 8, 8, 0, 8]), (8, [5, 3, 2, 3, 0, 2])];
                let (bpp, rgb) = FORMATS[(sel >> 3) as usize % FORMATS.len()];
                let wi = WIDTHS[(sel >> 8) as usize % WIDTHS.len()] as u64;
                words[0] = FB_ADDRS[(sel >> 12) as usize % FB_ADDRS.len()];
                words[1] = wi * ((bpp + 7) / 8);
                words[2] = wi;
                words[3] = HEIGHTS[(sel >> 16) as usize % HEIGHTS.len()] as u64;
                words[4] = bpp;
                for (i, v) in rgb.iter().enumerate() {
                    words[5 + i] = *v;
                }
            }
            Case { ctor, words, content: Hex(content), text }
        })
        .boxed()
}

/// Every constructor x every content length 0..=40 (all padding residues) with
/// byte-marked arguments.
fn enumerate(_: &Ctx) -> Box<dyn Iterator<Item = Case>> {
    let it = (0..N_CTORS).flat_map(|ctor| {
        (0..=40usize).map(move |n| {
            let key = ctor as u64 * 1000 + n as u64;
            let words: Vec<u64> = (0..64).map(|i| u64::from_le_bytes(core::array::from_fn(|k| marker(key, 8 * i + k)))).collect();
            let content: Vec<u8> = (0..n).map(|i| marker(key ^ 0x55, i)).collect();
            let text: String = mb2_model::encode::ascii_markers(key, n, 0).into_iter().map(|b| b as char).collect();
            Case { ctor, words, content: Hex(content), text }
        })
    });
    Box::new(it)
}

/// Constructors that exist without the builder feature (fixed-size tags).
pub const SIZED_CTORS: [u8; 23] = [0, 1, 2, 5, 6, 7, 8, 9, 11, 15, 21, 22, 26, 27, 28, 29, 30, 31, 32, 34, 35, 36, 36];

/// The same constructor call made inside each of the four transcript servers
/// ({dev, release} x {default features, no default features}).
pub fn eval_configs(c: &Case, obs: &mut Obs) -> Result<(), String> {
    if !SIZED_CTORS.contains(&c.ctor) {
        return Err("malformed case: not a fixed-size constructor".into());
    }
    let built = match mb2_model::panics::catch(|| build(c)) {
        Some(b) => b,
        None => return Err(format!("constructor #{} panicked", c.ctor)),
    };
    let spec = &built.spec;
    obs.class(format!("!{}", built.name));
    obs.nontrivial(fnv(spec) ^ c.ctor as u64);
    obs.sample(json!({"constructor": built.name, "spec_image": sample_bytes(spec)}));
    let mut raw = Vec::new();
    for w in &c.words {
        raw.extend(w.to_le_bytes());
    }
    let answers = match super::c08::ask_line(&format!("K {} {}\n", c.ctor, hex(&raw))) {
        Ok(a) => a,
        Err(e) => {
            obs.inconclusive(format!("transcript servers: {e}"));
            return Ok(());
        }
    };
    for (cfg, text) in answers {
        let line = text.lines().next().unwrap_or("");
        let Some(h) = line.strip_prefix("bytes = '").and_then(|r| r.strip_suffix('\'')) else {
            return Err(format!("{} in configuration {cfg}: {line}", built.name));
        };
        let bytes = unhex(h).unwrap_or_default();
        if bytes.len() != r8(spec.len()) || le32(&bytes, 4) as usize != spec.len() || bytes[..spec.len()] != spec[..] {
            return Err(format!("{} built in configuration {cfg}: image {} (size field {}), the specification's encoding of the arguments is {} ({} bytes)", built.name, hex(&bytes[..bytes.len().min(64)]), if bytes.len() >= 8 { le32(&bytes, 4) } else { 0 }, hex(&spec[..spec.len().min(64)]), spec.len()));
        }
    }
    Ok(())
}

fn strategy_configs(ctx: &Ctx) -> BoxedStrategy<Case> {
    (strategy(ctx), proptest::sample::select(SIZED_CTORS.to_vec())).prop_map(|(mut c, ctor)| {
        c.ctor = ctor;
        c
    }).boxed()
}

fn enumerate_configs(ctx: &Ctx) -> Box<dyn Iterator<Item = Case>> {
    Box::new(enumerate(ctx).filter(|c| SIZED_CTORS.contains(&c.ctor) && c.content.0.len() % 8 == 0))
}

pub fn subs() -> Vec<Box<dyn Sub>> {
    vec![
        Box::new(super::fuzzsub::FuzzSub { target: "fuzz_build", name: "fuzz-build", runs: 20_000_000, quick_runs: 600_000, max_len: 512 }),Box::new(PropSub::<Case> {
        name: "constructors-all-configs",
        rule: "the 22 constructors of fixed-size tags (they exist without the builder feature) called with the same argument words inside four separately compiled servers - {dev, release} x {default features, --no-default-features} - and compared with the independent encoder: as_bytes() length, size field, image up to the size. Enumerated: each such constructor with 6 byte-marked argument sets; generated: random / boundary words. Every case is non-trivial; distinct by hash(spec image, constructor)",
        profiles: Profiles::ReleaseOnly,
        quick: 2000,
        thorough: 50000,
        strategy: strategy_configs,
        enumerate: Some(enumerate_configs),
        enum_exhaustive: false,
        eval: eval_configs,
    }),
    Box::new(PropSub::<Case> {
        name: "constructors",
        rule: "38 public constructors of both crates (all tag kinds incl. the three framebuffer variants, both EFI-map constructors, MemoryArea, TagHeader, generic custom tags; all 11 header-tag kinds). Enumerated: every constructor x content length 0..=40 with byte-marked arguments; generated: random / boundary argument words, contents up to 80 bytes. Oracle: type field == specified number == ID constant; size field == exact unpadded byte count; as_bytes()[..size] == the independent little-endian encoder's image (padding inside argument structs masked); accessors return the arguments; for sized tags as_bytes() works and agrees for the tag placed as local, boxed, array/vec element, and struct field behind a u32 / 12 bytes. Non-trivial = size not a multiple of 8 or all argument words non-zero; distinct by hash(spec image, constructor)",
        profiles: Profiles::Both,
        quick: 60000,
        thorough: 4000000,
        strategy,
        enumerate: Some(enumerate),
        enum_exhaustive: false,
        eval,
    })]
}
