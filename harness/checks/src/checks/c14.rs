//! C14 - raw bytes become a structure only when aligned, padded and
//! size-consistent; the rounding function.

use crate::runner::*;
use mb2_model::*;
use multiboot2_common::{BytesRef, DynSizedStructure, Header, MemoryError};
use proptest::prelude::*;
use serde::{Deserialize, Serialize};
use serde_json::{json, Value};

#[derive(Clone, Debug, Serialize, Deserialize)]
pub struct Case {
    /// 0 DummyTestHeader, 1 TagHeader, 2 BootInformationHeader,
    /// 3 HeaderTagHeader, 4 Multiboot2BasicHeader
    pub hdr: u8,
    pub len: usize,
    pub mis: usize,
    pub declared: u32,
    pub key: u64,
    /// Some(x): the first eight bytes behind the header hold x (little endian) -
    /// content that an "extended size" convention of other formats would read
    #[serde(default)]
    pub payload64: Option<u64>,
}

fn hdr_size(h: u8) -> usize {
    if h == 4 {
        16
    } else {
        8
    }
}

fn hdr_name(h: u8) -> &'static str {
    ["DummyTestHeader", "TagHeader", "BootInformationHeader", "HeaderTagHeader", "Multiboot2BasicHeader"][h as usize]
}

/// Slice content: markers, the declared size in the header's size field, and
/// defined values in the enumerated header fields.
fn content(c: &Case) -> Vec<u8> {
    let mut v: Vec<u8> = (0..c.len).map(|i| marker(c.key, i)).collect();
    let put = |v: &mut Vec<u8>, off: usize, x: u32| {
        if off + 4 <= v.len() {
            put32(v, off, x);
        }
    };
    // the words beside the size field: markers, zero (an end tag's type /
    // a zero magic), a small defined id, or the "right" value - success and
    // size must not depend on them
    let other = (c.key >> 9) & 3;
    // (one case in eight: every byte beside the size field is 0xFF - unwritten
    // flash / unmapped reads; one in eight: small numbers as other structures
    // carry them at this place, e.g. Multiboot 1's mem_lower <= 640)
    let extreme = (c.key >> 13) & 7;
    if extreme == 1 {
        for b in v.iter_mut().take(16) {
            *b = 0xFF;
        }
    } else if extreme == 2 {
        for w in 0..4 {
            put(&mut v, 4 * w, 1 + ((c.key >> (16 + 3 * w)) as u32 % 640));
        }
    }
    if let Some(x) = c.payload64 {
        let h = hdr_size(c.hdr);
        if v.len() >= h + 8 {
            v[h..h + 8].copy_from_slice(&x.to_le_bytes());
        }
    }
    match c.hdr {
        0 | 1 => {
            if extreme != 1 && extreme != 2 {
                match other {
                    1 => put(&mut v, 0, 0),
                    2 => put(&mut v, 0, (c.key >> 11) as u32 % 22),
                    _ => {}
                }
            }
            put(&mut v, 4, c.declared)
        }
        2 => {
            if other == 1 && extreme != 1 && extreme != 2 {
                put(&mut v, 4, 0);
            }
            put(&mut v, 0, c.declared)
        }
        3 => {
            put(&mut v, 0, (c.key % 11) as u32 | (((c.key >> 8) & 1) as u32) << 16);
            put(&mut v, 4, c.declared);
        }
        _ => {
            match other {
                1 => put(&mut v, 0, if c.key & 0x1000 == 0 { 0 } else { 0xD650_52E8 }),
                2 | 3 => put(&mut v, 0, 0xE852_50D6),
                _ => {}
            }
            put(&mut v, 4, if c.key & 1 == 0 { 0 } else { 4 });
            put(&mut v, 8, c.declared);
            if other == 3 && v.len() >= 16 {
                let ck = 0u32.wrapping_sub(0xE852_50D6u32.wrapping_add(le32(&v, 4)).wrapping_add(c.declared));
                put(&mut v, 12, ck);
            }
        }
    }
    v
}

#[derive(Debug, PartialEq, Eq, Clone)]
enum Out {
    Err(MemoryError),
    Panic,
    /// address offset from the slice start, header bytes equal, payload range
    /// equal to the slice's bytes, payload length, size_of_val
    Ok { same_addr: bool, hdr_eq: bool, payload_eq: bool, payload_len: usize, sov: usize },
}

fn run_real<H: Header>(slice: &[u8], hsz: usize) -> Out {
    let r = mb2_model::panics::catch(|| DynSizedStructure::<H>::ref_from_slice(slice));
    match r {
        None => Out::Panic,
        Some(Err(e)) => Out::Err(e),
        Some(Ok(s)) => {
            let same_addr = s as *const _ as *const u8 == slice.as_ptr();
            let hb = unsafe { core::slice::from_raw_parts(s.header() as *const H as *const u8, hsz) };
            let hdr_eq = slice.len() >= hsz && hb == &slice[..hsz];
            let p = s.payload();
            let payload_len = p.len();
            // (the reported payload may be absurdly large: never touch it unless
            // it lies inside the slice)
            let inside = hsz.checked_add(payload_len).map_or(false, |e| e <= slice.len());
            let payload_eq = inside && p == &slice[hsz..hsz + payload_len] && p.as_ptr() as usize == slice.as_ptr() as usize + hsz;
            let sov = if inside { core::mem::size_of_val(s) } else { usize::MAX };
            Out::Ok { same_addr, hdr_eq, payload_eq, payload_len, sov }
        }
    }
}

fn bytes_ref<H: Header>(slice: &[u8]) -> Result<usize, MemoryError> {
    BytesRef::<H>::try_from(slice).map(|b| b.len())
}

/// The case's header kind first, then the other four kinds on the *same
/// memory* (same address, same length, content rewritten for the kind): what
/// was decided for one header kind must not carry over to another.
pub fn eval(c: &Case, obs: &mut Obs) -> Result<(), String> {
    let data = content(c);
    let (mut a, mis) = Aligned::with_offset(&data, c.mis);
    eval_kind(c, &a, mis, obs)?;
    for d in 1..5u8 {
        let mut c2 = c.clone();
        c2.hdr = (c.hdr + d) % 5;
        let mut data = vec![0u8; mis];
        data.extend(content(&c2));
        a.overwrite(&data);
        let mut scratch = Obs::new();
        eval_kind(&c2, &a, mis, &mut scratch).map_err(|m| format!("{m} [on the memory that held a {} before]", hdr_name(c.hdr)))?;
    }
    Ok(())
}

fn eval_kind(c: &Case, a: &Aligned, mis: usize, obs: &mut Obs) -> Result<(), String> {
    let hsz = hdr_size(c.hdr);
    let slice = &a.as_slice()[mis..];
    let (out, br) = match c.hdr {
        0 => (run_real::<multiboot2_common::test_utils::DummyTestHeader>(slice, hsz), bytes_ref::<multiboot2_common::test_utils::DummyTestHeader>(slice)),
        1 => (run_real::<multiboot2::TagHeader>(slice, hsz), bytes_ref::<multiboot2::TagHeader>(slice)),
        2 => (run_real::<multiboot2::BootInformationHeader>(slice, hsz), bytes_ref::<multiboot2::BootInformationHeader>(slice)),
        3 => (run_real::<multiboot2_header::HeaderTagHeader>(slice, hsz), bytes_ref::<multiboot2_header::HeaderTagHeader>(slice)),
        _ => (run_real::<multiboot2_header::Multiboot2BasicHeader>(slice, hsz), bytes_ref::<multiboot2_header::Multiboot2BasicHeader>(slice)),
    };
    let len = c.len;
    let declared = c.declared as usize;
    // ---- oracle -----------------------------------------------------------
    let pre = if len < hsz {
        Some(MemoryError::ShorterThanHeader)
    } else if c.mis % 8 != 0 {
        Some(MemoryError::WrongAlignment)
    } else if len % 8 != 0 {
        Some(MemoryError::MissingPadding)
    } else {
        None
    };
    // BytesRef::try_from: exactly the first three checks
    let br_want = match pre {
        Some(e) => Err(e),
        None => Ok(len),
    };
    if br != br_want {
        return Err(format!("BytesRef::<{}>::try_from(len {len}, misalignment {}): expected {br_want:?}, got {br:?}", hdr_name(c.hdr), c.mis));
    }
    let class;
    let verdict: Result<(), String> = if let Some(e) = pre {
        class = format!("{e:?}");
        if out == Out::Err(e) {
            Ok(())
        } else {
            Err(format!("expected Err({e:?}), got {out:?}"))
        }
    } else if declared > len {
        class = "oversized-declaration".into();
        if out == Out::Err(MemoryError::InvalidReportedTotalSize) {
            Ok(())
        } else {
            Err(format!("declared size {declared} exceeds the {len}-byte slice: expected Err(InvalidReportedTotalSize), got {out:?}"))
        }
    } else if declared < hsz {
        class = "declaration-below-header".into();
        match &out {
            Out::Err(_) | Out::Panic => Ok(()),
            Out::Ok { same_addr: true, hdr_eq: true, payload_len: 0, sov, .. } if *sov == hsz => Ok(()),
            o => Err(format!("declared size {declared} is below the header size: must be an error, a panic, or a bare header; got {o:?}")),
        }
    } else {
        class = "valid".into();
        let want = Out::Ok { same_addr: true, hdr_eq: true, payload_eq: true, payload_len: declared - hsz, sov: r8(declared) };
        if out == want && r8(declared) <= len {
            Ok(())
        } else {
            Err(format!("expected {want:?}, got {out:?}"))
        }
    };
    obs.class(class.clone());
    let plain = class == "valid" && declared == len;
    if !plain {
        obs.nontrivial(fnv(format!("{}/{}/{}/{}", c.hdr, c.len, c.mis, c.declared).as_bytes()));
        obs.sample(json!({"header": hdr_name(c.hdr), "slice_len": c.len, "misalignment": c.mis, "declared": c.declared, "class": class}));
    }
    verdict.map_err(|m| format!("{} slice len {len} misalignment {} declared {declared}: {m}", hdr_name(c.hdr), c.mis))
}

fn enumerate(ctx: &Ctx) -> Box<dyn Iterator<Item = Case>> {
    let max_len = if ctx.tier == Tier::Thorough { 88 } else { 56 };
    let it = (0u8..5).flat_map(move |hdr| {
        (0..=max_len).flat_map(move |len| {
            (0..8usize).flat_map(move |mis| {
                (0..=(len + 16) as u32).map(move |declared| Case { hdr, len, mis, declared, key: (len * 8 + mis) as u64 | ((declared as u64 + len as u64) % 4) << 9 | (declared as u64) << 11, payload64: None })
            })
        })
    });
    // a size field of all ones (with the other header bytes all ones, markers or zero)
    let ones = (0u8..5).flat_map(|hdr| [8usize, 16, 24, 64].into_iter().flat_map(move |len| (0..8u64).map(move |k| Case { hdr, len, mis: 0, declared: u32::MAX, key: k << 13 | (k & 3) << 9, payload64: None })));
    // escape values in the size field (all ones, all ones - 1, zero) with a small
    // 64-bit number right behind the header, as formats with an "extended size" have it
    let esc = (0u8..5).flat_map(|hdr| {
        [24usize, 32, 64].into_iter().flat_map(move |len| {
            [u32::MAX, u32::MAX - 1, 0, 1].into_iter().flat_map(move |declared| {
                let h = hdr_size(hdr) as u64;
                [h, h + 8, 16, 24, len as u64, len as u64 + 8].into_iter().map(move |x| Case { hdr, len, mis: 0, declared, key: x, payload64: Some(x) })
            })
        })
    });
    Box::new(it.chain(ones).chain(esc))
}

/// Sizes at which a structure crosses something a specification or the
/// library mentions (search window, page, header limit, u16).
const BOUNDS: [usize; 6] = [4096, 8192, 16384, 32768, 65536, 66000];

fn strategy(_: &Ctx) -> BoxedStrategy<Case> {
    let len = prop_oneof![
        6 => 0usize..4096,
        1 => 4096usize..70000,
        1 => (0usize..BOUNDS.len(), 0usize..48).prop_map(|(b, d)| (BOUNDS[b] + 24 - d) / 8 * 8),
    ];
    (0u8..5, len, prop_oneof![3 => Just(0usize), 1 => 0usize..8], any::<u32>(), any::<u64>(), 0u8..8)
        .prop_map(|(hdr, len, mis, d, key, mode)| {
            let declared = match mode {
                0 => len as u32,
                1 => (len as u32).wrapping_add(d % 17),
                2 => (len as u32).saturating_sub(d % 17),
                3 => d % 32,
                4 => if d % 16 == 0 { u32::MAX } else { d },
                6 => (BOUNDS[d as usize % BOUNDS.len()] as u32 + 8).saturating_sub((d >> 8) % 17),
                7 => d % (len as u32 + 1),
                _ => (len as u32 / 8 * 8).saturating_sub(d % 9),
            };
            let len = if mode == 5 { len / 8 * 8 } else { len };
            Case { hdr, len, mis, declared, key, payload64: if key % 19 == 0 { Some(key >> 32 & 0xff) } else { None } }
        })
        .boxed()
}

// ---------------------------------------------------------------------------
// rounding

fn round_ok(x: usize) -> Result<(), String> {
    let r = multiboot2_common::increase_to_alignment(x);
    if r >= x && r % 8 == 0 && r - x < 8 {
        Ok(())
    } else {
        Err(format!("increase_to_alignment({x}) = {r}: must be the least multiple of 8 that is >= the argument"))
    }
}

fn run_round(ctx: &Ctx, rep: &mut SubReport) {
    let mut fail = |rep: &mut SubReport, x: usize, m: String| {
        rep.violations.push(Violation { sub: "rounding".into(), profile: profile_name().into(), message: m, case: json!({"x": x}) });
    };
    let full = ctx.tier == Tier::Thorough && profile_name() == "release";
    if full {
        // all x < 2^32, partitioned over the workers
        let n = 1u64 << 32;
        let lo = n * ctx.worker as u64 / ctx.workers as u64;
        let hi = n * (ctx.worker as u64 + 1) / ctx.workers as u64;
        for x in lo..hi {
            if let Err(m) = round_ok(x as usize) {
                fail(rep, x as usize, m);
                return;
            }
        }
        rep.evaluations += hi - lo;
        for x in lo..(lo + (1 << 16)).min(hi) {
            if x % 8 != 0 {
                rep.nontrivial.insert(x);
            }
        }
        rep.exhaustive = true;
        rep.notes.push("all 2^32 arguments enumerated (release build); the distinct-nontrivial set records only a 2^16 prefix per worker to bound memory".into());
    } else {
        // stratified: every x < 2^16, every 2^k +- 0..16, stride samples
        let mut xs: Vec<u64> = (0..(1u64 << 16)).filter(|x| ctx.mine(*x)).collect();
        for k in 3..=32u32 {
            for d in 0..=16u64 {
                xs.push((1u64 << k).wrapping_sub(d).min(u32::MAX as u64));
                xs.push(((1u64 << k) + d).min(u32::MAX as u64));
            }
        }
        let mut s = ctx.seed.wrapping_mul(0x9E3779B97F4A7C15) ^ ctx.worker as u64;
        for _ in 0..(1 << 17) {
            // xorshift: fixed stratified sample, a pure function of the seed
            s ^= s << 13;
            s ^= s >> 7;
            s ^= s << 17;
            xs.push(s & 0xFFFF_FFFF);
        }
        for x in xs {
            if let Err(m) = round_ok(x as usize) {
                fail(rep, x as usize, m);
                return;
            }
            rep.evaluations += 1;
            if x % 8 != 0 {
                rep.nontrivial.insert(x);
            }
        }
    }
    rep.samples.push(json!({"x": 4294967289u64, "expect": 4294967296u64}));
    rep.samples.push(json!({"x": 9, "expect": 16}));
}

fn replay_round(v: &Value) -> Result<(), String> {
    round_ok(v["x"].as_u64().unwrap_or(0) as usize)
}

pub fn subs() -> Vec<Box<dyn Sub>> {
    vec![
        Box::new(PropSub::<Case> {
            name: "ref_from_slice",
            rule: "DynSizedStructure::<H>::ref_from_slice and BytesRef::<H>::try_from for H in {DummyTestHeader, TagHeader, BootInformationHeader, HeaderTagHeader, Multiboot2BasicHeader}. Enumerated completely: slice length 0..=56 (thorough 88) x start misalignment 0..=7 x declared size 0..=len+16. The header's other words (type, reserved, magic) are markers, all ones, small numbers (1..=640), zero, the byte-swapped magic, a small defined id or the right value: success and size must not depend on them. Every case is evaluated for its header kind and then, on the same memory (same address and length), for the other four kinds. Generated: lengths to 70000 incl. 8-aligned lengths around 4096/8192/16384/32768/65536, declared sizes around the length / around those bounds / tiny / uniform below the length / random. Oracle: error precedence of the statement, then address/header/payload/size_of_val equalities. Non-trivial = every case except (valid, declared == len); distinct by (header, len, misalignment, declared)",
            profiles: Profiles::Both,
            quick: 40000,
            thorough: 3000000,
            strategy,
            enumerate: Some(enumerate),
            enum_exhaustive: false,
            eval,
        }),
        Box::new(LoopSub {
            name: "rounding",
            profiles: Profiles::Both,
            rule: "increase_to_alignment(x): result >= x, multiple of 8, less than 8 above x. Thorough/release: every x < 2^32 (exhaustive); otherwise every x < 2^16, every 2^k +- 0..=16, 2^17 seeded samples below 2^32. Non-trivial = x not a multiple of 8",
            run: run_round,
            replay: replay_round,
        }),
    ]
}
