//! Engine D glue: libFuzzer/ASan campaigns (thorough tier) and the replay of
//! seeds / saved fuzzer inputs through the stable, sandboxed oracle (every tier).

use crate::known;
use crate::runner::*;
use crate::sbx::{self, Boxed, Place};
use mb2_model::exercise_hdr::HdrOpts;
use mb2_model::exercise_mbi::MbiOpts;
use mb2_model::expect_hdr::expect_hdr;
use mb2_model::expect_mbi::{expect_mbi, expect_single_tag, ExpectOpts};
use mb2_model::fuzzdec::{self, Find};
use mb2_model::transcript::Val;
use mb2_model::*;
use serde::{Deserialize, Serialize};
use serde_json::{json, Value};
use std::path::PathBuf;
use std::process::Command;

#[derive(Clone, Debug, Serialize, Deserialize)]
pub struct FuzzCase {
    pub target: String,
    pub input: Hex,
    /// true: produced by a libFuzzer campaign (replay also through the ASan binary)
    #[serde(default)]
    pub from_campaign: bool,
}

fn verif_dir() -> PathBuf {
    PathBuf::from(std::env::var("VERIF_DIR").unwrap_or_else(|_| "/verif".into()))
}

fn stored(k: &str) -> bool {
    !k.split('.').any(|seg| seg == "dbg" || seg.starts_with('~'))
}

fn d16_open() -> bool {
    known::open(super::c01::D16_SIG).is_some()
}

/// The stable (guard-page, no ASan) oracle for one raw fuzzer input.
pub fn stable_oracle(target: &str, raw: &[u8]) -> Result<(), String> {
    match target {
        "fuzz_mbi" => {
            let (region, _) = fuzzdec::decode_mbi(raw, d16_open());
            if region.len() > sbx::GUARD_CAP {
                return Ok(());
            }
            let t = match sbx::mbi(&region, Place::End, MbiOpts { debug: true, max_steps: region.len() / 8 + 4, typed_all: true }) {
                Boxed::Done(t) => t,
                Boxed::Crash(s) => return Err(format!("crashed: {s}")),
                Boxed::Inconclusive(w) => return Err(format!("INCONCLUSIVE: {w}")),
            };
            mb2_model::extent::validate(&t, le32(&region, 0) as usize)?;
            let d = expect_mbi(&region, &ExpectOpts { typed_all: true }).diff(&t, &stored);
            if d.is_empty() {
                Ok(())
            } else {
                Err(d.join("; "))
            }
        }
        "fuzz_tag" => {
            let (kind, img) = fuzzdec::decode_tag(raw, d16_open());
            let t = match sbx::single_tag(&img, kind, MbiOpts { debug: true, max_steps: img.len() / 8 + 4, typed_all: true }) {
                Boxed::Done(t) => t,
                Boxed::Crash(s) => return Err(format!("kind {kind}: crashed: {s}")),
                Boxed::Inconclusive(w) => return Err(format!("INCONCLUSIVE: {w}")),
            };
            let tag_len = match t.get("ref") {
                Some(Val::Ext(0, l)) => *l,
                _ => 0,
            };
            for (k, v) in &t.lines {
                if let Some((o, l)) = v.extent() {
                    if o.checked_add(l).map_or(true, |e| e > tag_len) || tag_len > img.len() {
                        return Err(format!("kind {kind}: {k}: reference ({o},{l}) leaves the tag ({tag_len} bytes)"));
                    }
                }
            }
            let d = expect_single_tag(&img, kind).diff(&t, &stored);
            if d.is_empty() {
                Ok(())
            } else {
                Err(format!("kind {kind}: {}", d.join("; ")))
            }
        }
        "fuzz_hdr" => {
            let region = fuzzdec::decode_hdr(raw);
            let t = match sbx::hdr(&region, Place::End, HdrOpts { debug: true, max_steps: region.len() / 8 + 4 }) {
                Boxed::Done(t) => t,
                Boxed::Crash(s) => return Err(format!("crashed: {s}")),
                Boxed::Inconclusive(w) => return Err(format!("INCONCLUSIVE: {w}")),
            };
            mb2_model::extent::validate_from(&t, le32(&region, 8) as usize, 16)?;
            let d = expect_hdr(&region).diff(&t, &stored);
            if d.is_empty() {
                Ok(())
            } else {
                Err(d.join("; "))
            }
        }
        "fuzz_find" => {
            let want = fuzzdec::model_find(raw);
            let t = match sbx::with_guarded(raw, 0, Place::End, super::c13::run) {
                Boxed::Done(t) => t,
                Boxed::Crash(s) => return Err(format!("find_header crashed: {s}")),
                Boxed::Inconclusive(w) => return Err(format!("INCONCLUSIVE: {w}")),
            };
            let ok = match (&want, t.get("r")) {
                (Find::NoHeader, Some(Val::None)) => true,
                (Find::SomeErr, Some(Val::Err(_))) => true,
                (Find::Found(i, l), Some(Val::Ext(o, n))) => o == i && n == l,
                _ => false,
            };
            if ok {
                Ok(())
            } else {
                Err(format!("expected {want:?}, got {}", t.render().replace('\n', " ")))
            }
        }
        "fuzz_build" => build_logic::build_check(raw),
        _ => Err("unknown fuzz target".into()),
    }
}

/// The decoder and oracle of the `fuzz_build` target (one source file for the
/// fuzz target and for this replay path).
#[allow(dead_code)]
mod build_logic {
    include!("../../../../fuzz/fuzz_targets/build_logic.rs");
}

/// Encoder-generated seed inputs (also used as libFuzzer's starting corpus).
pub fn seeds(target: &str) -> Vec<Vec<u8>> {
    let mut v = Vec::new();
    match target {
        "fuzz_mbi" => {
            for k in 1..=21u32 {
                for (n, sel) in [(2usize, 0u32), (5, 1), (1, 2)] {
                    let r = mb2_model::encode::mbi(&[mb2_model::encode::conformant_tag(k, k as u64, n, sel)], 0, 0, true);
                    let mut raw = vec![0x0Fu8];
                    raw.extend(r);
                    v.push(raw);
                }
            }
            let all: Vec<Vec<u8>> = (1..=21u32).map(|k| mb2_model::encode::conformant_tag(k, 77, 2, k)).collect();
            let mut raw = vec![0x0Fu8];
            raw.extend(mb2_model::encode::mbi(&all, 0, 0, true));
            v.push(raw);
        }
        "fuzz_tag" => {
            for k in 0..=21u32 {
                for (n, sel) in [(2usize, 0u32), (4, 1), (0, 2)] {
                    let mut raw = vec![(k as u8) | 0x40];
                    raw.extend(mb2_model::encode::conformant_tag(k, k as u64 + 5, n, sel));
                    v.push(raw);
                }
            }
        }
        "fuzz_hdr" => {
            for k in 0..=10u32 {
                let tags = vec![mb2_model::encode::conformant_hdr_tag(k, k as u64, 3, k), mb2_model::encode::hdr_end_tag()];
                let mut raw = vec![0xFFu8];
                raw.extend(mb2_model::encode::hdr(0, &tags, 0));
                v.push(raw);
            }
            let all: Vec<Vec<u8>> = (1..=10u32).map(|k| mb2_model::encode::conformant_hdr_tag(k, 9, 2, k)).collect();
            let mut raw = vec![0xFFu8];
            raw.extend(mb2_model::encode::hdr(4, &all, 0));
            v.push(raw);
        }
        "fuzz_build" => {
            for sel in 0..7u8 {
                for n in [0usize, 5, 24] {
                    let mut raw = vec![sel | 0x30, 40, 90, 160, 220];
                    raw.extend((0..n).map(|i| b'a' + (i % 26) as u8));
                    v.push(raw);
                }
            }
            let mut raw = vec![1u8, 2, 8, 0, 0];
            raw.extend(mb2_model::realistic::blob(0, 7, 12));
            v.push(raw);
        }
        _ => {
            let h = mb2_model::encode::hdr(0, &[mb2_model::encode::hdr_end_tag()], 0);
            v.push(h.clone());
            let mut b = vec![0x11u8; 64];
            b.extend(&h);
            v.push(b);
            let mut b = vec![0x22u8; 8184];
            b.extend(&h);
            v.push(b);
            v.push(vec![0u8; 100]);
        }
    }
    v
}

pub struct FuzzSub {
    pub target: &'static str,
    pub name: &'static str,
    /// libFuzzer runs in the thorough tier (total over all processes)
    pub runs: u64,
    /// libFuzzer runs in the quick tier (total; one process per worker)
    pub quick_runs: u64,
    pub max_len: u32,
}

fn run_fuzz_binary(target: &str, args: &[String]) -> Result<(i32, String), String> {
    let mut c = Command::new("cargo");
    c.arg("+nightly").arg("fuzz").arg("run").arg("--fuzz-dir").arg(verif_dir().join("fuzz")).arg(target);
    for a in args {
        c.arg(a);
    }
    c.env("CARGO_NET_OFFLINE", "true").env("MB2_EXCLUDE_D16", if d16_open() { "1" } else { "0" }).current_dir(verif_dir());
    let out = c.output().map_err(|e| format!("cannot run cargo fuzz: {e}"))?;
    let mut text = String::from_utf8_lossy(&out.stderr).to_string();
    text.push_str(&String::from_utf8_lossy(&out.stdout));
    Ok((out.status.code().unwrap_or(-1), text))
}

impl Sub for FuzzSub {
    fn name(&self) -> &str {
        self.name
    }
    fn profiles(&self) -> Profiles {
        Profiles::ReleaseOnly
    }
    fn run(&self, ctx: &Ctx) -> SubReport {
        let mut rep = SubReport::new(
            self.name,
            "every tier: encoder-generated seed inputs and the saved inputs under /verif/replays/fuzz/<target>/ decoded by the shared decoder (selector byte + region bytes; total size / length / checksum / end tag fixed up by selector bits) and checked by the stable guard-page oracle (no crash, extents inside their tag, transcript == total reference model). Coverage-guided libFuzzer campaign (a short one in the quick tier where the sub-check says so, the long one in the thorough tier) of the same target built with AddressSanitizer (64 poisoned bytes around the region; while a typed tag is used everything outside that tag is poisoned), bounded by -runs, seeded by VERIF_SEED, starting from the seeds. Non-trivial = every distinct input; distinct by input hash",
        );
        // replay tier
        let mut inputs = seeds(self.target);
        if let Ok(rd) = std::fs::read_dir(verif_dir().join("replays").join("fuzz").join(self.target)) {
            let mut files: Vec<PathBuf> = rd.filter_map(|e| e.ok().map(|e| e.path())).collect();
            files.sort();
            for f in files {
                if let Ok(b) = std::fs::read(&f) {
                    inputs.push(b);
                }
            }
        }
        for (i, raw) in inputs.iter().enumerate() {
            if !ctx.mine(i as u64) {
                continue;
            }
            rep.evaluations += 1;
            rep.nontrivial.insert(fnv(raw));
            if rep.samples.len() < 2 {
                rep.samples.push(json!({"target": self.target, "raw_input": sample_bytes(raw)}));
            }
            match stable_oracle(self.target, raw) {
                Ok(()) => {}
                Err(m) if m.starts_with("INCONCLUSIVE") => rep.inconclusive.push(m),
                Err(m) => {
                    rep.violations.push(Violation { sub: self.name.into(), profile: profile_name().into(), message: format!("{}: {m}", self.target), case: serde_json::to_value(FuzzCase { target: self.target.into(), input: Hex(raw.clone()), from_campaign: false }).unwrap() });
                    return rep;
                }
            }
        }
        // campaign
        let tier_runs = if ctx.tier == Tier::Thorough { self.runs } else { self.quick_runs };
        if tier_runs == 0 {
            return rep;
        }
        let procs = if ctx.tier == Tier::Thorough { 2u64 } else { 1 }; // per worker; all workers take part
        // VERIF_FUZZ_RUNS overrides the campaign size (used by the sensitivity sweeps)
        let total = std::env::var("VERIF_FUZZ_RUNS").ok().and_then(|s| s.parse::<u64>().ok()).unwrap_or(tier_runs);
        let per = (total / (procs * ctx.workers as u64)).max(1);
        let work = verif_dir().join("fuzz").join("work").join(format!("{}-w{}", self.target, ctx.worker));
        let _ = std::fs::remove_dir_all(&work);
        let art = verif_dir().join("out").join("fuzz-artifacts").join(self.target);
        let _ = std::fs::create_dir_all(&art);
        let mut handles = Vec::new();
        for p in 0..procs {
            let corpus = work.join(format!("c{p}"));
            let _ = std::fs::create_dir_all(&corpus);
            for (i, s) in seeds(self.target).iter().enumerate() {
                let _ = std::fs::write(corpus.join(format!("seed{i:03}")), s);
            }
            let args = vec![
                corpus.display().to_string(),
                "--".into(),
                format!("-runs={per}"),
                format!("-seed={}", ctx.seed.wrapping_mul(1000).wrapping_add(ctx.worker as u64 * 10 + p + 1)),
                "-len_control=0".into(),
                format!("-max_len={}", self.max_len),
                "-print_final_stats=1".into(),
                "-timeout=20".into(),
                "-rss_limit_mb=4096".into(),
                format!("-artifact_prefix={}/", art.display()),
            ];
            let target = self.target.to_string();
            handles.push(std::thread::spawn(move || run_fuzz_binary(&target, &args)));
        }
        // A campaign that cannot be run or ends without a verdict (tooling trouble,
        // libFuzzer timeout/OOM) is inconclusive in the thorough tier; the short
        // campaign of the quick tier is then only noted - the quick tier's verdict
        // rests on the replayed inputs and the property-based sub-checks.
        let quick = ctx.tier != Tier::Thorough;
        let mut trouble = |rep: &mut SubReport, m: String| {
            if quick {
                rep.notes.push(format!("quick-tier campaign skipped: {m}"));
            } else {
                rep.inconclusive.push(m);
            }
        };
        for h in handles {
            match h.join() {
                Ok(Ok((code, text))) => {
                    let execs = text.lines().find_map(|l| l.strip_prefix("stat::number_of_executed_units:").map(|x| x.trim().parse::<u64>().unwrap_or(0))).unwrap_or(0);
                    rep.evaluations += execs;
                    let newu = text.lines().find_map(|l| l.strip_prefix("stat::new_units_added:").map(|x| x.trim().parse::<u64>().unwrap_or(0))).unwrap_or(0);
                    // distinct inputs libFuzzer kept (coverage-increasing): count them as distinct non-trivial
                    for k in 0..newu {
                        rep.nontrivial.insert(fnv(format!("{}-{}-{}-{k}", self.target, ctx.worker, execs).as_bytes()));
                    }
                    if code != 0 {
                        let artifact = text.lines().find_map(|l| l.split("Test unit written to ").nth(1)).map(|s| s.trim().to_string());
                        let why = text.lines().find(|l| l.contains("ORACLE-VIOLATION") || l.contains("ERROR: AddressSanitizer") || l.contains("HARNESS PANIC")).unwrap_or("fuzz target exited abnormally").to_string();
                        match artifact.and_then(|a| std::fs::read(a).ok()) {
                            Some(raw) => {
                                if text.contains("ERROR: libFuzzer: timeout") || text.contains("out-of-memory") {
                                    trouble(&mut rep, format!("{}: libFuzzer timeout/OOM on a {}-byte input", self.target, raw.len()));
                                } else {
                                    rep.violations.push(Violation { sub: self.name.into(), profile: "fuzz-asan".into(), message: format!("{}: {why}", self.target), case: serde_json::to_value(FuzzCase { target: self.target.into(), input: Hex(raw), from_campaign: true }).unwrap() });
                                }
                            }
                            None => trouble(&mut rep, format!("{}: cargo fuzz ended with {code} without an artifact: {}", self.target, text.lines().rev().find(|l| !l.trim().is_empty()).unwrap_or(""))),
                        }
                    }
                }
                Ok(Err(e)) => trouble(&mut rep, e),
                Err(_) => trouble(&mut rep, "fuzz runner thread panicked".into()),
            }
        }
        let _ = std::fs::remove_dir_all(&work);
        rep.notes.push(format!("libFuzzer/ASan campaign: {} processes x -runs={per} (this worker), max_len {}", procs, self.max_len));
        rep
    }
    fn replay(&self, case: &Value) -> Result<(), String> {
        let c: FuzzCase = serde_json::from_value(case.clone()).map_err(|e| e.to_string())?;
        stable_oracle(&c.target, &c.input.0)?;
        if c.from_campaign {
            // also through the sanitizer build that found it
            let tmp = verif_dir().join("out").join(format!("replay-{}-{:016x}", c.target, fnv(&c.input.0)));
            std::fs::write(&tmp, &c.input.0).map_err(|e| e.to_string())?;
            let r = run_fuzz_binary(&c.target, &[tmp.display().to_string()]);
            let _ = std::fs::remove_file(&tmp);
            match r {
                Ok((0, _)) => Ok(()),
                Ok((_, text)) => Err(text.lines().find(|l| l.contains("ORACLE-VIOLATION") || l.contains("ERROR: AddressSanitizer")).unwrap_or("the sanitizer build fails on this input").to_string()),
                Err(e) => Err(format!("INCONCLUSIVE: {e}")),
            }
        } else {
            Ok(())
        }
    }
}
