//! C08 - results do not depend on build profile or optional features.
//!
//! Differential over four separately compiled transcript servers
//! (/verif/transcript): {dev, release} x {default features, no default
//! features}. Each generated input is sent to all four; the address-free
//! transcripts of "load, walk, decode stored data" must be identical.

use crate::gen;
use crate::runner::*;
use mb2_model::expect_hdr::sanitize_hdr_enums;
use mb2_model::walk::*;
use mb2_model::*;
use proptest::prelude::*;
use serde::{Deserialize, Serialize};
use serde_json::json;
use std::cell::RefCell;
use std::io::{BufRead, BufReader, Write};
use std::path::PathBuf;
use std::process::{Child, ChildStdin, ChildStdout, Command, Stdio};

pub const CONFIGS: [(&str, &str, &str); 4] = [
    ("dev/default", "target-default", "debug"),
    ("release/default", "target-default", "release"),
    ("dev/no-default-features", "target-nodef", "debug"),
    ("release/no-default-features", "target-nodef", "release"),
];

struct Server {
    name: &'static str,
    _child: Child,
    stdin: ChildStdin,
    stdout: BufReader<ChildStdout>,
}

thread_local! {
    static SERVERS: RefCell<Option<Vec<Server>>> = const { RefCell::new(None) };
}

fn transcript_dir() -> PathBuf {
    PathBuf::from(std::env::var("VERIF_DIR").unwrap_or_else(|_| "/verif".into())).join("transcript")
}

fn start() -> Result<Vec<Server>, String> {
    let mut v = Vec::new();
    for (name, dir, prof) in CONFIGS {
        let bin = transcript_dir().join(dir).join(prof).join("mb2-transcript");
        let mut child = Command::new(&bin).stdin(Stdio::piped()).stdout(Stdio::piped()).stderr(Stdio::null()).spawn().map_err(|e| format!("cannot start {}: {e}", bin.display()))?;
        let stdin = child.stdin.take().unwrap();
        let stdout = BufReader::new(child.stdout.take().unwrap());
        v.push(Server { name, _child: child, stdin, stdout });
    }
    Ok(v)
}

/// Sends one request to all four servers; returns their answers.
fn ask(kind: char, bytes: &[u8]) -> Result<Vec<(&'static str, String)>, String> {
    ask_line(&format!("{kind} {}\n", hex(bytes)))
}

/// Sends one raw request line to all four servers; returns their answers.
pub fn ask_line(req: &str) -> Result<Vec<(&'static str, String)>, String> {
    let req = req.to_string();
    SERVERS.with(|s| {
        let mut s = s.borrow_mut();
        if s.is_none() {
            *s = Some(start()?);
        }
        let servers = s.as_mut().unwrap();
        for sv in servers.iter_mut() {
            sv.stdin.write_all(req.as_bytes()).and_then(|_| sv.stdin.flush()).map_err(|e| format!("{}: {e}", sv.name))?;
        }
        let mut out = Vec::new();
        for sv in servers.iter_mut() {
            let mut text = String::new();
            loop {
                let mut line = String::new();
                let n = sv.stdout.read_line(&mut line).map_err(|e| format!("{}: {e}", sv.name))?;
                if n == 0 {
                    return Err(format!("{}: server ended unexpectedly", sv.name));
                }
                if line == ".\n" {
                    break;
                }
                text.push_str(&line);
            }
            out.push((sv.name, text));
        }
        Ok(out)
    })
}

#[derive(Clone, Debug, Serialize, Deserialize)]
pub struct Case {
    /// 'M' boot information, 'H' header
    pub kind: char,
    pub region: Hex,
}

fn first_difference(a: &str, b: &str) -> String {
    for (la, lb) in a.lines().zip(b.lines()) {
        if la != lb {
            return format!("`{la}` vs `{lb}`");
        }
    }
    let (na, nb) = (a.lines().count(), b.lines().count());
    if na != nb {
        let extra = if na > nb { a.lines().nth(nb) } else { b.lines().nth(na) };
        return format!("{na} vs {nb} lines, first extra line `{}`", extra.unwrap_or(""));
    }
    "(identical)".into()
}

pub fn eval(c: &Case, obs: &mut Obs) -> Result<(), String> {
    let bytes = &c.region.0;
    let class;
    match c.kind {
        'M' => {
            if bytes.len() < 8 || bytes.len() != r8(le32(bytes, 0) as usize).max(8) {
                return Err("malformed case".into());
            }
            let load = predict_mbi_load(bytes);
            class = if load == MbiLoad::Ok {
                let w = walk_mbi(bytes);
                let fb_unknown = w.items.iter().any(|i| i.typ == 8 && i.size >= 32 && bytes[i.off + 29] > 2);
                let mism = w.items.iter().any(|i| !mb2_model::expect_mbi::cast_succeeds(i.typ, i.size as usize));
                if fb_unknown {
                    "!mbi-unknown-enum-byte"
                } else if mism || w.panic_at.is_some() {
                    "!mbi-count-size-mismatch"
                } else if w.items.len() > 1 {
                    "mbi-decodes"
                } else {
                    "mbi-empty"
                }
            } else if (le32(bytes, 0) as usize) < 8 {
                "!mbi-below-header-size"
            } else {
                "mbi-load-fails"
            };
        }
        'F' => {
            if bytes.len() > 1 << 17 {
                return Err("malformed case".into());
            }
            class = match mb2_model::fuzzdec::model_find(bytes) {
                mb2_model::fuzzdec::Find::NoHeader => "image-without-header",
                mb2_model::fuzzdec::Find::SomeErr => "!image-misaligned-or-truncated-header",
                mb2_model::fuzzdec::Find::Found(..) => "image-decodes",
            };
        }
        'S' => {
            if bytes.len() != 16 || (le32(bytes, 4) != 0 && le32(bytes, 4) != 4) {
                return Err("malformed case".into());
            }
            let sum = le32(bytes, 0).wrapping_add(le32(bytes, 4)).wrapping_add(le32(bytes, 8)).wrapping_add(le32(bytes, 12));
            let big = le32(bytes, 0) as u64 + le32(bytes, 4) as u64 + le32(bytes, 8) as u64 > u32::MAX as u64;
            class = match (sum == 0, big) {
                (true, true) => "!basic-header-valid-sum-wraps",
                (true, false) => "basic-header-decodes",
                (false, true) => "!basic-header-invalid-sum-wraps",
                (false, false) => "basic-header-invalid",
            };
        }
        'H' => {
            if bytes.len() < 16 || bytes.len() != r8(le32(bytes, 8) as usize).max(16) {
                return Err("malformed case".into());
            }
            let mut copy = bytes.clone();
            if sanitize_hdr_enums(&mut copy) != 0 {
                return Err("malformed case: undefined enumerated field".into());
            }
            class = match predict_hdr_load(bytes) {
                HdrLoad::Ok => {
                    if walk_hdr(bytes).panic_at.is_some() {
                        "!hdr-size-mismatch"
                    } else {
                        "hdr-decodes"
                    }
                }
                HdrLoad::ShorterThanHeader => "!hdr-below-header-size",
                _ => "hdr-load-fails",
            };
        }
        _ => return Err("malformed case".into()),
    }
    obs.class(class);
    if class.starts_with('!') || class.ends_with("decodes") {
        obs.nontrivial(fnv(bytes) ^ c.kind as u64);
        obs.sample(json!({"kind": c.kind.to_string(), "class": class, "region": sample_bytes(bytes)}));
    }
    let answers = match ask(c.kind, bytes) {
        Ok(a) => a,
        Err(e) => {
            obs.inconclusive(format!("transcript servers: {e}"));
            SERVERS.with(|s| *s.borrow_mut() = None);
            return Ok(());
        }
    };
    if answers.iter().any(|(_, t)| t.starts_with("TIMEOUT") || t.starts_with("ERROR")) {
        obs.inconclusive(format!("a transcript server reported {:?}", answers.iter().map(|(n, t)| (n, t.lines().next().unwrap_or(""))).collect::<Vec<_>>()));
        return Ok(());
    }
    // which signal killed the child is not an outcome category of the statement
    // (a crash is C01/C09's business and is the same outcome in every build)
    let answers: Vec<(&'static str, String)> = answers.into_iter().map(|(n, t)| (n, if t.starts_with("CRASH") { "CRASH\n".to_string() } else { t })).collect();
    let (n0, t0) = &answers[0];
    for (n, t) in &answers[1..] {
        if t != t0 {
            return Err(format!("{} input: outcome differs between {n0} and {n}: {}", match c.kind { 'M' => "boot-information", 'S' => "basic-header", 'F' => "image", _ => "header" }, first_difference(t0, t)));
        }
    }
    Ok(())
}

fn strategy_mbi(_: &Ctx) -> BoxedStrategy<Case> {
    prop_oneof![
        6 => gen::mbi_spec(6, 2).prop_map(|s| gen::build_mbi(&s)),
        2 => proptest::collection::vec(gen::conf_tag(), 0..=8).prop_map(|t| gen::build_conformant_mbi(&t, 0)),
        // the classes the statement singles out: tiny sizes, unknown enum bytes
        1 => (0u32..16, any::<u32>()).prop_map(|(ts, r)| { let mut v = vec![0u8; r8(ts as usize).max(8)]; put32(&mut v, 0, ts); put32(&mut v, 4, r); v }),
        1 => (any::<u32>(), any::<u64>(), 0u16..4).prop_map(|(sel, key, n)| gen::build_conformant_mbi(&[gen::ConfTag { kind: 8, n, sel, key }], 0)),
    ]
    .prop_map(|region| Case { kind: 'M', region: Hex(region) })
    .boxed()
}

fn strategy_hdr(_: &Ctx) -> BoxedStrategy<Case> {
    prop_oneof![
        5 => gen::hdr_spec(8, true),
        2 => gen::hdr_spec(8, false),
    ]
    .prop_map(|s| {
        let mut region = gen::build_hdr(&s);
        if sanitize_hdr_enums(&mut region) > 0 && s.sum_delta == 0 {
            let (m, a, l) = (le32(&region, 0), le32(&region, 4), le32(&region, 8));
            put32(&mut region, 12, model_checksum(m, a, l));
        }
        Case { kind: 'H', region: Hex(region) }
    })
    .boxed()
}

fn strategy_find(ctx: &Ctx) -> BoxedStrategy<Case> {
    super::c13::strategy(ctx).prop_map(|c| Case { kind: 'F', region: Hex(super::c13::buffer(&c)) }).boxed()
}

fn enumerate_find(ctx: &Ctx) -> Box<dyn Iterator<Item = Case>> {
    // a tenth of C13's enumerated images
    Box::new(super::c13::enumerate(ctx).step_by(10).map(|c| Case { kind: 'F', region: Hex(super::c13::buffer(&c)) }))
}

fn strategy_basic(_: &Ctx) -> BoxedStrategy<Case> {
    (
        prop_oneof![3 => Just(HDR_MAGIC), 1 => any::<u32>(), 1 => Just(0xFFFF_FFFFu32)],
        prop_oneof![Just(0u32), Just(4u32)],
        prop_oneof![2 => any::<u32>(), 1 => 0u32..4096, 1 => (0u32..64).prop_map(|d| 0u32.wrapping_sub(HDR_MAGIC).wrapping_add(d).wrapping_sub(32)), 1 => (0u32..64).prop_map(|d| u32::MAX - d)],
        prop_oneof![3 => Just(0u32), 1 => Just(1u32), 1 => any::<u32>()],
    )
        .prop_map(|(magic, arch, len, delta)| {
            let mut v = vec![0u8; 16];
            put32(&mut v, 0, magic);
            put32(&mut v, 4, arch);
            put32(&mut v, 8, len);
            put32(&mut v, 12, model_checksum(magic, arch, len).wrapping_add(delta));
            Case { kind: 'S', region: Hex(v) }
        })
        .boxed()
}

fn enumerate_small(_: &Ctx) -> Box<dyn Iterator<Item = Case>> {
    let mut v = Vec::new();
    for ts in 0u32..=40 {
        let mut r = vec![0u8; r8(ts as usize).max(8)];
        put32(&mut r, 0, ts);
        if ts >= 16 && ts % 8 == 0 {
            let n = r.len();
            r[n - 8..].copy_from_slice(&mb2_model::encode::END_TAG);
        }
        v.push(Case { kind: 'M', region: Hex(r) });
    }
    for len in 0u32..=40 {
        for arch in [0u32, 4] {
            let mut r = vec![0u8; r8(len as usize).max(16)];
            put32(&mut r, 0, HDR_MAGIC);
            put32(&mut r, 4, arch);
            put32(&mut r, 8, len);
            put32(&mut r, 12, model_checksum(HDR_MAGIC, arch, len));
            v.push(Case { kind: 'H', region: Hex(r) });
        }
    }
    for b in 0..=255u32 {
        v.push(Case { kind: 'M', region: Hex(gen::build_conformant_mbi(&[gen::ConfTag { kind: 8, n: 1, sel: b, key: 8 }], 0)) });
    }
    // structures beyond the 16-bit marks: an ELF-sections tag that really holds
    // 65600 headers (most of a type the crate does not know, a few in use), and
    // well-formed boot informations of 64 KiB + 8 and 128 KiB
    for es in [40usize, 64] {
        let n = 65600usize;
        let mut body = vec![0u8; 12 + n * es];
        put32(&mut body, 0, n as u32);
        put32(&mut body, 4, es as u32);
        put32(&mut body, 8, 1);
        for e in 0..n {
            let t = if e % 9000 == 1 { 1 } else if e % 2 == 0 { 14 } else { 0x5000_0000 + e as u32 };
            put32(&mut body, 12 + e * es + 4, t);
        }
        v.push(Case { kind: 'M', region: Hex(mb2_model::encode::mbi(&[mb2_model::encode::tag(9, &body)], 0, 0, true)) });
    }
    for total in [0x1_0008usize, 0x2_0000] {
        let blob = vec![0xA7u8; 4080];
        let mut tags: Vec<Vec<u8>> = Vec::new();
        while 8 + (tags.len() + 1) * 4088 + 8 + 8 <= total {
            tags.push(mb2_model::encode::tag(0x77, &blob));
        }
        let used = 8 + tags.len() * 4088 + 8;
        if total > used + 8 {
            tags.push(mb2_model::encode::tag(16, &vec![0x3Cu8; total - used - 8]));
        }
        v.push(Case { kind: 'M', region: Hex(mb2_model::encode::mbi(&tags, 0, 0, true)) });
    }
    Box::new(v.into_iter())
}

pub fn subs() -> Vec<Box<dyn Sub>> {
    vec![
        Box::new(PropSub::<Case> {
            name: "mbi",
            rule: "boot-information inputs (adversarial generator of C01, conformant generator of C04, total-size words 0..=15, framebuffer tags with all type bytes) sent to four transcript servers built as {dev, release} x {default features, --no-default-features}; each serves the request in a forked child on guarded memory. Enumerated: total-size words 0..=40, header length words 0..=40 x 2 architectures, all 256 framebuffer type bytes, ELF-sections tags that really hold 65600 headers, well-formed boot informations of 64 KiB + 8 and 128 KiB. Oracle (differential): the four transcripts of load outcome / walk / getters / every stored field and extent are byte-identical (panic messages, addresses, Debug renderings and derived sums are not part of a transcript; a crash is the outcome CRASH). Non-trivial = decodes at least one tag, or is in a class {below-header size, unknown enum byte, count/size mismatch}; distinct by region hash",
            profiles: Profiles::ReleaseOnly,
            quick: 5000,
            thorough: 200000,
            strategy: strategy_mbi,
            enumerate: Some(enumerate_small),
            enum_exhaustive: false,
            eval,
        }),
        Box::new(PropSub::<Case> {
            name: "find",
            rule: "images for find_header (generator and a tenth of the enumeration of C13: lengths around 0 and around the 8192-byte window, magics planted aligned / misaligned / straddling, stored lengths up to 2^32-1) searched inside the four servers; same differential oracle. Non-trivial = an image with a header or with a misaligned / truncated one; distinct by image hash",
            profiles: Profiles::ReleaseOnly,
            quick: 2000,
            thorough: 100000,
            strategy: strategy_find,
            enumerate: Some(enumerate_find),
            enum_exhaustive: false,
            eval,
        }),
        Box::new(PropSub::<Case> {
            name: "basic-header",
            rule: "16-byte basic headers (magic correct/random/all-ones, both architectures, lengths random / small / around the value where magic+arch+length exceeds 2^32 / near 2^32-1, checksum correct, off by one or random) viewed as Multiboot2BasicHeader in the four servers: four accessors, verify_checksum(), calc_checksum() - no memory behind the header is needed, so lengths up to 2^32-1 are covered. Same differential oracle. Non-trivial = the three words sum to more than 2^32, or the header is valid; distinct by the 16 bytes",
            profiles: Profiles::ReleaseOnly,
            quick: 3000,
            thorough: 100000,
            strategy: strategy_basic,
            enumerate: None,
            enum_exhaustive: false,
            eval,
        }),
        Box::new(PropSub::<Case> {
            name: "hdr",
            rule: "header inputs (adversarial and valid generators of C09/C11, enumerated fields rewritten to defined values) through the same four servers; same oracle. Non-trivial = decodes, or below-header length, or tag-size mismatch; distinct by region hash",
            profiles: Profiles::ReleaseOnly,
            quick: 3000,
            thorough: 100000,
            strategy: strategy_hdr,
            enumerate: None,
            enum_exhaustive: false,
            eval,
        }),
    ]
}
