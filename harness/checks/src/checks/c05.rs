//! C05 - variable-length tag contents have exactly the extent the tag size
//! implies. Also hosts the generic "transcript equals the total reference
//! model" differential over adversarial regions.

use crate::gen;
use crate::known;
use crate::runner::*;
use crate::sbx::{self, Boxed, Place};
use mb2_model::exercise_hdr::HdrOpts;
use mb2_model::exercise_mbi::MbiOpts;
use mb2_model::expect_hdr;
use mb2_model::expect_mbi::{self, dst_fixed_elem, expect_mbi, expect_single_tag, ExpectOpts};
use mb2_model::transcript::{Expected, Val};
use mb2_model::walk::*;
use mb2_model::*;
use proptest::prelude::*;
use serde::{Deserialize, Serialize};
use serde_json::json;

#[derive(Clone, Debug, Serialize, Deserialize)]
pub struct Case {
    /// false: boot-information tag kinds; true: header information-request tag
    pub hdr: bool,
    pub kind: u32,
    /// stand-alone image: tag under test (size word = `size`), padding 0x5A,
    /// then a marker tag filled with 0xA5, all padded to 8
    pub img: Hex,
}

pub const DST_KINDS: [u32; 9] = [1, 2, 3, 6, 8, 9, 13, 16, 17];

fn stored(k: &str) -> bool {
    !k.split('.').any(|seg| seg == "dbg" || seg.starts_with('~'))
}

/// Image for the sweep: a conformant tag of `kind` with content steering `n`,
/// its size word overwritten by `size`, padded with 0x5A, followed by a 16-byte
/// marker tag (type 0xA5A5A5A5, body 0xA5).
pub fn sweep_image(hdr: bool, kind: u32, n: usize, sel: u32, size: u32) -> Vec<u8> {
    let mut img = if hdr {
        mb2_model::encode::conformant_hdr_tag(kind, 0xC05, n, sel)
    } else {
        mb2_model::encode::conformant_tag(kind, 0xC05, n, sel)
    };
    put32(&mut img, 4, size);
    mb2_model::encode::pad8(&mut img, 0x5A);
    let mut next = vec![0xA5u8; 16];
    if hdr {
        put16(&mut next, 0, 6);
        put16(&mut next, 2, 1);
    }
    put32(&mut next, 4, 16);
    img.extend_from_slice(&next);
    img
}

pub fn eval(c: &Case, obs: &mut Obs) -> Result<(), String> {
    let img = &c.img.0;
    if img.len() < 8 || img.len() % 8 != 0 {
        return Err("malformed case".into());
    }
    let size = le32(img, 4) as usize;
    let (fixed, elem) = if c.hdr { (8, 4) } else { dst_fixed_elem(c.kind).unwrap_or((8, 1)) };
    let near = |a: usize, b: usize| a.abs_diff(b) <= elem.max(1);
    if size % 8 != 0 || near(size, fixed) || near(size, img.len()) {
        obs.nontrivial(fnv(img) ^ c.kind as u64);
        obs.sample(json!({"header_crate": c.hdr, "kind": c.kind, "declared_size": size, "image": sample_bytes(img)}));
    }
    obs.class(format!("!kind-{}{}", if c.hdr { "h" } else { "" }, c.kind));
    let (got, exp): (_, Expected) = if c.hdr {
        let r = sbx::single_hdr_tag(img, c.kind, HdrOpts { debug: true, max_steps: img.len() });
        let mut exp = Expected::new();
        if size > img.len() {
            exp.is("ref", Val::Err("InvalidReportedTotalSize".into()));
        } else if size < 8 {
            exp.either("ref", vec![Val::Panic, Val::Err("InvalidReportedTotalSize".into()), Val::Err("ShorterThanHeader".into())]);
        } else {
            exp.is("ref", Val::Ext(0, r8(size)));
            let it = Item { off: 0, typ: c.kind, flags: le16(img, 2), size: size as u32 };
            expect_hdr::expect_hdr_tag(&mut exp, "t0", img, &it, c.kind);
        }
        (r, exp)
    } else {
        (sbx::single_tag(img, c.kind, MbiOpts { debug: true, max_steps: img.len(), typed_all: true }), expect_single_tag(img, c.kind))
    };
    let got = match got {
        Boxed::Done(t) => t,
        Boxed::Crash(s) => return Err(format!("kind {} declared size {size}: crashed: {s}", c.kind)),
        Boxed::Inconclusive(w) => {
            obs.inconclusive(w);
            return Ok(());
        }
    };
    let outcome = match got.get("t0.cast") {
        Some(Val::Panic) => "rejected-by-panic",
        Some(_) => "viewed",
        None => "not-a-structure",
    };
    obs.class(outcome);
    let mut d = exp.diff(&got, &stored);
    // EFI map: its extent is only visible in the Debug rendering (buf_len)
    if !c.hdr && c.kind == 17 {
        if let (Some(Val::U(n)), true) = (got.get("t0.dbg.buf_len"), size >= 16 && size <= img.len()) {
            if *n as usize != size - 16 {
                d.push(format!("EFI map bytes: Debug reports buf_len {n}, the tag size implies {}", size - 16));
            }
        }
    }
    // ELF: a string-table header behind the declared size is not part of the
    // tag. sections() may refuse such a tag; if it does not, no name may be
    // resolved through bytes outside the extent (same rule as C19).
    if !c.hdr && c.kind == 9 && size >= 20 && size <= img.len() && matches!(got.get("t0.s.new"), Some(Val::Ok)) {
        let (n, es, shndx) = (le32(img, 8) as u64, le32(img, 12) as u64, le32(img, 16) as u64);
        if matches!(expect_mbi::elf_shape(n, es, shndx, (size - 20) as u64), expect_mbi::ElfShape::ShndxOutside) {
            obs.class("elf-strtab-header-behind-extent");
            match sbx::with_guarded(img, 8, Place::End, |p, l| super::c19::exercise(p, l, true, l)) {
                Boxed::Done(t2) => {
                    for (k, v) in &t2.lines {
                        if k.ends_with(".name") && !v.is_panic() {
                            d.push(format!("ELF: {k} = {} is resolved through a string-table header at index {shndx}, behind the {} section bytes the size leaves", v.render(), size - 20));
                            break;
                        }
                    }
                }
                Boxed::Crash(s) => d.push(format!("ELF: resolving a name through a string-table header behind the declared size crashed: {s}")),
                Boxed::Inconclusive(w) => obs.inconclusive(w),
            }
        }
    }
    if d.is_empty() {
        Ok(())
    } else {
        Err(format!("{} kind {} declared size {size}: {}", if c.hdr { "header" } else { "mbi" }, c.kind, d.join("; ")))
    }
}

fn enumerate(ctx: &Ctx) -> Box<dyn Iterator<Item = Case>> {
    let mut v = Vec::new();
    let ns: &[usize] = if ctx.tier == Tier::Thorough { &[0, 1, 2, 3, 5, 9] } else { &[0, 2, 5] };
    for &kind in &DST_KINDS {
        for &n in ns {
            for sel in [0u32, 1, 2] {
                if sel > 0 && !matches!(kind, 8 | 9 | 17) {
                    continue;
                }
                let base = sweep_image(false, kind, n, sel, 8).len();
                for size in 0..=(base + 16) as u32 {
                    v.push(Case { hdr: false, kind, img: Hex(sweep_image(false, kind, n, sel, size)) });
                }
            }
        }
    }
    // long texts (4 KiB and 64 KiB marks): exact size, one byte short, with slack
    for &kind in &[1u32, 2, 3] {
        for n in [4094usize, 4095, 4096, 4097, 65535, 65536] {
            let exact = mb2_model::encode::conformant_tag(kind, 0xC05, n, 0).len() as u32;
            for size in [exact, exact - 1, exact - 8, exact + 1] {
                v.push(Case { hdr: false, kind, img: Hex(sweep_image(false, kind, n, 0, size)) });
            }
        }
    }
    // ELF: string-table indices that mean something in ELF itself (SHN_XINDEX,
    // SHN_ABS, SHN_COMMON, SHN_LORESERVE) or lie at / behind the last header,
    // combined with a first header whose sh_link is used / unused: the string
    // table header must be one of the headers the size leaves in the tag
    for n in [1usize, 2, 5] {
        for sel in [0u32, 1] {
            let es = if sel & 1 == 0 { 40usize } else { 64 };
            let exact = (20 + n * es) as u32;
            let link_at = 20 + if es == 40 { 24 } else { 40 };
            for shndx in [0xffffu32, 0xfff1, 0xfff2, 0xff00, n as u32 - 1, n as u32, n as u32 + 1, 0x1_0000, u32::MAX] {
                for link in [0u32, 1, n as u32 - 1, n as u32, n as u32 + 1, 0xffff, 0x7fff_ffff] {
                    for size in [exact, exact - 1, exact - es as u32, exact + 1] {
                        let mut img = sweep_image(false, 9, n, sel, size);
                        put32(&mut img, 16, shndx);
                        put32(&mut img, link_at, link);
                        v.push(Case { hdr: false, kind: 9, img: Hex(img) });
                    }
                }
            }
        }
    }
    // framebuffer palette: every interesting colour count at a fixed tag size
    for n in [0usize, 1, 2, 5] {
        let exact = (32 + 2 + 3 * n) as u32;
        let mut counts: Vec<u16> = (0..=12).collect();
        counts.extend([0x5554, 0x5555, 0x5556, 0x5557, 0x5558, 0xAAAA, 0xAAAB, 0xAAAC, 0x8000, 0xFFFE, 0xFFFF, 0x0100, 0x1000]);
        for cnt in counts {
            for size in [exact, exact + 1, exact + 6] {
                let mut img = sweep_image(false, 8, n, 0, size);
                put16(&mut img, 32, cnt);
                v.push(Case { hdr: false, kind: 8, img: Hex(img.clone()) });
                if cnt <= 12 {
                    for bpp in [1u8, 2, 3, 4, 8] {
                        let mut i2 = img.clone();
                        i2[28] = bpp;
                        v.push(Case { hdr: false, kind: 8, img: Hex(i2) });
                    }
                }
            }
        }
    }
    for n in 0..=9usize {
        let base = sweep_image(true, 1, n, 0, 8).len();
        for size in 0..=(base + 16) as u32 {
            v.push(Case { hdr: true, kind: 1, img: Hex(sweep_image(true, 1, n, (n & 1) as u32, size)) });
            if size as usize >= base - 16 - 8 {
                // same list with a zero id at the end / at both ends
                v.push(Case { hdr: true, kind: 1, img: Hex(sweep_image(true, 1, n, 4 | (n & 1) as u32, size)) });
                v.push(Case { hdr: true, kind: 1, img: Hex(sweep_image(true, 1, n, 12, size)) });
            }
        }
    }
    Box::new(v.into_iter())
}

fn strategy(_: &Ctx) -> BoxedStrategy<Case> {
    (proptest::sample::select(DST_KINDS.to_vec()), 0usize..40, any::<u32>(), any::<u32>(), 0u8..6, any::<bool>())
        .prop_map(|(kind, n, sel, r, mode, hdr)| {
            let (hdr, kind) = if hdr && mode == 0 { (true, 1) } else { (false, kind) };
            let base = sweep_image(hdr, kind, n, sel, 8).len();
            let size = match mode {
                0 | 1 => r % (base as u32 + 17),
                2 => (base as u32 - 16).wrapping_sub(r % 9),
                3 => r % 40,
                4 => r,
                _ => (base as u32).wrapping_add(r % 17),
            };
            Case { hdr, kind, img: Hex(sweep_image(hdr, kind, n, sel, size)) }
        })
        .boxed()
}

// ---------------------------------------------------------------------------
// differential against the total model on adversarial regions

#[derive(Clone, Debug, Serialize, Deserialize)]
pub struct RegionCase {
    pub region: Hex,
    #[serde(default)]
    pub excluded: u32,
}

pub fn eval_region(c: &RegionCase, obs: &mut Obs) -> Result<(), String> {
    let bytes = &c.region.0;
    if bytes.len() < 8 || bytes.len() != r8(le32(bytes, 0) as usize).max(8) {
        return Err("malformed case".into());
    }
    obs.excluded_known += c.excluded as u64;
    let opts = MbiOpts { debug: true, max_steps: bytes.len() / 8 + 4, typed_all: true };
    let got = match sbx::mbi(bytes, Place::End, opts) {
        Boxed::Done(t) => t,
        Boxed::Crash(s) => return Err(format!("crashed: {s}")),
        Boxed::Inconclusive(w) => {
            obs.inconclusive(w);
            return Ok(());
        }
    };
    let exp = expect_mbi(bytes, &ExpectOpts { typed_all: true });
    if predict_mbi_load(bytes) == MbiLoad::Ok {
        let w = walk_mbi(bytes);
        let dst: Vec<&Item> = w.items.iter().filter(|i| dst_fixed_elem(i.typ).is_some()).collect();
        obs.class("loads");
        let odd = dst.iter().filter(|i| i.size % 8 != 0 || !expect_mbi::cast_succeeds(i.typ, i.size as usize)).count();
        if odd > 0 {
            obs.nontrivial(fnv(bytes));
            obs.sample(json!({"region": sample_bytes(bytes), "variable_length_tags": dst.len(), "with_odd_or_rejected_size": odd}));
        }
    } else {
        obs.class("load-fails");
    }
    let d = exp.diff(&got, &stored);
    if d.is_empty() {
        Ok(())
    } else {
        Err(d.join("; "))
    }
}

fn region_strategy(ctx: &Ctx) -> BoxedStrategy<RegionCase> {
    let open = known::open(super::c01::D16_SIG).is_some();
    let max_tags = if ctx.tier == Tier::Thorough { 10 } else { 6 };
    gen::mbi_spec(max_tags, 2)
        .prop_map(move |s| {
            let mut region = gen::build_mbi(&s);
            let excluded = if open { gen::exclude_vbe_memory_model(&mut region) as u32 } else { 0 };
            RegionCase { region: Hex(region), excluded }
        })
        .boxed()
}

// --- nothing observable depends on the padding ------------------------------------

#[derive(Clone, Debug, Serialize, Deserialize)]
pub struct PadCase {
    pub kind: u32,
    pub n: u16,
    pub sel: u32,
    pub key: u64,
}

/// The tag, its padding filled with `pad`, followed by a neighbour tag whose
/// bytes are `nb`.
fn pad_image(c: &PadCase, pad: u8, nb: u8) -> Vec<u8> {
    let mut img = mb2_model::encode::conformant_tag(c.kind, c.key, c.n as usize, c.sel);
    mb2_model::encode::pad8(&mut img, pad);
    let mut next = vec![nb; 16];
    put32(&mut next, 4, 16);
    img.extend_from_slice(&next);
    img
}

pub fn eval_pad(c: &PadCase, obs: &mut Obs) -> Result<(), String> {
    let (ia, ib) = (pad_image(c, 0x00, 0x11), pad_image(c, 0xFF, 0xEE));
    let size = le32(&ia, 4) as usize;
    let (a, b) = (Aligned::new(&ia), Aligned::new(&ib));
    let opts = MbiOpts { debug: false, max_steps: 64, typed_all: true };
    let ta = unsafe { mb2_model::exercise_mbi::exercise_single_tag(a.as_ptr(), ia.len(), c.kind, &opts) };
    let tb = unsafe { mb2_model::exercise_mbi::exercise_single_tag(b.as_ptr(), ib.len(), c.kind, &opts) };
    obs.class(format!("!kind-{}", c.kind));
    obs.class(if size % 8 == 0 { "no-padding" } else { "padded" });
    if size % 8 != 0 {
        obs.nontrivial(fnv(&ia) ^ c.kind as u64);
        obs.sample(json!({"kind": c.kind, "declared_size": size, "padding_bytes": r8(size) - size}));
    }
    let (sa, sb): (Vec<_>, Vec<_>) = (ta.lines.iter().filter(|(k, _)| stored(k)).collect(), tb.lines.iter().filter(|(k, _)| stored(k)).collect());
    if sa != sb {
        let d = sa.iter().zip(sb.iter()).find(|(x, y)| x != y).map(|(x, y)| format!("`{} = {}` vs `{} = {}`", x.0, x.1.render(), y.0, y.1.render())).unwrap_or_else(|| format!("{} vs {} results", sa.len(), sb.len()));
        return Err(format!("kind {} declared size {size}: two copies that differ only in their padding and in the following tag give different results: {d}", c.kind));
    }
    // the two copies, alive at the same time, through the type's own equality,
    // ordering and hashing
    let ga = multiboot2_common::DynSizedStructure::<multiboot2::TagHeader>::ref_from_slice(&a.as_slice()[..r8(size)]).map_err(|e| format!("{e:?}"))?;
    let gb = multiboot2_common::DynSizedStructure::<multiboot2::TagHeader>::ref_from_slice(&b.as_slice()[..r8(size)]).map_err(|e| format!("{e:?}"))?;
    match mb2_model::relate::relate(c.kind, ga, gb, true) {
        Val::B(true) | Val::None => Ok(()),
        v => Err(format!("kind {} declared size {size}: two copies that differ only in their {} padding byte(s) do not compare equal / hash equally / order as equal ({})", c.kind, r8(size) - size, v.render())),
    }
}

fn enumerate_pad(_: &Ctx) -> Box<dyn Iterator<Item = PadCase>> {
    Box::new((1u32..=21).flat_map(|kind| (0..=24u16).flat_map(move |n| [0u32, 1, 2, 0x0100 | 1].into_iter().map(move |sel| PadCase { kind, n, sel, key: 0xAD + kind as u64 * 64 + n as u64 }))))
}

fn strategy_pad(_: &Ctx) -> BoxedStrategy<PadCase> {
    (1u32..=21, 0u16..64, any::<u32>(), any::<u64>())
        .prop_map(|(kind, n, mut sel, key)| {
            // conformant casts only: no spec-text ELF layout, framebuffer types as they come
            sel &= 0x3FFF_FFFF;
            PadCase { kind, n, sel, key }
        })
        .boxed()
}

pub fn subs() -> Vec<Box<dyn Sub>> {
    vec![
        Box::new(PropSub::<PadCase> {
            name: "padding-metamorphic",
            rule: "a conformant tag of every kind 1..=21 in two copies that are alive at the same time and differ only outside the declared size (padding 0x00 / 0xFF, different following tag). Metamorphic oracle: every stored result of the full typed exercise is identical for the two copies, and - where the type implements them - ==, !=, cmp and hash treat the two as equal (in both directions). Enumerated: every kind x content steering 0..=24 x 4 variants; generated: random content. Non-trivial = declared size not a multiple of 8; distinct by image hash",
            profiles: Profiles::Both,
            quick: 4000,
            thorough: 200000,
            strategy: strategy_pad,
            enumerate: Some(enumerate_pad),
            enum_exhaustive: false,
            eval: eval_pad,
        }),
        Box::new(PropSub::<Case> {
            name: "size-sweep",
            rule: "every variable-length kind (cmdline, boot-loader name, module, mmap, framebuffer, ELF, SMBIOS, network, EFI map; header information request) as a stand-alone tag ending near a PROT_NONE page: layout [tag][padding 0x5A][marker tag 0xA5]; enumerated: every declared size 0..=image+16 for content steerings {0,2,5} (thorough {0,1,2,3,5,9}) and variants (framebuffer type 0/1/2, ELF32/64, EFI stride 40/48/56); generated: longer contents, random sizes. Oracle: size below the fixed part / remainder / beyond the slice => rejected; otherwise the exposed part is exactly bytes[fixed..size] (offset, length, element values; network via its Debug byte list, EFI map via Debug buf_len and the iterator, palette/RGB via buffer_type); ELF additionally with string-table indices that have an ELF meaning (0xffff, 0xfff1, 0xfff2, 0xff00) or lie at/behind the last header x sh_link of header 0 x four sizes: a string-table header behind the declared extent => sections() refuses or no name() yields a value. Non-trivial = size not a multiple of 8, or within one element of the fixed part or of the image end; distinct by hash(image, kind)",
            profiles: Profiles::Both,
            quick: 3000,
            thorough: 100000,
            strategy,
            enumerate: Some(enumerate),
            enum_exhaustive: false,
            eval,
        }),
        Box::new(PropSub::<RegionCase> {
            name: "region-differential",
            rule: "adversarial regions (generator of C01) in the sandbox; oracle: the complete transcript of stored data (walk, typed fields and extents of every item, getters, modules) equals the total reference model, with the latitude the statements leave (EFI/ELF rejection point, derived sums) left open. Non-trivial = loads and contains a variable-length tag whose size is odd or rejected; distinct by region hash",
            profiles: Profiles::Both,
            quick: 5000,
            thorough: 200000,
            strategy: region_strategy,
            enumerate: None,
            enum_exhaustive: false,
            eval: eval_region,
        }),
    ]
}
