//! C16 - heap construction lays out header and content exactly; cloning is the
//! identity.

use crate::alloc_track::{recorded, Event};
use crate::runner::*;
use mb2_model::*;
use multiboot2 as m;
use multiboot2_common::test_utils::{DummyDstTag, DummyTestHeader};
use multiboot2_common::{clone_dyn, new_boxed, DynSizedStructure, Header, MaybeDynSized};
use multiboot2_header as h;
use proptest::prelude::*;
use serde::{Deserialize, Serialize};
use serde_json::json;

#[derive(Clone, Debug, Serialize, Deserialize)]
pub struct Case {
    /// 0 DynSizedStructure<DummyTestHeader>, 1 DummyDstTag,
    /// 2 DynSizedStructure<TagHeader>, 3 DynSizedStructure<HeaderTagHeader>,
    /// 4 DynSizedStructure<BootInformationHeader>, 5 DynSizedStructure<Multiboot2BasicHeader>,
    /// 6.. tag kinds with a sized part behind the header: ModuleTag, MemoryMapTag,
    /// SmbiosTag, EFIMemoryMapTag, ElfSectionsTag, FramebufferTag, CommandLineTag
    pub target: u8,
    pub slices: Vec<Hex>,
    pub typ: u32,
    /// Some: the slices are these (offset, length) ranges of ONE 256-byte buffer
    /// (pieces of a partition in another order, repeated or overlapping pieces)
    /// and `slices` is ignored
    #[serde(default)]
    pub ranges: Option<Vec<(u8, u8)>>,
}

fn check_box<T: MaybeDynSized<Metadata = usize> + ?Sized>(hdr: T::Header, hdr_bytes_but_size: &[u8], size_off: usize, slices: &[&[u8]]) -> Result<(), String> {
    let hsz = core::mem::size_of::<T::Header>();
    let total: usize = hsz + slices.iter().map(|s| s.len()).sum::<usize>();
    let (boxed, log, ovf) = recorded(|| new_boxed::<T>(hdr, slices));
    if ovf {
        return Err("allocation log overflow".into());
    }
    let addr = &*boxed as *const T as *const u8 as usize;
    let want = Event { alloc: true, ptr: addr, size: r8(total), align: 8 };
    if log != vec![want] {
        return Err(format!("new_boxed must perform exactly one allocation of r8({total}) = {} bytes, align 8, returned as the Box; logged {log:?}, box at {addr:#x}", r8(total)));
    }
    if addr % 8 != 0 {
        return Err("allocation is not 8-aligned".into());
    }
    let sov = core::mem::size_of_val(&*boxed);
    if sov != r8(total) {
        return Err(format!("size_of_val {sov}, expected r8({total})"));
    }
    let bytes = boxed.as_bytes().to_vec();
    let mut want_bytes = hdr_bytes_but_size.to_vec();
    put32(&mut want_bytes, size_off, total as u32);
    if hsz == 16 {
        // Multiboot2 basic header: the checksum follows the length
        let (m, a) = (le32(&want_bytes, 0), le32(&want_bytes, 4));
        put32(&mut want_bytes, 12, mb2_model::walk::model_checksum(m, a, total as u32));
    }
    for s in slices {
        want_bytes.extend_from_slice(s);
    }
    if bytes.len() != r8(total) || bytes[..total] != want_bytes[..] {
        return Err(format!("layout: got {} expected {} (header with size {total}, then the concatenated content)", hex(&bytes[..total.min(bytes.len())]), hex(&want_bytes)));
    }
    if boxed.header().total_size() != total || boxed.header().payload_len() != total - hsz {
        return Err(format!("header reports total {} payload {}, expected {total} / {}", boxed.header().total_size(), boxed.header().payload_len(), total - hsz));
    }
    // clone: same declared size, same bytes up to that size
    let (cl, clog, _) = recorded(|| clone_dyn(&*boxed));
    let cbytes = cl.as_bytes().to_vec();
    if cbytes.len() != bytes.len() || cbytes[..total] != bytes[..total] {
        return Err(format!("clone_dyn: clone {} differs from the original {}", hex(&cbytes[..total.min(cbytes.len())]), hex(&bytes[..total])));
    }
    if clog.len() != 1 || clog[0].size != r8(total) || clog[0].align != 8 {
        return Err(format!("clone_dyn: allocations {clog:?}, expected one of {} bytes", r8(total)));
    }
    let ((), dlog, _) = recorded(|| drop(cl));
    let caddr = clog[0].ptr;
    if dlog != vec![Event { alloc: false, ptr: caddr, size: r8(total), align: 8 }] {
        return Err(format!("dropping the clone: {dlog:?}, expected one dealloc of ({caddr:#x}, {}, 8)", r8(total)));
    }
    let ((), dlog, _) = recorded(|| drop(boxed));
    if dlog != vec![Event { alloc: false, ptr: addr, size: r8(total), align: 8 }] {
        return Err(format!("dropping the box: {dlog:?}, expected exactly one dealloc with the allocation's pointer and layout ({addr:#x}, {}, 8)", r8(total)));
    }
    Ok(())
}

const TARGETS: usize = 13;

pub fn eval(c: &Case, obs: &mut Obs) -> Result<(), String> {
    let one: Vec<u8> = (0..512).map(|i| marker(c.typ as u64 ^ 0x01E, i)).collect();
    let slices: Vec<&[u8]> = match &c.ranges {
        Some(r) => r.iter().map(|(o, l)| &one[*o as usize..*o as usize + *l as usize]).collect(),
        None => c.slices.iter().map(|h| &h.0[..]).collect(),
    };
    if c.ranges.is_some() {
        obs.class("!ranges-of-one-buffer");
    }
    let total: usize = slices.iter().map(|s| s.len()).sum();
    if total > 1 << 20 {
        return Err("malformed case".into());
    }
    obs.class(format!("slices-{}", slices.len().min(6)));
    if (total + 8) % 8 != 0 || slices.iter().any(|s| s.is_empty()) || slices.len() >= 3 {
        obs.nontrivial(fnv(format!("{}{:?}{:?}", c.target, c.slices, c.ranges).as_bytes()));
        obs.sample(json!({"target": c.target, "slice_lengths": slices.iter().map(|s| s.len()).collect::<Vec<_>>(), "ranges_of_one_buffer": c.ranges}));
    }
    // tag kinds with a sized part: content that cannot form the kind may be
    // rejected by a panic; whatever is returned must obey the same layout law
    const KINDS: [u32; 7] = [3, 6, 13, 17, 9, 8, 1];
    if c.target as usize % TARGETS >= 6 {
        let kind = KINDS[c.target as usize % TARGETS - 6];
        let fits = mb2_model::expect_mbi::cast_succeeds(kind, 8 + total);
        let mut hb = vec![0u8; 8];
        put32(&mut hb, 0, kind);
        let hd = || m::TagHeader::new(m::TagType::from(kind), 0);
        let r = mb2_model::panics::catch(|| match kind {
            3 => check_box::<m::ModuleTag>(hd(), &hb, 4, &slices),
            6 => check_box::<m::MemoryMapTag>(hd(), &hb, 4, &slices),
            13 => check_box::<m::SmbiosTag>(hd(), &hb, 4, &slices),
            17 => check_box::<m::EFIMemoryMapTag>(hd(), &hb, 4, &slices),
            9 => check_box::<m::ElfSectionsTag>(hd(), &hb, 4, &slices),
            8 => check_box::<m::FramebufferTag>(hd(), &hb, 4, &slices),
            _ => check_box::<m::CommandLineTag>(hd(), &hb, 4, &slices),
        });
        obs.class(if fits { "kind-fits" } else { "kind-misfit" });
        let lens = slices.iter().map(|s| s.len()).collect::<Vec<_>>();
        return match r {
            Some(r) => r.map_err(|m| format!("tag kind {kind} slices {lens:?}: {m}")),
            None if fits => Err(format!("tag kind {kind} slices {lens:?}: content of {total} bytes forms the kind, yet new_boxed/clone_dyn panicked")),
            None => Ok(()),
        };
    }
    let r = mb2_model::panics::catch(|| match c.target % 6 {
        0 => {
            let mut hb = vec![0u8; 8];
            put32(&mut hb, 0, c.typ);
            check_box::<DynSizedStructure<DummyTestHeader>>(DummyTestHeader::new(c.typ, 0xdead), &hb, 4, &slices)
        }
        1 => {
            let mut hb = vec![0u8; 8];
            put32(&mut hb, 0, c.typ);
            check_box::<DummyDstTag>(DummyTestHeader::new(c.typ, 0), &hb, 4, &slices)
        }
        2 => {
            let mut hb = vec![0u8; 8];
            put32(&mut hb, 0, c.typ);
            check_box::<DynSizedStructure<m::TagHeader>>(m::TagHeader::new(m::TagType::from(c.typ), 77), &hb, 4, &slices)
        }
        4 => {
            // the boot-information header itself (obtained from a built structure)
            let h = *m::Builder::new().build().header();
            check_box::<DynSizedStructure<m::BootInformationHeader>>(h, &[0u8; 8], 0, &slices)
        }
        5 => {
            let arch = if c.typ & 1 == 0 { h::HeaderTagISA::I386 } else { h::HeaderTagISA::MIPS32 };
            let mut hd = *h::Builder::new(arch).build().header();
            let mut hb = vec![0u8; 16];
            put32(&mut hb, 0, mb2_model::walk::HDR_MAGIC);
            put32(&mut hb, 4, if c.typ & 1 == 0 { 0 } else { 4 });
            // every other case: a basic header read from raw bytes whose first word
            // is not the Multiboot2 magic (construction sets the size field and the
            // checksum that goes with it - nothing else)
            if c.typ & 2 == 2 {
                let magic = [0x1BAD_B002u32, 0, 0xFFFF_FFFF, 0xD650_52E8, c.typ | 1][(c.typ >> 2) as usize % 5];
                let mut raw = hb.clone();
                put32(&mut raw, 0, magic);
                put32(&mut raw, 8, 16);
                let arch_word = le32(&raw, 4);
                put32(&mut raw, 12, mb2_model::walk::model_checksum(magic, arch_word, 16));
                let a = Aligned::new(&raw);
                hd = *DynSizedStructure::<h::Multiboot2BasicHeader>::ref_from_slice(a.as_slice()).map_err(|e| format!("{e:?}"))?.header();
                put32(&mut hb, 0, magic);
            }
            check_box::<DynSizedStructure<h::Multiboot2BasicHeader>>(hd, &hb, 8, &slices)
        }
        _ => {
            let mut hb = vec![0u8; 8];
            put16(&mut hb, 0, 1);
            put16(&mut hb, 2, (c.typ & 1) as u16);
            let fl = if c.typ & 1 == 0 { h::HeaderTagFlag::Required } else { h::HeaderTagFlag::Optional };
            check_box::<DynSizedStructure<h::HeaderTagHeader>>(h::HeaderTagHeader::new(h::HeaderTagType::InformationRequest, fl, 3), &hb, 4, &slices)
        }
    });
    match r {
        Some(r) => r.map_err(|m| format!("target {} slices {:?}: {m}", c.target, slices.iter().map(|s| s.len()).collect::<Vec<_>>())),
        None => Err(format!("target {} slices {:?}: new_boxed/clone_dyn panicked", c.target, slices.iter().map(|s| s.len()).collect::<Vec<_>>())),
    }
}

/// All compositions of total length 0..=12 into 0..=4 slices (empty allowed).
fn compositions(total: usize, k: usize, cur: &mut Vec<usize>, out: &mut Vec<Vec<usize>>) {
    if k == 0 {
        if total == 0 {
            out.push(cur.clone());
        }
        return;
    }
    for x in 0..=total {
        cur.push(x);
        compositions(total - x, k - 1, cur, out);
        cur.pop();
    }
}

fn enumerate(ctx: &Ctx) -> Box<dyn Iterator<Item = Case>> {
    let tmax = if ctx.tier == Tier::Thorough { 17 } else { 12 };
    let mut comps = Vec::new();
    for k in 0..=4 {
        for t in 0..=tmax {
            compositions(t, k, &mut Vec::new(), &mut comps);
        }
    }
    let it = comps.into_iter().enumerate().flat_map(|(i, lens)| {
        (0..TARGETS as u8).map(move |target| {
            let mut off = 0;
            let slices = lens
                .iter()
                .map(|l| {
                    let s: Vec<u8> = (0..*l).map(|j| marker(i as u64, off + j)).collect();
                    off += l;
                    Hex(s)
                })
                .collect();
            Case { target, slices, typ: 0x1000 + i as u32, ranges: None }
        })
    });
    Box::new(it)
}

fn strategy(_: &Ctx) -> BoxedStrategy<Case> {
    // mostly short slices; sometimes one long enough to cross the 4096/8192/65536-byte marks
    let slice = prop_oneof![
        20 => proptest::collection::vec(any::<u8>(), 0..=60),
        1 => (3900usize..4300, any::<u8>()).prop_map(|(n, b)| (0..n).map(|i| b.wrapping_add(i as u8)).collect::<Vec<u8>>()),
        1 => (8000usize..8400, any::<u8>()).prop_map(|(n, b)| (0..n).map(|i| b.wrapping_add(i as u8)).collect::<Vec<u8>>()),
        1 => (65000usize..65500, any::<u8>()).prop_map(|(n, b)| (0..n).map(|i| b.wrapping_add(i as u8)).collect::<Vec<u8>>()),
    ];
    // pieces of one buffer: a partition into 2..=5 pieces in another order (the
    // outer pieces in place and two inner ones swapped, or any order), a piece
    // twice, overlapping pieces
    let ranges = (proptest::collection::vec(1u8..40, 2..=5), any::<u32>(), 0u8..4).prop_map(|(lens, r, mode)| {
        let mut v: Vec<(u8, u8)> = Vec::new();
        let mut off = (r % 16) as u8;
        for l in &lens {
            v.push((off, *l));
            off += *l;
        }
        let k = v.len();
        match mode {
            0 if k >= 4 => v.swap(1, 2),
            0 | 1 => {
                let (i, j) = ((r >> 4) as usize % k, (r >> 8) as usize % k);
                v.swap(i, j);
            }
            2 => {
                let i = (r >> 4) as usize % k;
                let d = v[i];
                v.insert((r >> 8) as usize % (k + 1), d);
            }
            _ => {
                let i = (r >> 4) as usize % k;
                v[i].0 = v[i].0.saturating_sub(1 + (r >> 12) as u8 % 3);
                v[i].1 += 2;
            }
        }
        v
    });
    let plain = (0u8..TARGETS as u8, proptest::collection::vec(slice, 0..=6), any::<u32>()).prop_map(|(target, s, typ)| Case { target, slices: s.into_iter().map(Hex).collect(), typ, ranges: None });
    let shared = (0u8..6, ranges, any::<u32>()).prop_map(|(target, r, typ)| Case { target, slices: vec![], typ, ranges: Some(r) });
    prop_oneof![3 => plain, 1 => shared].boxed()
}

// --- clone of every DST kind built by its constructor ---------------------------

#[derive(Clone, Debug, Serialize, Deserialize)]
pub struct CloneCase {
    pub kind: u8,
    pub n: usize,
    pub key: u64,
    /// clone a tag that was parsed from memory (padding bytes 0x5A) instead
    /// of one made by its constructor
    #[serde(default)]
    pub parsed: bool,
}

const PARSED_KINDS: [u32; 9] = [1, 2, 3, 6, 8, 9, 13, 16, 17];

pub const CLONE_KINDS: u8 = 11;

fn img<T: MaybeDynSized + ?Sized>(t: &T) -> (Vec<u8>, usize) {
    let b = t.as_bytes().to_vec();
    let s = le32(&b, 4) as usize;
    (b, s)
}

pub fn eval_clone(c: &CloneCase, obs: &mut Obs) -> Result<(), String> {
    let n = c.n;
    let text: String = mb2_model::encode::ascii_markers(c.key, n, 0).into_iter().map(|b| b as char).collect();
    let blob: Vec<u8> = (0..n).map(|i| marker(c.key, i)).collect();
    macro_rules! go_noeq {
        ($name:expr, $t:expr) => {{
            let t = $t;
            let (a, sa) = img(&*t);
            let cl = clone_dyn(&*t);
            let (b, sb) = img(&*cl);
            ($name, a, sa, b, sb, true)
        }};
    }
    macro_rules! go {
        ($name:expr, $t:expr) => {{
            let t = $t;
            let (a, sa) = img(&*t);
            let cl = clone_dyn(&*t);
            let (b, sb) = img(&*cl);
            // "an equal tag" also through the type's own equality, both ways,
            // and for a clone of the clone
            let cl2 = clone_dyn(&*cl);
            let eq = *cl == *t && *t == *cl && *cl2 == *t && !(*cl != *t);
            ($name, a, sa, b, sb, eq)
        }};
    }
    let pk = PARSED_KINDS[c.kind as usize % PARSED_KINDS.len()];
    let mut pimg = mb2_model::encode::conformant_tag(pk, c.key, n % 64, (c.key >> 8) as u32 & !0xff);
    mb2_model::encode::pad8(&mut pimg, 0x5A);
    let pa = Aligned::new(&pimg);
    macro_rules! parsed {
        ($name:expr, $T:ty) => {{
            let g = DynSizedStructure::<m::TagHeader>::ref_from_slice(pa.as_slice()).expect("conformant tag image");
            let t: &$T = g.cast::<$T>();
            let (a, sa) = img(t);
            let cl = clone_dyn(t);
            let (b, sb) = img(&*cl);
            let cl2 = clone_dyn(&*cl);
            let eq = *cl == *t && *t == *cl && *cl2 == *t && !(*cl != *t);
            ($name, a, sa, b, sb, eq)
        }};
    }
    let r = mb2_model::panics::catch(|| if c.parsed {
        match pk {
            1 => parsed!("parsed CommandLineTag", m::CommandLineTag),
            2 => parsed!("parsed BootLoaderNameTag", m::BootLoaderNameTag),
            3 => parsed!("parsed ModuleTag", m::ModuleTag),
            6 => parsed!("parsed MemoryMapTag", m::MemoryMapTag),
            8 => parsed!("parsed FramebufferTag", m::FramebufferTag),
            9 => parsed!("parsed ElfSectionsTag", m::ElfSectionsTag),
            13 => parsed!("parsed SmbiosTag", m::SmbiosTag),
            16 => {
                let g = DynSizedStructure::<m::TagHeader>::ref_from_slice(pa.as_slice()).expect("conformant tag image");
                let t: &m::NetworkTag = g.cast::<m::NetworkTag>();
                let (a, sa) = img(t);
                let cl = clone_dyn(t);
                let (b, sb) = img(&*cl);
                ("parsed NetworkTag", a, sa, b, sb, true)
            }
            _ => parsed!("parsed EFIMemoryMapTag", m::EFIMemoryMapTag),
        }
    } else { match c.kind % CLONE_KINDS {
        0 => go!("CommandLineTag", m::CommandLineTag::new(&text)),
        1 => go!("BootLoaderNameTag", m::BootLoaderNameTag::new(&text)),
        2 => go!("ModuleTag", m::ModuleTag::new(1, 2, &text)),
        3 => go!("MemoryMapTag", m::MemoryMapTag::new(&(0..n % 6).map(|j| m::MemoryArea::new(j as u64, c.key, m::MemoryAreaTypeId::from(j as u32))).collect::<Vec<_>>())),
        4 => go!("FramebufferTag", m::FramebufferTag::new(c.key, 1, 2, 3, 4, m::FramebufferType::Indexed { palette: &(0..n % 9).map(|j| m::FramebufferColor { red: j as u8, green: 1, blue: 2 }).collect::<Vec<_>>() })),
        5 => go!("ElfSectionsTag", m::ElfSectionsTag::new(0, 64, 0, &blob)),
        6 => go!("SmbiosTag", m::SmbiosTag::new(3, 4, &blob)),
        7 => go_noeq!("NetworkTag", m::NetworkTag::new(&blob)),
        8 => go!("EFIMemoryMapTag", m::EFIMemoryMapTag::new_from_map(48, 1, &blob)),
        9 => go!("InformationRequestHeaderTag", h::InformationRequestHeaderTag::new(h::HeaderTagFlag::Optional, &(0..n % 33).map(|j| h::MbiTagTypeId::new(j as u32 * 3)).collect::<Vec<_>>())),
        _ => go!("DynSizedStructure<TagHeader>", new_boxed::<DynSizedStructure<m::TagHeader>>(m::TagHeader::new(m::TagType::Custom(0x99), 0), &[&blob])),
    }});
    let Some((name, a, sa, b, sb, eq)) = r else { return Err(format!("kind {} content length {n}: constructor or clone_dyn panicked", c.kind)) };
    obs.class(format!("!{name}"));
    if sa % 8 != 0 {
        obs.nontrivial(fnv(format!("{name}/{n}").as_bytes()));
        obs.sample(json!({"type": name, "declared_size": sa}));
    }
    if sa != sb {
        return Err(format!("{name}: original declares size {sa}, its clone {sb}"));
    }
    if !eq {
        return Err(format!("{name} (content length {n}): the clone does not compare equal (==) to the original"));
    }
    if a.len() != b.len() || a[..sa] != b[..sb] {
        return Err(format!("{name}: clone bytes {} differ from the original {}", hex(&b[..sb.min(b.len())]), hex(&a[..sa])));
    }
    Ok(())
}

fn enumerate_clone(_: &Ctx) -> Box<dyn Iterator<Item = CloneCase>> {
    Box::new((0..CLONE_KINDS).flat_map(|kind| (0..=40usize).flat_map(move |n| [false, true].into_iter().map(move |parsed| CloneCase { kind, n, key: kind as u64 * 100 + n as u64 + ((n as u64) << 9), parsed }))))
}

fn strategy_clone(_: &Ctx) -> BoxedStrategy<CloneCase> {
    (0..CLONE_KINDS, 0usize..300, any::<u64>(), any::<bool>()).prop_map(|(kind, n, key, parsed)| CloneCase { kind, n, key, parsed }).boxed()
}

pub fn subs() -> Vec<Box<dyn Sub>> {
    vec![
        Box::new(super::fuzzsub::FuzzSub { target: "fuzz_build", name: "fuzz-build", runs: 20_000_000, quick_runs: 600_000, max_len: 512 }),
        Box::new(PropSub::<Case> {
            name: "new_boxed",
            rule: "new_boxed::<T>(header, slices) for T in {DynSizedStructure<DummyTestHeader>, DummyDstTag, DynSizedStructure<TagHeader>, DynSizedStructure<HeaderTagHeader>, DynSizedStructure<BootInformationHeader>, DynSizedStructure<Multiboot2BasicHeader>, and the tag kinds with a sized part behind the header ModuleTag, MemoryMapTag, SmbiosTag, EFIMemoryMapTag, ElfSectionsTag, FramebufferTag, CommandLineTag (content that cannot form the kind may be rejected by a panic; anything returned obeys the same law)} under a recording global allocator. Enumerated completely: every composition of total length 0..=12 (thorough 17) into 0..=4 slices (empty slices allowed) x 13 targets; generated: up to 6 slices of up to 60 random bytes, sometimes one of ~4 KiB, ~8 KiB or ~64 KiB (structures across the page / 16-bit marks); in a quarter of the cases the slices are ranges of ONE buffer - the pieces of a partition in another order, a piece twice, overlapping pieces. Oracle: exactly one alloc(size = r8(header + sum), align 8) whose pointer is the Box; header size word == header + sum; bytes after the header == concatenation; size_of_val == r8(total); clone_dyn equal up to the size with one allocation of the same layout; drop = exactly one dealloc with the same pointer and layout (for the box and for the clone). Non-trivial = total not a multiple of 8, an empty slice, or >=3 slices; distinct by (target, slices)",
            profiles: Profiles::Both,
            quick: 30000,
            thorough: 2000000,
            strategy,
            enumerate: Some(enumerate),
            enum_exhaustive: false,
            eval,
        }),
        Box::new(PropSub::<CloneCase> {
            name: "clone-kinds",
            rule: "clone_dyn of every dynamically sized tag kind of both crates built by its public constructor, and of 9 kinds parsed from conformant tag images whose padding bytes are 0x5A: enumerated content lengths 0..=40 (every padding residue) x 11 kinds x {constructed, parsed}; generated lengths up to 300. Oracle: same declared size, same bytes up to that size; where the type implements PartialEq: clone == original, original == clone, clone-of-clone == original, !(clone != original). Non-trivial = declared size not a multiple of 8; distinct by (kind, length)",
            profiles: Profiles::Both,
            quick: 10000,
            thorough: 1000000,
            strategy: strategy_clone,
            enumerate: Some(enumerate_clone),
            enum_exhaustive: false,
            eval: eval_clone,
        }),
    ]
}
