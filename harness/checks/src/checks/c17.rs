//! C17 - string tags round-trip text and apply the NUL / UTF-8 rules within
//! the tag size.

use crate::runner::*;
use mb2_model::exercise_mbi::{exercise_single_tag, MbiOpts};
use mb2_model::expect_mbi::string_rule;
use mb2_model::transcript::Val;
use mb2_model::*;
use multiboot2::{BootLoaderNameTag, CommandLineTag, ModuleTag};
use multiboot2_common::MaybeDynSized;
use proptest::prelude::*;
use serde::{Deserialize, Serialize};
use serde_json::json;

const KINDS: [u32; 3] = [1, 2, 3];

fn fixed(kind: u32) -> usize {
    if kind == 3 {
        16
    } else {
        8
    }
}

// --- build side --------------------------------------------------------------

#[derive(Clone, Debug, Serialize, Deserialize)]
pub struct BuildCase {
    pub kind: u32,
    pub text: String,
}

pub fn eval_build(c: &BuildCase, obs: &mut Obs) -> Result<(), String> {
    let s = c.text.as_str();
    // stored bytes per the statement
    let mut stored = s.as_bytes().to_vec();
    if !s.ends_with('\0') {
        stored.push(0);
    }
    let want_read = &s[..s.find('\0').unwrap_or(s.len())];
    let fx = fixed(c.kind);
    let r = mb2_model::panics::catch(|| -> Result<(), String> {
        let (bytes, size, read): (Vec<u8>, usize, Result<String, String>) = match c.kind {
            1 => {
                let t = CommandLineTag::new(s);
                (t.as_bytes().to_vec(), t.header().size as usize, t.cmdline().map(|x| x.to_string()).map_err(|e| format!("{e:?}")))
            }
            2 => {
                let t = BootLoaderNameTag::new(s);
                (t.as_bytes().to_vec(), t.header().size as usize, t.name().map(|x| x.to_string()).map_err(|e| format!("{e:?}")))
            }
            _ => {
                let t = ModuleTag::new(0x1000, 0x2000, s);
                (t.as_bytes().to_vec(), t.header().size as usize, t.cmdline().map(|x| x.to_string()).map_err(|e| format!("{e:?}")))
            }
        };
        if size != fx + stored.len() {
            return Err(format!("size field {size}, expected fixed part {fx} + stored text {}", stored.len()));
        }
        if bytes.len() != r8(size) || bytes[fx..size] != stored[..] {
            return Err(format!("stored text bytes {} differ from {}", hex(&bytes[fx.min(bytes.len())..size.min(bytes.len())]), hex(&stored)));
        }
        if le32(&bytes, 0) != c.kind {
            return Err(format!("type field {}", le32(&bytes, 0)));
        }
        match read {
            Ok(x) if x == want_read => Ok(()),
            other => Err(format!("read back {other:?}, expected {want_read:?}")),
        }
    });
    let multi = s.chars().any(|ch| ch.len_utf8() > 1);
    obs.class(if s.ends_with('\0') { "ends-in-nul" } else { "no-trailing-nul" });
    if multi || s.contains('\0') || s.len() % 8 == 7 {
        obs.nontrivial(fnv(format!("{}/{}", c.kind, s).as_bytes()));
        obs.sample(json!({"kind": c.kind, "text": s}));
    }
    match r {
        Some(Ok(())) => Ok(()),
        Some(Err(m)) => Err(format!("kind {} text {:?}: {m}", c.kind, s)),
        None => Err(format!("kind {} text {:?}: constructor or accessor panicked", c.kind, s)),
    }
}

const ALPHA: [&str; 4] = ["a", "\u{e9}", "\u{20ac}", "\u{10348}"];

fn enumerate_build(ctx: &Ctx) -> Box<dyn Iterator<Item = BuildCase>> {
    let maxlen = if ctx.tier == Tier::Thorough { 6 } else { 5 };
    let mut v = Vec::new();
    let mut level: Vec<String> = vec![String::new()];
    let mut all: Vec<String> = vec![String::new()];
    for _ in 0..maxlen {
        let mut next = Vec::new();
        for s in &level {
            for a in ALPHA {
                next.push(format!("{s}{a}"));
            }
        }
        all.extend(next.iter().cloned());
        level = next;
    }
    for s in all {
        for kind in KINDS {
            v.push(BuildCase { kind, text: s.clone() });
            v.push(BuildCase { kind, text: format!("{s}\0") });
            if s.chars().count() <= 3 {
                v.push(BuildCase { kind, text: format!("{s}\0{s}a") });
                v.push(BuildCase { kind, text: format!("{s}\0\0") });
            }
        }
    }
    // long texts at the marks where a length stops fitting 8, 12, 16 and 20 bits
    // (the replay file of such a case is large; the failure message names it)
    for n in [255usize, 256, 4095, 4096, 65535, 65536, (1 << 20) - 1, 1 << 20, (1 << 20) + 1] {
        let body: String = (0..n).map(|i| if i % 7 == 3 { '\u{e9}' } else { (b'a' + (i % 26) as u8) as char }).collect();
        for kind in KINDS {
            v.push(BuildCase { kind, text: body.clone() });
        }
    }
    Box::new(v.into_iter())
}

fn strategy_build(_: &Ctx) -> BoxedStrategy<BuildCase> {
    (proptest::sample::select(KINDS.to_vec()), "[^\\x00]{0,300}", 0u8..7)
        .prop_map(|(kind, mut text, nul)| {
            match nul {
                0 => text.push('\0'),
                1 => text.push_str("\0\0"),
                2 => {
                    // interior NUL, trailing NUL: stored as it is, reads back the prefix
                    let at = text.char_indices().nth(text.chars().count() / 2).map(|(i, _)| i).unwrap_or(0);
                    text.insert(at, '\0');
                    text.push('\0');
                }
                3 => {
                    // interior NUL but no trailing one: does not "already end in
                    // NUL", so the terminator is still appended
                    let at = text.char_indices().nth(text.chars().count() / 2).map(|(i, _)| i).unwrap_or(0);
                    text.insert(at, '\0');
                    if text.ends_with('\0') {
                        text.push('x');
                    }
                }
                _ => {}
            }
            BuildCase { kind, text }
        })
        .boxed()
}

// --- parse side ----------------------------------------------------------------

#[derive(Clone, Debug, Serialize, Deserialize)]
pub struct ParseCase {
    pub kind: u32,
    /// bytes following the fixed part: text, then whatever follows the tag
    pub content: Hex,
    /// declared size = fixed part + cut
    pub cut: usize,
    pub pad: u8,
    /// first byte of the following tag
    pub next0: u8,
}

fn parse_image(c: &ParseCase) -> Vec<u8> {
    let fx = fixed(c.kind);
    let mut img = vec![0u8; fx];
    put32(&mut img, 0, c.kind);
    put32(&mut img, 4, (fx + c.cut) as u32);
    if c.kind == 3 {
        put32(&mut img, 8, 0x1111_1111);
        put32(&mut img, 12, 0x2222_2222);
    }
    img.extend_from_slice(&c.content.0);
    mb2_model::encode::pad8(&mut img, c.pad);
    // following tag
    let mut next = vec![0x41u8; 8];
    next[0] = c.next0;
    put32(&mut next, 4, 8);
    img.extend_from_slice(&next);
    img
}

pub fn eval_parse(c: &ParseCase, obs: &mut Obs) -> Result<(), String> {
    if c.cut > c.content.0.len() {
        return Err("malformed case: cut beyond the content".into());
    }
    let fx = fixed(c.kind);
    let img = parse_image(c);
    let size = fx + c.cut;
    let want = string_rule(&img, fx, size);
    let a = Aligned::new(&img);
    let t = unsafe { exercise_single_tag(a.as_ptr(), img.len(), c.kind, &MbiOpts { debug: false, max_steps: 16, typed_all: true }) };
    let key = match c.kind {
        1 => "t0.cmdline",
        2 => "t0.name",
        _ => "t0.cmdline",
    };
    let inside = &c.content.0[..c.cut];
    let after = &img[size..];
    let nul_inside = inside.contains(&0);
    let nul_after = after.iter().take(8).any(|b| *b == 0);
    let class = match &want {
        Val::ErrNul if nul_after => "!terminator-only-outside-size",
        Val::ErrNul => "no-terminator",
        Val::ErrUtf8 => "!invalid-utf8",
        _ if nul_inside && inside.iter().position(|b| *b == 0) != Some(inside.len() - 1) => "!interior-nul",
        _ => "terminated",
    };
    obs.class(class);
    if class.starts_with('!') {
        obs.nontrivial(fnv(&img) ^ c.kind as u64);
        obs.sample(json!({"kind": c.kind, "content": hex(&c.content.0), "declared_size": size, "pad": c.pad, "expected": want.render()}));
    }
    match t.get(key) {
        Some(v) if *v == want => {}
        other => return Err(format!("kind {} content {} declared size {size} (pad {:#x}): expected {}, got {:?}", c.kind, hex(&c.content.0), c.pad, want.render(), other.map(|v| v.render()))),
    }
    // the same tag inside a boot information, reached through the typed getter
    // of the loaded structure and through the tag walk
    let mut region = vec![0u8; 8];
    region.extend_from_slice(&img);
    region.extend_from_slice(&mb2_model::encode::END_TAG);
    let total = region.len() as u32;
    put32(&mut region, 0, total);
    let a = Aligned::new(&region);
    let t = unsafe { mb2_model::exercise_mbi::exercise_mbi(a.as_ptr(), &MbiOpts { debug: false, max_steps: 16, typed_all: true }) };
    let gkey = match c.kind {
        1 => "g.cmdline",
        2 => "g.boot_loader_name",
        _ => "g.module",
    };
    let gwant = Val::Ext(8, r8(size));
    if t.get(gkey) != Some(&gwant) {
        return Err(format!("kind {} content {} declared size {size}: the getter of the loaded boot information gives {:?}, expected the tag {}", c.kind, hex(&c.content.0), t.get(gkey).map(|v| v.render()), gwant.render()));
    }
    let want8 = match want {
        Val::Str(o, n) => Val::Str(o + 8, n),
        w => w,
    };
    match t.get(key) {
        Some(v) if *v == want8 => Ok(()),
        other => Err(format!("kind {} content {} declared size {size} (inside a boot information): expected {}, got {:?}", c.kind, hex(&c.content.0), want8.render(), other.map(|v| v.render()))),
    }
}

const BYTES: [u8; 6] = [b'a', 0x00, 0xC3, 0xA9, 0xE2, 0xFF];

fn enumerate_parse(ctx: &Ctx) -> Box<dyn Iterator<Item = ParseCase>> {
    let maxlen = if ctx.tier == Tier::Thorough { 6 } else { 5 };
    let mut all: Vec<Vec<u8>> = vec![vec![]];
    let mut level: Vec<Vec<u8>> = vec![vec![]];
    for _ in 0..maxlen {
        let mut next = Vec::new();
        for s in &level {
            for b in BYTES {
                let mut x = s.clone();
                x.push(b);
                next.push(x);
            }
        }
        all.extend(next.iter().cloned());
        level = next;
    }
    let it = all.into_iter().enumerate().flat_map(|(i, content)| {
        let n = content.len();
        (0..=n).map(move |cut| ParseCase {
            kind: KINDS[(i + cut) % 3],
            content: Hex(content.clone()),
            cut,
            pad: if (i / 3 + cut) % 2 == 0 { 0x5A } else { 0x00 },
            next0: if (i / 6) % 2 == 0 { 0x00 } else { 0x41 },
        })
    });
    let big = [255usize, 256, 4095, 4096, 65535, 65536, (1 << 20) - 1, 1 << 20, (1 << 20) + 3].into_iter().enumerate().flat_map(|(i, n)| {
        // valid text + NUL, text without a NUL, and text whose last character is cut by the size
        let text: Vec<u8> = (0..n).map(|j| b'a' + (j % 26) as u8).collect();
        let mut with_nul = text.clone();
        with_nul.push(0);
        let mut cut_char = text.clone();
        cut_char.extend_from_slice(&[0xE2, 0x82]);
        let kind = KINDS[i % 3];
        [
            ParseCase { kind, cut: with_nul.len(), content: Hex(with_nul), pad: 0x5A, next0: 0x41 },
            ParseCase { kind, cut: text.len(), content: Hex(text), pad: 0, next0: 0 },
            ParseCase { kind, cut: cut_char.len(), content: Hex(cut_char), pad: 0, next0: 0x41 },
        ]
    });
    Box::new(it.chain(big))
}

fn strategy_parse(_: &Ctx) -> BoxedStrategy<ParseCase> {
    let raw = proptest::collection::vec(prop_oneof![6 => proptest::sample::select(BYTES.to_vec()), 2 => 0x20u8..0x7f, 1 => any::<u8>()], 0..300);
    // long valid text of 1..4-byte characters, a terminator, then a tail
    let valid = (proptest::collection::vec(proptest::sample::select(vec!['a', 'Z', '\u{e9}', '\u{20ac}', '\u{10348}']), 0..160), proptest::collection::vec(any::<u8>(), 0..6)).prop_map(|(chars, tail)| {
        let mut v: Vec<u8> = chars.into_iter().collect::<String>().into_bytes();
        v.push(0);
        v.extend(tail);
        v
    });
    (
        proptest::sample::select(KINDS.to_vec()),
        prop_oneof![2 => raw, 1 => valid],
        (any::<u16>(), 0u8..4),
        prop_oneof![Just(0u8), Just(0x5Au8)],
        prop_oneof![Just(0u8), Just(0x41u8)],
    )
        .prop_map(|(kind, content, (cut, cmode), pad, next0)| {
            // half of the cuts lie at or near the end of the content
            let cut = match cmode {
                0 => content.len(),
                1 => content.len().saturating_sub(cut as usize % 8),
                _ => crate::gen::pick(cut, content.len() + 1),
            };
            ParseCase { kind, content: Hex(content), cut, pad, next0 }
        })
        .boxed()
}

pub fn subs() -> Vec<Box<dyn Sub>> {
    vec![
        Box::new(PropSub::<BuildCase> {
            name: "build",
            rule: "CommandLineTag / BootLoaderNameTag / ModuleTag constructors. Enumerated: every string over {a, e-acute, euro sign, U+10348} up to 5 (thorough 6) characters, with and without one trailing NUL, x 3 kinds; long texts of 255 ... 2^20+1 bytes at the 8/12/16/20-bit marks; generated: NUL-free strings up to 300 characters, with trailing NUL(s) / interior NUL. Oracle: stored bytes == text (+ NUL unless it already ends in NUL), size == fixed part + stored length, read-back == prefix before the first NUL. Non-trivial = multi-byte character, trailing NUL, or length 7 mod 8; distinct by (kind, text)",
            profiles: Profiles::Both,
            quick: 30000,
            thorough: 3000000,
            strategy: strategy_build,
            enumerate: Some(enumerate_build),
            enum_exhaustive: false,
            eval: eval_build,
        }),
        Box::new(PropSub::<ParseCase> {
            name: "parse",
            rule: "string tags laid out by hand: [fixed part][content][padding 0x5A|0x00][next tag starting 0x00|0x41], declared size = fixed part + cut. Enumerated: every byte string over {a, NUL, C3, A9, E2, FF} up to length 5 (thorough 6) x every cut 0..=len (kinds, padding and next-tag byte rotating), and contents of 255 ... 2^20+3 bytes (terminated, unterminated, last character cut); generated: contents up to 300 bytes (random over that alphabet, or long valid text of 1..4-byte characters + NUL + tail), cuts at/near the end or random. Every tag is read twice: as a single tag, and inside a boot information through the typed getter of the loaded structure and the tag walk. Oracle: text = bytes before the first NUL inside the declared size if valid UTF-8 (exact offset and length), MissingNul / Utf8 otherwise, never a panic. Non-trivial = terminator only outside the declared size, invalid UTF-8, or interior NUL; distinct by hash(image, kind)",
            profiles: Profiles::Both,
            quick: 40000,
            thorough: 3000000,
            strategy: strategy_parse,
            enumerate: Some(enumerate_parse),
            enum_exhaustive: false,
            eval: eval_parse,
        }),
    ]
}
