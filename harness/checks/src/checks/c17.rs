//! C17 - string tags round-trip text and apply the NUL / UTF-8 rules within
//! the tag size.

use crate::runner::*;
use mb2_model::exercise_mbi::{exercise_single_tag, MbiOpts};
use mb2_model::expect_mbi::string_rule;
use mb2_model::transcript::Val;
use mb2_model::*;
use multiboot2::{BootLoaderNameTag, CommandLineTag, ModuleTag};
use multiboot2_common::MaybeDynSized;
use proptest::prelude::*;
use serde::{Deserialize, Serialize};
use serde_json::json;

const KINDS: [u32; 3] = [1, 2, 3];

fn fixed(kind: u32) -> usize {
    if kind == 3 {
        16
    } else {
        8
    }
}

// --- build side --------------------------------------------------------------

#[derive(Clone, Debug, Serialize, Deserialize)]
pub struct BuildCase {
    pub kind: u32,
    pub text: String,
}

pub fn eval_build(c: &BuildCase, obs: &mut Obs) -> Result<(), String> {
    let s = c.text.as_str();
    // stored bytes per the statement
    let mut stored = s.as_bytes().to_vec();
    if !s.ends_with('\0') {
        stored.push(0);
    }
    let want_read = &s[..s.find('\0').unwrap_or(s.len())];
    let fx = fixed(c.kind);
    let r = mb2_model::panics::catch(|| -> Result<(), String> {
        let (bytes, size, read): (Vec<u8>, usize, Result<String, String>) = match c.kind {
            1 => {
                let t = CommandLineTag::new(s);
                (t.as_bytes().to_vec(), t.header().size as usize, t.cmdline().map(|x| x.to_string()).map_err(|e| format!("{e:?}")))
            }
            2 => {
                let t = BootLoaderNameTag::new(s);
                (t.as_bytes().to_vec(), t.header().size as usize, t.name().map(|x| x.to_string()).map_err(|e| format!("{e:?}")))
            }
            _ => {
                let t = ModuleTag::new(0x1000, 0x2000, s);
                (t.as_bytes().to_vec(), t.header().size as usize, t.cmdline().map(|x| x.to_string()).map_err(|e| format!("{e:?}")))
            }
        };
        if size != fx + stored.len() {
            return Err(format!("size field {size}, expected fixed part {fx} + stored text {}", stored.len()));
        }
        if bytes.len() != r8(size) || bytes[fx..size] != stored[..] {
            return Err(format!("stored text bytes {} differ from {}", hex(&bytes[fx.min(bytes.len())..size.min(bytes.len())]), hex(&stored)));
        }
        if le32(&bytes, 0) != c.kind {
            return Err(format!("type field {}", le32(&bytes, 0)));
        }
        match read {
            Ok(x) if x == want_read => Ok(()),
            other => Err(format!("read back {other:?}, expected {want_read:?}")),
        }
    });
    let multi = s.chars().any(|ch| ch.len_utf8() > 1);
    obs.class(if s.ends_with('\0') { "ends-in-nul" } else { "no-trailing-nul" });
    if multi || s.contains('\0') || s.len() % 8 == 7 {
        obs.nontrivial(fnv(format!("{}/{}", c.kind, s).as_bytes()));
        obs.sample(json!({"kind": c.kind, "text": s}));
    }
    match r {
        Some(Ok(())) => Ok(()),
        Some(Err(m)) => Err(format!("kind {} text {:?}: {m}", c.kind, s)),
        None => Err(format!("kind {} text {:?}: constructor or accessor panicked", c.kind, s)),
    }
}

const ALPHA: [&str; 4] = ["a", "\u{e9}", "\u{20ac}", "\u{10348}"];

fn enumerate_build(ctx: &Ctx) -> Box<dyn Iterator<Item = BuildCase>> {
    let maxlen = if ctx.tier == Tier::Thorough { 6 } else { 5 };
    let mut v = Vec::new();
    let mut level: Vec<String> = vec![String::new()];
    let mut all: Vec<String> = vec![String::new()];
    for _ in 0..maxlen {
        let mut next = Vec::new();
        for s in &level {
            for a in ALPHA {
                next.push(format!("{s}{a}"));
            }
        }
        all.extend(next.iter().cloned());
        level = next;
    }
    for s in all {
        for kind in KINDS {
            v.push(BuildCase { kind, text: s.clone() });
            v.push(BuildCase { kind, text: format!("{s}\0") });
            if s.chars().count() <= 3 {
                v.push(BuildCase { kind, text: format!("{s}\0{s}a") });
                v.push(BuildCase { kind, text: format!("{s}\0\0") });
            }
        }
    }
    // long texts at the marks where a length stops fitting 8, 12, 16 and 20 bits
    // (the replay file of such a case is large; the failure message names it)
    for n in [255usize, 256, 4095, 4096, 65535, 65536, (1 << 20) - 1, 1 << 20, (1 << 20) + 1] {
        let body: String = (0..n).map(|i| if i % 7 == 3 { '\u{e9}' } else { (b'a' + (i % 26) as u8) as char }).collect();
        for kind in KINDS {
            v.push(BuildCase { kind, text: body.clone() });
        }
    }
    Box::new(v.into_iter())
}

fn strategy_build(_: &Ctx) -> BoxedStrategy<BuildCase> {
    (proptest::sample::select(KINDS.to_vec()), "[^\\x00]{0,300}", 0u8..7)
        .prop_map(|(kind, mut text, nul)| {
            match nul {
                0 => text.push('\0'),
                1 => text.push_str("\0\0"),
                2 => {
                    // interior NUL, trailing NUL: stored as it is, reads back the prefix
                    let at = text.char_indices().nth(text.chars().count() / 2).map(|(i, _)| i).unwrap_or(0);
                    text.insert(at, '\0');
                    text.push('\0');
                }
                3 => {
                    // interior NUL but no trailing one: does not "already end in
                    // NUL", so the terminator is still appended
                    let at = text.char_indices().nth(text.chars().count() / 2).map(|(i, _)| i).unwrap_or(0);
                    text.insert(at, '\0');
                    if text.ends_with('\0') {
                        text.push('x');
                    }
                }
                _ => {}
            }
            BuildCase { kind, text }
        })
        .boxed()
}

// --- parse side ----------------------------------------------------------------

#[derive(Clone, Debug, Serialize, Deserialize)]
pub struct ParseCase {
    pub kind: u32,
    /// bytes following the fixed part: text, then whatever follows the tag
    pub content: Hex,
    /// declared size = fixed part + cut
    pub cut: usize,
    pub pad: u8,
    /// first byte of the following tag
    pub next0: u8,
}

fn parse_image(c: &ParseCase) -> Vec<u8> {
    let fx = fixed(c.kind);
    let mut img = vec![0u8; fx];
    put32(&mut img, 0, c.kind);
    put32(&mut img, 4, (fx + c.cut) as u32);
    if c.kind == 3 {
        // the module range: ascending as constructors require it, or (every fourth
        // image) as crafted bytes can have it: empty or descending
        let (s, e) = match c.cut % 4 {
            1 => (0x2222_2222, 0x1111_1111),
            2 if c.content.0.len() % 2 == 0 => (0x3333_3333, 0x3333_3333),
            _ => (0x1111_1111, 0x2222_2222),
        };
        put32(&mut img, 8, s);
        put32(&mut img, 12, e);
    }
    img.extend_from_slice(&c.content.0);
    mb2_model::encode::pad8(&mut img, c.pad);
    // following tag
    let mut next = vec![0x41u8; 8];
    next[0] = c.next0;
    put32(&mut next, 4, 8);
    img.extend_from_slice(&next);
    img
}

pub fn eval_parse(c: &ParseCase, obs: &mut Obs) -> Result<(), String> {
    if c.cut > c.content.0.len() {
        return Err("malformed case: cut beyond the content".into());
    }
    let fx = fixed(c.kind);
    let img = parse_image(c);
    let size = fx + c.cut;
    let want = string_rule(&img, fx, size);
    let a = Aligned::new(&img);
    let t = unsafe { exercise_single_tag(a.as_ptr(), img.len(), c.kind, &MbiOpts { debug: false, max_steps: 16, typed_all: true }) };
    let key = match c.kind {
        1 => "t0.cmdline",
        2 => "t0.name",
        _ => "t0.cmdline",
    };
    let inside = &c.content.0[..c.cut];
    let after = &img[size..];
    let nul_inside = inside.contains(&0);
    let nul_after = after.iter().take(8).any(|b| *b == 0);
    let class = match &want {
        Val::ErrNul if nul_after => "!terminator-only-outside-size",
        Val::ErrNul => "no-terminator",
        Val::ErrUtf8 => "!invalid-utf8",
        _ if nul_inside && inside.iter().position(|b| *b == 0) != Some(inside.len() - 1) => "!interior-nul",
        _ => "terminated",
    };
    obs.class(class);
    if class.starts_with('!') {
        obs.nontrivial(fnv(&img) ^ c.kind as u64);
        obs.sample(json!({"kind": c.kind, "content": hex(&c.content.0), "declared_size": size, "pad": c.pad, "expected": want.render()}));
    }
    match t.get(key) {
        Some(v) if *v == want => {}
        other => return Err(format!("kind {} content {} declared size {size} (pad {:#x}): expected {}, got {:?}", c.kind, hex(&c.content.0), c.pad, want.render(), other.map(|v| v.render()))),
    }
    // the tag's own size getter (the boot-loader-name tag has one) is the declared size
    if c.kind == 2 && t.get("t0.size") != Some(&Val::U(size as u64)) {
        return Err(format!("boot-loader-name tag with declared size {size}: size() = {:?}", t.get("t0.size").map(|v| v.render())));
    }
    // the same tag inside a boot information, reached through the typed getter
    // of the loaded structure and through the tag walk
    let mut region = vec![0u8; 8];
    region.extend_from_slice(&img);
    region.extend_from_slice(&mb2_model::encode::END_TAG);
    let total = region.len() as u32;
    put32(&mut region, 0, total);
    let a = Aligned::new(&region);
    let t = unsafe { mb2_model::exercise_mbi::exercise_mbi(a.as_ptr(), &MbiOpts { debug: false, max_steps: 16, typed_all: true }) };
    let gkey = match c.kind {
        1 => "g.cmdline",
        2 => "g.boot_loader_name",
        _ => "g.module",
    };
    let gwant = Val::Ext(8, r8(size));
    if t.get(gkey) != Some(&gwant) {
        return Err(format!("kind {} content {} declared size {size}: the getter of the loaded boot information gives {:?}, expected the tag {}", c.kind, hex(&c.content.0), t.get(gkey).map(|v| v.render()), gwant.render()));
    }
    let want8 = match want {
        Val::Str(o, n) => Val::Str(o + 8, n),
        w => w,
    };
    match t.get(key) {
        Some(v) if *v == want8 => Ok(()),
        other => Err(format!("kind {} content {} declared size {size} (inside a boot information): expected {}, got {:?}", c.kind, hex(&c.content.0), want8.render(), other.map(|v| v.render()))),
    }
}

// --- string tags one after the other at the same address ------------------------------

#[derive(Clone, Debug, Serialize, Deserialize)]
pub struct ParseSeq {
    pub steps: Vec<ParseCase>,
}

/// The tags are written one after the other to the same address and parsed in
/// one process (a forked child): each text is what the rule gives for the bytes
/// that are there *now*.
fn eval_parse_seq(c: &ParseSeq, obs: &mut Obs) -> Result<(), String> {
    for s in &c.steps {
        if s.cut > s.content.0.len() || s.content.0.len() > 1 << 16 {
            return Err("malformed case".into());
        }
    }
    let cap = c.steps.iter().map(|s| parse_image(s).len()).max().unwrap_or(16) + 64;
    let r = mb2_sandbox::run_child(|| {
        let mut buf = Aligned::new(&vec![0xEEu8; cap]);
        for (i, step) in c.steps.iter().enumerate() {
            let img = parse_image(step);
            let mut all = vec![0xEEu8; cap];
            all[..img.len()].copy_from_slice(&img);
            buf.overwrite(&all);
            let fx = fixed(step.kind);
            let want = string_rule(&img, fx, fx + step.cut);
            let t = unsafe { exercise_single_tag(buf.as_ptr(), img.len(), step.kind, &MbiOpts { debug: false, max_steps: 16, typed_all: true }) };
            let key = if step.kind == 2 { "t0.name" } else { "t0.cmdline" };
            if t.get(key) != Some(&want) {
                return format!("E string tag {} of {} at the same address (kind {}, declared size {}): expected {}, got {:?}", i + 1, c.steps.len(), step.kind, fx + step.cut, want.render(), t.get(key).map(|v| v.render())).into_bytes();
            }
        }
        b"OK".to_vec()
    });
    match r {
        mb2_sandbox::ChildResult::Done(b) if b == b"OK" => {}
        mb2_sandbox::ChildResult::Done(b) => return Err(String::from_utf8_lossy(&b[2.min(b.len())..]).into_owned()),
        mb2_sandbox::ChildResult::Signal(sig) => return Err(format!("{} string tags one after the other at the same address crashed the process (signal {sig})", c.steps.len())),
        _ => {
            obs.inconclusive("child did not report");
            return Ok(());
        }
    }
    let same_size = c.steps.windows(2).any(|w| w[0].kind == w[1].kind && w[0].cut == w[1].cut && w[0].content.0 != w[1].content.0);
    obs.class(if same_size { "!same-size-other-content" } else { "different-sizes" });
    if same_size {
        obs.nontrivial(fnv(format!("{:?}", c.steps).as_bytes()));
        obs.sample(json!({"declared_sizes": c.steps.iter().map(|s| fixed(s.kind) + s.cut).collect::<Vec<_>>()}));
    }
    Ok(())
}

fn strategy_parse_seq(_: &Ctx) -> BoxedStrategy<ParseSeq> {
    // a tag with a text of 0..3000 bytes, then tags of the same kind and the same
    // declared size whose text ends earlier, has no NUL, or is not UTF-8
    (proptest::sample::select(KINDS.to_vec()), prop_oneof![2 => 0usize..64, 3 => 1000usize..3000], any::<u64>(), proptest::collection::vec((0u8..5, any::<u16>()), 1..=3))
        .prop_map(|(kind, n, key, vars)| {
            let text: Vec<u8> = mb2_model::encode::ascii_markers(key, n, 0);
            let mut base = text.clone();
            base.push(0);
            let cut = base.len();
            let mk = |content: Vec<u8>| ParseCase { kind, content: Hex(content), cut, pad: 0x5A, next0: 0x41 };
            let mut steps = vec![mk(base.clone())];
            for (v, r) in vars {
                let mut c = base.clone();
                let at = crate::gen::pick(r, n.max(1)).min(c.len() - 1);
                match v {
                    0 => c[at] = 0,
                    1 => {
                        let l = c.len();
                        c[l - 1] = b'x';
                    }
                    2 => c[at] = 0xFF,
                    3 => {
                        for b in c.iter_mut().skip(at) {
                            *b = 0;
                        }
                    }
                    _ => c = mb2_model::encode::ascii_markers(key ^ r as u64, n, 7).into_iter().chain([0u8]).collect(),
                }
                steps.push(mk(c));
            }
            ParseSeq { steps }
        })
        .boxed()
}

// --- string tags of two gigabytes and more ---------------------------------------------

fn huge_ok(kind: u32, size: u32) -> Result<(), String> {
    use std::sync::OnceLock;
    static P: OnceLock<usize> = OnceLock::new();
    let p = *P.get_or_init(|| unsafe {
        let p = libc::mmap(std::ptr::null_mut(), (1usize << 32) + 4096, libc::PROT_READ | libc::PROT_WRITE, libc::MAP_PRIVATE | libc::MAP_ANONYMOUS | libc::MAP_NORESERVE, -1, 0);
        assert!(p != libc::MAP_FAILED, "cannot reserve 4 GiB of address space");
        p as usize
    }) as *mut u8;
    let fx = fixed(kind);
    let head = unsafe { core::slice::from_raw_parts_mut(p, 64) };
    for b in head.iter_mut() {
        *b = 0;
    }
    put32(head, 0, kind);
    put32(head, 4, size);
    head[fx..fx + 5].copy_from_slice(b"huge\0");
    let len = r8(size as usize);
    let r = mb2_sandbox::run_child(|| {
        let t = unsafe { exercise_single_tag(p, len, kind, &MbiOpts { debug: false, max_steps: 4, typed_all: true }) };
        t.render().into_bytes()
    });
    let t = match r {
        mb2_sandbox::ChildResult::Done(b) => mb2_model::transcript::Transcript::parse(&String::from_utf8_lossy(&b)).unwrap_or_default(),
        mb2_sandbox::ChildResult::Signal(sig) => return Err(format!("crashed (signal {sig})")),
        _ => return Err("INCONCLUSIVE: child did not report".into()),
    };
    let key = if kind == 2 { "t0.name" } else { "t0.cmdline" };
    let want = Val::Str(fx, 4);
    if t.get(key) == Some(&want) {
        Ok(())
    } else {
        Err(format!("expected the text `huge` ({}), got {:?} (cast: {:?})", want.render(), t.get(key).map(|v| v.render()), t.get("t0.cast").map(|v| v.render())))
    }
}

fn run_huge(ctx: &Ctx, rep: &mut SubReport) {
    let mut i = 0u64;
    for kind in KINDS {
        for size in [0x7FFF_FFF8u32, 0x7FFF_FFFF, 0x8000_0000, 0x8000_0008, 0xC000_0000, 0xFFFF_FFF8] {
            i += 1;
            if !ctx.mine(i) {
                continue;
            }
            rep.evaluations += 1;
            rep.nontrivial.insert((kind as u64) << 32 | size as u64);
            match huge_ok(kind, size) {
                Ok(()) => {}
                Err(m) if m.starts_with("INCONCLUSIVE") => rep.inconclusive.push(m),
                Err(m) => {
                    rep.violations.push(Violation { sub: "huge-tags".into(), profile: profile_name().into(), message: format!("string tag of kind {kind} with declared size {size:#x}, backed by that much (lazily mapped, zero) memory, text `huge` + NUL at its start: {m}"), case: json!({"kind": kind, "size": size}) });
                    return;
                }
            }
        }
    }
    rep.samples.push(json!({"declared_size": "0x80000000", "expect": "text before the first NUL"}));
}

fn replay_huge(v: &serde_json::Value) -> Result<(), String> {
    huge_ok(v["kind"].as_u64().unwrap_or(1) as u32, v["size"].as_u64().unwrap_or(0x8000_0000) as u32)
}

const BYTES: [u8; 6] = [b'a', 0x00, 0xC3, 0xA9, 0xE2, 0xFF];

fn enumerate_parse(ctx: &Ctx) -> Box<dyn Iterator<Item = ParseCase>> {
    let maxlen = if ctx.tier == Tier::Thorough { 6 } else { 5 };
    let mut all: Vec<Vec<u8>> = vec![vec![]];
    let mut level: Vec<Vec<u8>> = vec![vec![]];
    for _ in 0..maxlen {
        let mut next = Vec::new();
        for s in &level {
            for b in BYTES {
                let mut x = s.clone();
                x.push(b);
                next.push(x);
            }
        }
        all.extend(next.iter().cloned());
        level = next;
    }
    let it = all.into_iter().enumerate().flat_map(|(i, content)| {
        let n = content.len();
        (0..=n).map(move |cut| ParseCase {
            kind: KINDS[(i + cut) % 3],
            content: Hex(content.clone()),
            cut,
            pad: if (i / 3 + cut) % 2 == 0 { 0x5A } else { 0x00 },
            next0: if (i / 6) % 2 == 0 { 0x00 } else { 0x41 },
        })
    });
    let big = [255usize, 256, 4095, 4096, 65535, 65536, (1 << 20) - 1, 1 << 20, (1 << 20) + 3].into_iter().enumerate().flat_map(|(i, n)| {
        // valid text + NUL, text without a NUL, and text whose last character is cut by the size
        let text: Vec<u8> = (0..n).map(|j| b'a' + (j % 26) as u8).collect();
        let mut with_nul = text.clone();
        with_nul.push(0);
        let mut cut_char = text.clone();
        cut_char.extend_from_slice(&[0xE2, 0x82]);
        let kind = KINDS[i % 3];
        [
            ParseCase { kind, cut: with_nul.len(), content: Hex(with_nul), pad: 0x5A, next0: 0x41 },
            ParseCase { kind, cut: text.len(), content: Hex(text), pad: 0, next0: 0 },
            ParseCase { kind, cut: cut_char.len(), content: Hex(cut_char), pad: 0, next0: 0x41 },
        ]
    });
    Box::new(it.chain(big))
}

fn strategy_parse(_: &Ctx) -> BoxedStrategy<ParseCase> {
    let raw = proptest::collection::vec(prop_oneof![6 => proptest::sample::select(BYTES.to_vec()), 2 => 0x20u8..0x7f, 1 => any::<u8>()], 0..300);
    // long valid text of 1..4-byte characters, a terminator, then a tail
    let valid = (proptest::collection::vec(proptest::sample::select(vec!['a', 'Z', '\u{e9}', '\u{20ac}', '\u{10348}']), 0..160), proptest::collection::vec(any::<u8>(), 0..6)).prop_map(|(chars, tail)| {
        let mut v: Vec<u8> = chars.into_iter().collect::<String>().into_bytes();
        v.push(0);
        v.extend(tail);
        v
    });
    (
        proptest::sample::select(KINDS.to_vec()),
        prop_oneof![2 => raw, 1 => valid],
        (any::<u16>(), 0u8..4),
        prop_oneof![Just(0u8), Just(0x5Au8)],
        prop_oneof![Just(0u8), Just(0x41u8)],
    )
        .prop_map(|(kind, content, (cut, cmode), pad, next0)| {
            // half of the cuts lie at or near the end of the content
            let cut = match cmode {
                0 => content.len(),
                1 => content.len().saturating_sub(cut as usize % 8),
                _ => crate::gen::pick(cut, content.len() + 1),
            };
            ParseCase { kind, content: Hex(content), cut, pad, next0 }
        })
        .boxed()
}

pub fn subs() -> Vec<Box<dyn Sub>> {
    vec![
        Box::new(PropSub::<ParseSeq> {
            name: "parse-sequences",
            rule: "2..=4 string tags of the same kind and the same declared size (texts of up to 3000 bytes) written one after the other to the same address and parsed in one process: the original, then the same tag with an earlier NUL, without a NUL, with an invalid byte, zeroed from some point, or with another text. Oracle: the NUL / UTF-8 rule applied to the bytes that are there now. Non-trivial = two tags of the same size and different content; distinct by the sequence",
            profiles: Profiles::Both,
            quick: 4000,
            thorough: 200000,
            strategy: strategy_parse_seq,
            enumerate: None,
            enum_exhaustive: false,
            eval: eval_parse_seq,
        }),
        Box::new(LoopSub {
            name: "huge-tags",
            profiles: Profiles::Both,
            rule: "command-line, boot-loader-name and module tags whose declared size is 2^31 - 8 .. 2^32 - 8 and that are really backed by that much memory (a lazily mapped 4 GiB region of zero pages), with the text `huge` and its NUL at the start: the text is returned (in a forked child). Non-trivial = every case",
            run: run_huge,
            replay: replay_huge,
        }),
        Box::new(PropSub::<BuildCase> {
            name: "build",
            rule: "CommandLineTag / BootLoaderNameTag / ModuleTag constructors. Enumerated: every string over {a, e-acute, euro sign, U+10348} up to 5 (thorough 6) characters, with and without one trailing NUL, x 3 kinds; long texts of 255 ... 2^20+1 bytes at the 8/12/16/20-bit marks; generated: NUL-free strings up to 300 characters, with trailing NUL(s) / interior NUL. Oracle: stored bytes == text (+ NUL unless it already ends in NUL), size == fixed part + stored length, read-back == prefix before the first NUL. Non-trivial = multi-byte character, trailing NUL, or length 7 mod 8; distinct by (kind, text)",
            profiles: Profiles::Both,
            quick: 30000,
            thorough: 3000000,
            strategy: strategy_build,
            enumerate: Some(enumerate_build),
            enum_exhaustive: false,
            eval: eval_build,
        }),
        Box::new(PropSub::<ParseCase> {
            name: "parse",
            rule: "string tags laid out by hand: [fixed part][content][padding 0x5A|0x00][next tag starting 0x00|0x41], declared size = fixed part + cut. Enumerated: every byte string over {a, NUL, C3, A9, E2, FF} up to length 5 (thorough 6) x every cut 0..=len (kinds, padding and next-tag byte rotating), and contents of 255 ... 2^20+3 bytes (terminated, unterminated, last character cut); generated: contents up to 300 bytes (random over that alphabet, or long valid text of 1..4-byte characters + NUL + tail), cuts at/near the end or random. Every tag is read twice: as a single tag, and inside a boot information through the typed getter of the loaded structure and the tag walk. Oracle: text = bytes before the first NUL inside the declared size if valid UTF-8 (exact offset and length), MissingNul / Utf8 otherwise, never a panic. Non-trivial = terminator only outside the declared size, invalid UTF-8, or interior NUL; distinct by hash(image, kind)",
            profiles: Profiles::Both,
            quick: 40000,
            thorough: 3000000,
            strategy: strategy_parse,
            enumerate: Some(enumerate_parse),
            enum_exhaustive: false,
            eval: eval_parse,
        }),
    ]
}
