//! C18 - EFI memory-map iteration honours descriptor stride, count and bounds.

use crate::runner::*;
use crate::sbx::{self, Boxed};
use mb2_model::exercise_mbi::MbiOpts;
use mb2_model::expect_mbi::{efi_valid, expect_single_tag};
use mb2_model::transcript::{Transcript, Val};
use mb2_model::*;
use proptest::prelude::*;
use serde::{Deserialize, Serialize};
use serde_json::json;

#[derive(Clone, Debug, Serialize, Deserialize)]
pub struct Case {
    pub d: u32,
    pub version: u32,
    pub map_len: usize,
    pub key: u64,
    /// embed the tag in a boot information instead of testing it stand-alone
    pub in_mbi: bool,
}

fn image(c: &Case) -> Vec<u8> {
    let mut body: Vec<u8> = (0..8 + c.map_len).map(|i| marker(c.key, i)).collect();
    // every second map: descriptors as firmware writes them (defined type
    // numbers incl. the terminator value 16, small page counts incl. 0,
    // conventional attributes)
    let d = c.d as usize;
    if c.key & 4 == 4 && (40..=4096).contains(&d) {
        for j in 0..c.map_len / d {
            let e = mb2_model::realistic::efi_descriptor(c.key, j, d);
            body[8 + j * d..8 + j * d + 40].copy_from_slice(&e[..40]);
        }
    }
    // one map in four: 8-byte words that mean something elsewhere (an end tag, the
    // magics, all ones ...) at aligned places inside the descriptors
    if c.key & 0x18 == 0x08 && c.map_len >= 8 {
        let words = c.map_len / 8;
        for j in 0..3usize {
            let w = marker(c.key ^ 0xE0D, j) as usize % words;
            let p = mb2_model::encode::PATTERNS[(marker(c.key ^ 0xE0D, 8 + j) as usize + j) % mb2_model::encode::PATTERNS.len()];
            body[8 + 8 * w..16 + 8 * w].copy_from_slice(&p);
        }
        // and always once the bytes of an end tag
        let w = marker(c.key ^ 0xE0D, 20) as usize % words;
        body[8 + 8 * w..16 + 8 * w].copy_from_slice(&mb2_model::encode::END_TAG);
    }
    put32(&mut body, 0, c.d);
    put32(&mut body, 4, c.version);
    let mut img = mb2_model::encode::tag(17, &body);
    mb2_model::encode::pad8(&mut img, 0x5A);
    img
}

/// Rule for combinations the statement rejects: a controlled panic must come
/// before the iteration completes, and nothing misplaced may be produced first.
fn check_rejected(t: &Transcript, p: &str, size: usize, l: usize) -> Result<(), String> {
    let mut saw_panic = false;
    for (k, v) in t.with_prefix(&format!("{p}.e")) {
        let tail = &k[p.len() + 2..];
        if tail.starts_with(".dbg") || tail.contains(".dbg") {
            continue;
        }
        match v {
            Val::Panic => saw_panic = true,
            Val::Ext(o, len) => {
                // a produced descriptor: must be aligned and end inside the tag
                if o % 8 != 0 || o + len > size || *len != 40 {
                    return Err(format!("{k}: produced a descriptor at ({o},{len}) that is misaligned or overlaps the end of the tag (size {size})"));
                }
            }
            Val::None if tail == ".end" => {
                if l > 0 && !saw_panic {
                    return Err(format!("{k}: iteration over an invalid combination completed without a controlled panic"));
                }
            }
            _ => {}
        }
    }
    if l > 0 && !saw_panic {
        return Err("invalid combination of version/descriptor size/length was not rejected by a controlled panic".into());
    }
    if l == 0 {
        // nothing can be decoded from an empty map
        if t.with_prefix(&format!("{p}.e")).any(|(_, v)| matches!(v, Val::Ext(..))) {
            return Err("a descriptor was produced from an empty map".into());
        }
    }
    Ok(())
}

fn stored(k: &str) -> bool {
    !k.split('.').any(|seg| seg == "dbg" || seg.starts_with('~'))
}

pub fn eval(c: &Case, obs: &mut Obs) -> Result<(), String> {
    let img = image(c);
    let size = le32(&img, 4) as usize;
    let l = c.map_len;
    let valid = efi_valid(c.version, c.d as usize, l);
    let count = if valid { l / c.d as usize } else { 0 };
    obs.class(if valid { "valid" } else if l == 0 { "invalid-empty" } else { "!invalid" });
    if !valid || count >= 2 {
        obs.nontrivial(fnv(format!("{}/{}/{}/{}", c.d, c.version, c.map_len, c.in_mbi).as_bytes()));
        obs.sample(json!({"desc_size": c.d, "version": c.version, "map_len": l, "valid": valid, "entries": count, "in_mbi": c.in_mbi}));
    }
    let opts = MbiOpts { debug: true, max_steps: l / 8 + 8, typed_all: true };
    let (t, p, base_off) = if c.in_mbi {
        let region = mb2_model::encode::mbi(&[img.clone()], 0, 0, true);
        match sbx::mbi(&region, sbx::Place::End, opts) {
            Boxed::Done(t) => (t, "t0", 8usize),
            Boxed::Crash(s) => return Err(format!("desc_size {} version {} map length {l} (in a boot information): crashed: {s}", c.d, c.version)),
            Boxed::Inconclusive(w) => {
                obs.inconclusive(w);
                return Ok(());
            }
        }
    } else {
        match sbx::single_tag(&img, 17, opts) {
            Boxed::Done(t) => (t, "t0", 0usize),
            Boxed::Crash(s) => return Err(format!("desc_size {} version {} map length {l}: crashed: {s}", c.d, c.version)),
            Boxed::Inconclusive(w) => {
                obs.inconclusive(w);
                return Ok(());
            }
        }
    };
    let ctx = format!("desc_size {} version {} map length {l}", c.d, c.version);
    if valid {
        if c.in_mbi {
            // same expectation, shifted by the 8-byte boot-information header
            let region = mb2_model::encode::mbi(&[img.clone()], 0, 0, true);
            let exp = mb2_model::expect_mbi::expect_mbi(&region, &Default::default());
            let d = exp.diff(&t, &|k| stored(k) && k.starts_with("t0."));
            if !d.is_empty() {
                return Err(format!("{ctx}: {}", d.join("; ")));
            }
        } else {
            let exp = expect_single_tag(&img, 17);
            let d = exp.diff(&t, &stored);
            if !d.is_empty() {
                return Err(format!("{ctx}: {}", d.join("; ")));
            }
        }
        // the iterator's Debug must not change what the iterator yields: clone mid-way
        let a = Aligned::new(&img);
        let tag = multiboot2_common::DynSizedStructure::<multiboot2::TagHeader>::ref_from_slice(a.as_slice()).map_err(|e| format!("{ctx}: {e:?}"))?;
        let r = mb2_model::panics::catch(|| {
            let tag = tag.cast::<multiboot2::EFIMemoryMapTag>();
            let mut it = tag.memory_areas();
            let k = count / 2;
            for _ in 0..k {
                it.next();
            }
            let cl = it.clone();
            let rest: Vec<usize> = it.map(|d| d as *const _ as usize).collect();
            let rest2: Vec<usize> = cl.map(|d| d as *const _ as usize).collect();
            (rest.len() == count - k) && rest == rest2
        });
        if r != Some(true) {
            return Err(format!("{ctx}: a clone taken after {} items does not yield the same remaining items", count / 2));
        }
        // the other ways to iterate must agree with next(): nth, skip, step_by, count, last
        let base = a.as_ptr() as usize;
        let want_at = |i: usize| 16 + i * c.d as usize;
        let r = mb2_model::panics::catch(|| -> Result<(), String> {
            let tag = tag.cast::<multiboot2::EFIMemoryMapTag>();
            let off = |d: &multiboot2::EFIMemoryDesc| d as *const _ as usize - base;
            for k in 0..=count + 1 {
                let mut it = tag.memory_areas();
                let got = it.nth(k).map(off);
                let want = (k < count).then(|| want_at(k));
                if got != want {
                    return Err(format!("memory_areas().nth({k}) of {count} entries: expected offset {want:?}, got {got:?}"));
                }
                let rest = it.len();
                let want_rest = count.saturating_sub(k + 1);
                if rest != want_rest || it.count() != want_rest {
                    return Err(format!("after nth({k}) of {count} entries {rest} are reported to remain, expected {want_rest}"));
                }
                let got: Vec<usize> = tag.memory_areas().skip(k).map(off).collect();
                let want: Vec<usize> = (k.min(count)..count).map(want_at).collect();
                if got != want {
                    return Err(format!("memory_areas().skip({k}): expected {want:?}, got {got:?}"));
                }
            }
            for k in 0..=count + 1 {
                // advance by k calls of next(), then ask the consuming adaptors
                let mut it = tag.memory_areas();
                for _ in 0..k {
                    it.next();
                }
                let left = count.saturating_sub(k);
                let want_last = (left > 0).then(|| want_at(count - 1));
                if it.clone().last().map(off) != want_last || it.clone().count() != left || it.len() != left {
                    return Err(format!("after {k} next() calls on {count} entries: last() = {:?} (expected {want_last:?}), count() = {}, len() = {} (expected {left})", it.clone().last().map(off), it.clone().count(), it.len()));
                }
            }
            for step in 1..=3usize {
                let got: Vec<usize> = tag.memory_areas().step_by(step).map(off).collect();
                let want: Vec<usize> = (0..count).step_by(step).map(want_at).collect();
                if got != want {
                    return Err(format!("memory_areas().step_by({step}): expected {want:?}, got {got:?}"));
                }
            }
            if tag.memory_areas().count() != count || tag.memory_areas().last().map(off) != count.checked_sub(1).map(want_at) {
                return Err("count()/last() disagree with the descriptor count".into());
            }
            let (lo, hi) = tag.memory_areas().size_hint();
            if lo > count || hi.map_or(false, |h| h < count) {
                return Err(format!("size_hint() = ({lo}, {hi:?}) excludes the actual {count} entries"));
            }
            Ok(())
        });
        match r {
            Some(Ok(())) => Ok(()),
            Some(Err(m)) => Err(format!("{ctx}: {m}")),
            None => Err(format!("{ctx}: nth/skip/step_by/count/last panicked on a valid map")),
        }
    } else {
        let _ = base_off;
        check_rejected(&t, p, if c.in_mbi { 8 + size } else { size }, l).map_err(|m| format!("{ctx}: {m}"))
    }
}

fn enumerate(ctx: &Ctx) -> Box<dyn Iterator<Item = Case>> {
    let mut v = Vec::new();
    let dmax = if ctx.tier == Tier::Thorough { 160 } else { 128 };
    for d in 0..=dmax {
        // (versions that look like a stride belong to the same space: the two
        // fields sit next to each other)
        for version in [0u32, 1, 2, 40, 48, 64] {
            if version >= 40 && !(d <= 2 || d == 40 || d == 48) {
                continue;
            }
            for count in 0..=4usize {
                let du = d as usize;
                let slacks = [0usize, 1, 7, 8, du.saturating_sub(8), du / 2, du.saturating_sub(4), du.saturating_sub(1), du.saturating_sub(7)];
                for (si, s) in slacks.iter().enumerate() {
                    if si > 0 && *s == 0 {
                        continue;
                    }
                    let map_len = count * d as usize + s;
                    v.push(Case { d, version, map_len, key: (d as u64) << 8 | count as u64, in_mbi: (d as usize + count + si) % 4 == 0 });
                }
            }
        }
    }
    // the two leading fields exchanged: a tiny descriptor size with a version that
    // looks like a stride dividing the map length
    for (d, version) in [(1u32, 40u32), (1, 48), (0, 40), (2, 64), (8, 40), (40, 40), (48, 40)] {
        for map_len in [40usize, 48, 80, 96, 128, 192] {
            v.push(Case { d, version, map_len, key: (d as u64) << 8 | version as u64, in_mbi: map_len % 16 == 0 });
        }
    }
    Box::new(v.into_iter())
}

fn strategy(_: &Ctx) -> BoxedStrategy<Case> {
    (
        prop_oneof![4 => (5u32..=20).prop_map(|k| 8 * k), 2 => 0u32..200, 1 => any::<u32>(), 1 => 0u32..3],
        prop_oneof![6 => Just(1u32), 1 => 0u32..4, 1 => any::<u32>(), 1 => (5u32..=20).prop_map(|k| 8 * k)],
        0usize..12,
        prop_oneof![6 => Just(0usize), 1 => 0usize..64],
        any::<u64>(),
        any::<bool>(),
    )
        .prop_map(|(d, version, count, slack, key, in_mbi)| {
            let map_len = (count * (d as usize % 4096) + slack).min(8192);
            Case { d, version, map_len, key, in_mbi }
        })
        .boxed()
}

// --- maps with more descriptors than a 16-bit counter holds ----------------------------

fn large_ok(d: usize, count: usize) -> Result<(), String> {
    let c = Case { d: d as u32, version: 1, map_len: d * count, key: 0x1A26E + count as u64, in_mbi: false };
    let img = image(&c);
    let a = Aligned::new(&img);
    let base = a.as_ptr() as usize;
    let tag = multiboot2_common::DynSizedStructure::<multiboot2::TagHeader>::ref_from_slice(a.as_slice()).map_err(|e| format!("{e:?}"))?;
    let r = mb2_model::panics::catch(|| -> Result<(), String> {
        let tag = tag.cast::<multiboot2::EFIMemoryMapTag>();
        let off = |x: &multiboot2::EFIMemoryDesc| x as *const _ as usize - base;
        let it = tag.memory_areas();
        if it.len() != count {
            return Err(format!("len() = {}, the map holds {count} descriptors", it.len()));
        }
        let mut seen = 0usize;
        for (i, x) in it.enumerate() {
            if off(x) != 16 + i * d {
                return Err(format!("descriptor {i} at offset {}, expected {}", off(x), 16 + i * d));
            }
            let want = le32(&img, 16 + i * d);
            if x.ty.0 != want {
                return Err(format!("descriptor {i}: type {} decoded, {want} stored", x.ty.0));
            }
            seen += 1;
        }
        if seen != count {
            return Err(format!("{seen} descriptors yielded, the map holds {count}"));
        }
        for k in [count - 1, count / 2, 65535usize.min(count - 1), 65536usize.min(count - 1)] {
            if tag.memory_areas().nth(k).map(off) != Some(16 + k * d) {
                return Err(format!("nth({k}) is not the descriptor at offset {}", 16 + k * d));
            }
        }
        if tag.memory_areas().last().map(off) != Some(16 + (count - 1) * d) || tag.memory_areas().count() != count {
            return Err("last()/count() disagree with the descriptor count".into());
        }
        Ok(())
    });
    match r {
        Some(r) => r,
        None => Err("iteration panicked on a valid map".into()),
    }
}

fn run_large(ctx: &Ctx, rep: &mut SubReport) {
    let cases: Vec<(usize, usize)> = vec![(40, 65535), (40, 65536), (40, 65537), (48, 70000), (40, 131072)];
    for (i, (d, count)) in cases.into_iter().enumerate() {
        if !ctx.mine(i as u64) {
            continue;
        }
        rep.evaluations += 1;
        rep.nontrivial.insert((d * 1_000_000 + count) as u64);
        if let Err(m) = large_ok(d, count) {
            rep.violations.push(Violation { sub: "large-maps".into(), profile: profile_name().into(), message: format!("valid map with {count} descriptors of {d} bytes: {m}"), case: json!({"d": d, "count": count}) });
            return;
        }
    }
    rep.samples.push(json!({"desc_size": 40, "descriptors": 65536, "expect": "all yielded in place"}));
}

fn replay_large(v: &serde_json::Value) -> Result<(), String> {
    large_ok(v["d"].as_u64().unwrap_or(40) as usize, v["count"].as_u64().unwrap_or(65536) as usize)
}

pub fn subs() -> Vec<Box<dyn Sub>> {
    vec![
    Box::new(LoopSub {
        name: "large-maps",
        profiles: Profiles::Both,
        rule: "valid version-1 maps that really hold 65535, 65536, 65537, 70000 and 131072 descriptors (2.6 - 5 MB, in this process): len() equals the count, every descriptor is yielded at its place with its stored type, nth() at and around 2^16, last() and count() agree. Non-trivial = every case",
        run: run_large,
        replay: replay_large,
    }),Box::new(PropSub::<Case> {
        name: "efi-iter",
        rule: "EFI memory-map tags with marker descriptor bytes (every second map: descriptors as firmware writes them - type numbers 0..=16, page counts incl. 0, conventional attributes), stand-alone at a PROT_NONE page or inside a boot information. Enumerated: descriptor size 0..=128 (thorough 160) x version {0,1,2} (and stride-like versions 40/48/64 with sizes 0..=2/40/48) x count 0..=4 x length slack {0,1,7,8,d-8,d/2,d-4,d-1,d-7}; generated: strides up to 160 / random, up to 11 entries, random versions. Valid (version 1, d>=40, d%8==0, L%d==0): exactly L/d items, item i at map offset i*d with the five fields decoded by the model, len() == items still to come after every next(), clone mid-way yields the same rest. Otherwise: a controlled panic before the iteration completes and no descriptor that is misaligned or overlaps the tag end (L==0: panic or empty). Non-trivial = invalid combination or >=2 entries; distinct by (d, version, L, embedding)",
        profiles: Profiles::Both,
        quick: 3000,
        thorough: 100000,
        strategy,
        enumerate: Some(enumerate),
        enum_exhaustive: false,
        eval,
    })]
}
