//! One module per property; `subs(id)` lists the sub-checks of a property.

use crate::runner::Sub;

pub mod c01;
pub mod c02;
pub mod c03;
pub mod c04;
pub mod c05;
pub mod c06;
pub mod c07;
pub mod c08;
pub mod c09;
pub mod c10;
pub mod c11;
pub mod c12;
pub mod c13;
pub mod c14;
pub mod c15;
pub mod c16;
pub mod c17;
pub mod c18;
pub mod c19;
pub mod c20;
pub mod fuzzsub;

pub struct Meta {
    pub assumptions: Vec<&'static str>,
}

const COMMON: [&str; 3] = [
    "x86-64 Linux, rustc of this image; crates under test built by cargo in the dev profile (opt-level 0, overflow checks, debug assertions) and the release profile",
    "the reference model (harness/model: walk, expect_*, encode) is a correct reading of the Multiboot2 specification / multiboot2.h, VBE 3.0, ELF and UEFI layouts",
    "a held verdict means: no counterexample among the cases generated/enumerated by this run",
];

pub fn meta(id: &str) -> Meta {
    let mut a: Vec<&'static str> = COMMON.to_vec();
    match id {
        "C01" | "C09" | "C13" | "C02" | "C10" | "C18" | "C19" => {
            a.push("out-of-region reads are observed through PROT_NONE guard pages directly before/after the input (page granularity on the far side, byte-exact on the flush side) and through the extents of every reference the API returns; reads the optimiser removes are invisible");
            a.push("termination is decided by step bounds; a watchdog expiry is reported as inconclusive (exit 2), never as a violation");
        }
        _ => {}
    }
    Meta { assumptions: a }
}

pub fn subs(id: &str) -> Vec<Box<dyn Sub>> {
    match id {
        "C01" => c01::subs(),
        "C02" => c02::subs(),
        "C03" => c03::subs(),
        "C04" => c04::subs(),
        "C05" => c05::subs(),
        "C06" => c06::subs(),
        "C07" => c07::subs(),
        "C08" => c08::subs(),
        "C09" => c09::subs(),
        "C10" => c10::subs(),
        "C11" => c11::subs(),
        "C12" => c12::subs(),
        "C13" => c13::subs(),
        "C14" => c14::subs(),
        "C15" => c15::subs(),
        "C16" => c16::subs(),
        "C17" => c17::subs(),
        "C18" => c18::subs(),
        "C19" => c19::subs(),
        "C20" => c20::subs(),
        _ => Vec::new(),
    }
}
