//! C01 - boot-information parsing never reads outside the loaded structure.

use crate::gen;
use crate::known;
use crate::runner::*;
use crate::sbx::{self, Boxed, Place};
use mb2_model::exercise_mbi::MbiOpts;
use mb2_model::transcript::Val;
use mb2_model::walk::*;
use mb2_model::*;
use proptest::prelude::*;
use serde::{Deserialize, Serialize};
use serde_json::json;

pub const D16_SIG: &str = "C01/vbe-memory-model";

#[derive(Clone, Debug, Serialize, Deserialize)]
pub struct Case {
    pub region: Hex,
    pub place: Place,
    pub debug: bool,
    #[serde(default)]
    pub excluded: u32,
}

pub use mb2_model::extent::{validate, validate_from, Stats};

pub fn eval(c: &Case, obs: &mut Obs) -> Result<(), String> {
    let bytes = &c.region.0;
    if bytes.len() < 8 || bytes.len() != r8(le32(bytes, 0) as usize).max(8) || bytes.len() > sbx::GUARD_CAP {
        return Err("malformed case: region length must be max(8, r8(total size))".into());
    }
    obs.excluded_known += c.excluded as u64;
    let ts = le32(bytes, 0) as usize;
    let opts = MbiOpts { debug: c.debug, max_steps: bytes.len() / 8 + 4, typed_all: true };
    let t = match sbx::mbi(bytes, c.place, opts) {
        Boxed::Done(t) => t,
        Boxed::Crash(s) => return Err(format!("the process crashed while loading/using the boot information: {s}")),
        Boxed::Inconclusive(w) => {
            obs.inconclusive(w);
            return Ok(());
        }
    };
    let st = validate(&t, ts)?;
    obs.class(if st.loaded { "loads" } else { "load-fails" });
    if ts % 8 != 0 {
        obs.class("size-not-multiple-of-8");
    }
    if st.panics > 0 {
        obs.class("has-controlled-panic");
    }
    let mut ks = st.kinds.clone();
    ks.sort_unstable();
    ks.dedup();
    for k in &ks {
        if *k <= 21 {
            obs.class(format!("!kind-{k}"));
        }
    }
    if st.loaded && st.counted_views > 0 {
        obs.nontrivial(fnv(bytes) ^ c.debug as u64);
        obs.sample(json!({"region": sample_bytes(bytes), "placement": format!("{:?}", c.place), "kinds_viewed": ks, "controlled_panics": st.panics, "transcript_lines": t.lines.len()}));
    }
    Ok(())
}

fn strategy(ctx: &Ctx) -> BoxedStrategy<Case> {
    let open = known::open(D16_SIG).is_some();
    let max_tags = if ctx.tier == Tier::Thorough { 12 } else { 8 };
    (gen::mbi_spec(max_tags, 3), prop_oneof![4 => Just(Place::End), 1 => Just(Place::Start)], prop_oneof![3 => Just(true), 1 => Just(false)])
        .prop_map(move |(s, place, debug)| {
            let mut region = gen::build_mbi(&s);
            let excluded = if open { gen::exclude_vbe_memory_model(&mut region) as u32 } else { 0 };
            Case { region: Hex(region), place, debug, excluded }
        })
        .boxed()
}

// ---------------------------------------------------------------------------
// single tag flush against the guard page

#[derive(Clone, Debug, Serialize, Deserialize)]
pub struct TagCase {
    pub img: Hex,
    pub kind: u32,
    #[serde(default)]
    pub excluded: u32,
}

pub fn eval_tag(c: &TagCase, obs: &mut Obs) -> Result<(), String> {
    let img = &c.img.0;
    if img.len() < 8 || img.len() % 8 != 0 {
        return Err("malformed case: image length must be a positive multiple of 8".into());
    }
    obs.excluded_known += c.excluded as u64;
    let opts = MbiOpts { debug: true, max_steps: img.len() / 8 + 4, typed_all: true };
    let t = match sbx::single_tag(img, c.kind, opts) {
        Boxed::Done(t) => t,
        Boxed::Crash(s) => {
            return Err(format!("viewing/using a stand-alone tag of kind {} (size word {}) that ends at a guard page crashed: {s}", c.kind, le32(img, 4)))
        }
        Boxed::Inconclusive(w) => {
            obs.inconclusive(w);
            return Ok(());
        }
    };
    let mut viewed = false;
    let tag_len = match t.get("ref") {
        Some(Val::Ext(0, l)) => *l,
        Some(Val::Ext(o, l)) => return Err(format!("ref_from_slice returned a structure at offset {o} (len {l})")),
        _ => 0,
    };
    for (k, v) in &t.lines {
        if let Val::Txt(s) = v {
            if s == "step-bound" {
                return Err(format!("{k}: iteration exceeded its step bound"));
            }
        }
        if k == "t0.cast" && !v.is_panic() {
            viewed = true;
        }
        if let Some((o, l)) = v.extent() {
            if o.checked_add(l).map_or(true, |e| e > tag_len) || tag_len > img.len() {
                return Err(format!("{k}: reference ({o},{l}) leaves the tag ({tag_len} bytes incl. padding, image {} bytes)", img.len()));
            }
        }
    }
    obs.class(format!("!kind-{}", c.kind));
    obs.class(if viewed { "typed-view" } else { "rejected" });
    if viewed {
        obs.nontrivial(fnv(img) ^ c.kind as u64);
        obs.sample(json!({"kind": c.kind, "image": sample_bytes(img)}));
    }
    Ok(())
}

// --- boot informations one after the other at the same address -------------------

#[derive(Clone, Debug, Serialize, Deserialize)]
pub struct SeqCase {
    pub steps: Vec<Hex>,
}

/// The regions are written one after the other to the same address and fully
/// exercised in one process (a forked child, ordinary memory): every returned
/// reference lies inside the region declared *now* and inside its tag, and
/// every stored result is the reference model's for that region alone.
fn eval_seq(c: &SeqCase, obs: &mut Obs) -> Result<(), String> {
    for s in &c.steps {
        if s.0.len() < 8 || s.0.len() != r8(le32(&s.0, 0) as usize).max(8) || s.0.len() > 1 << 18 {
            return Err("malformed case".into());
        }
    }
    let cap = c.steps.iter().map(|s| s.0.len()).max().unwrap_or(8) + 4096;
    let r = mb2_sandbox::run_child(|| {
        let mut buf = Aligned::new(&vec![0xEEu8; cap]);
        for (i, img) in c.steps.iter().enumerate() {
            let mut all = vec![0xEEu8; cap];
            all[..img.0.len()].copy_from_slice(&img.0);
            buf.overwrite(&all);
            let t = unsafe { mb2_model::exercise_mbi::exercise_mbi(buf.as_ptr(), &MbiOpts { debug: true, max_steps: img.0.len() / 8 + 4, typed_all: true }) };
            if let Err(m) = validate(&t, le32(&img.0, 0) as usize) {
                return format!("E boot information {} of {} at the same address: {m}", i + 1, c.steps.len()).into_bytes();
            }
            let d = mb2_model::expect_mbi::expect_mbi(&img.0, &mb2_model::expect_mbi::ExpectOpts { typed_all: true }).diff(&t, &|k| !k.split('.').any(|seg| seg == "dbg" || seg.starts_with('~')));
            if !d.is_empty() {
                return format!("E boot information {} of {} at the same address: {}", i + 1, c.steps.len(), d.join("; ")).into_bytes();
            }
        }
        b"OK".to_vec()
    });
    match r {
        mb2_sandbox::ChildResult::Done(b) if b == b"OK" => {}
        mb2_sandbox::ChildResult::Done(b) => return Err(String::from_utf8_lossy(&b[2.min(b.len())..]).into_owned()),
        mb2_sandbox::ChildResult::Signal(sig) => return Err(format!("{} boot informations one after the other at the same address crashed the process (signal {sig})", c.steps.len())),
        _ => {
            obs.inconclusive("child did not report");
            return Ok(());
        }
    }
    let lens: Vec<usize> = c.steps.iter().map(|s| s.0.len()).collect();
    let shrinks = lens.windows(2).any(|w| w[1] < w[0]);
    obs.class(if shrinks { "!later-region-shorter" } else { "not-shrinking" });
    if shrinks {
        obs.nontrivial(fnv(format!("{:?}", c.steps).as_bytes()));
        obs.sample(json!({"region_lengths": lens}));
    }
    Ok(())
}

fn strategy_seq(_: &Ctx) -> BoxedStrategy<SeqCase> {
    // a conformant region with several tags, then regions made of a prefix / a suffix /
    // a rotation of its tags, one tag twice, one tag with a tampered size word, or an
    // unrelated region
    (proptest::collection::vec(gen::conf_tag(), 1..=8), proptest::collection::vec((0u8..6, any::<u8>(), proptest::collection::vec(gen::conf_tag(), 0..=5)), 1..=3))
        .prop_map(|(base, vars)| {
            let small = |mut v: Vec<gen::ConfTag>| {
                for t in &mut v {
                    t.n = t.n.min(12);
                }
                v
            };
            let base = small(base);
            let mut steps = vec![Hex(gen::build_conformant_mbi(&base, 0))];
            for (kind, r, other) in vars {
                let mut v = base.clone();
                let k = v.len();
                let mut tamper = false;
                match kind {
                    0 => v.truncate(r as usize % k),
                    1 => {
                        v.drain(..(1 + r as usize % k).min(k));
                    }
                    2 if k > 1 => v.rotate_left(1 + r as usize % (k - 1)),
                    3 => {
                        let d = v[r as usize % k].clone();
                        v.insert(0, d);
                    }
                    4 => tamper = true,
                    _ => v = small(other),
                }
                let mut region = gen::build_conformant_mbi(&v, 0);
                if tamper && region.len() >= 24 {
                    // the first tag claims to be larger than what is left of the region
                    let left = region.len() as u32 - 8;
                    put32(&mut region, 12, left + 8 * (1 + r as u32 % 32));
                }
                steps.push(Hex(region));
            }
            SeqCase { steps }
        })
        .boxed()
}

/// Every kind's conformant image at every declared size 8..=len+16, the image cut
/// or padded to the declared size so that the tag's padded extent ends at the
/// guard page (the counts and indices inside keep their values: whatever no
/// longer fits must be rejected, not read).
fn enumerate_tags(ctx: &Ctx) -> Box<dyn Iterator<Item = TagCase>> {
    let ns: &[usize] = if ctx.tier == Tier::Thorough { &[0, 1, 2, 3, 5] } else { &[0, 1, 2] };
    let mut v = Vec::new();
    for kind in 1u32..=21 {
        for &n in ns {
            for sel in [0u32, 1, 0x0001_0002] {
                if sel > 0 && !matches!(kind, 8 | 9 | 17) {
                    continue;
                }
                let base = mb2_model::encode::conformant_tag(kind, 0xC01, n, sel);
                if base.len() > 200 && n > 0 {
                    continue;
                }
                let sizes: Vec<usize> = if base.len() > 200 { (base.len() - 24..=base.len() + 16).collect() } else { (8..=base.len() + 16).collect() };
                for size in sizes {
                    let mut img = base.clone();
                    img.resize(r8(size), 0x5A);
                    put32(&mut img, 4, size as u32);
                    v.push(TagCase { img: Hex(img), kind, excluded: 0 });
                }
            }
        }
    }
    // ELF-sections tags whose headers refer to the harness-owned names (so that
    // name() is called on whatever is yielded), with the string-table index at
    // the reserved ELF values and just outside the table
    for es_bit in [0u32, 1] {
        for n in 1usize..=3 {
            for link_small in [false, true] {
                let base = mb2_model::encode::conformant_tag(9, 0xE1F + n as u64, n, es_bit | 0x0001_0000 | if link_small { 0x1000 } else { 0 });
                for shndx in [0xffffu32, 0xfff1, 0xff00, 0xfffe, n as u32, 0x1_0000, 0xffff_ffff] {
                    let mut img = base.clone();
                    put32(&mut img, 16, shndx);
                    img.resize(r8(img.len()), 0x5A);
                    v.push(TagCase { img: Hex(img), kind: 9, excluded: 0 });
                }
            }
        }
    }
    Box::new(v.into_iter())
}

fn tag_strategy(_: &Ctx) -> BoxedStrategy<TagCase> {
    let open = known::open(D16_SIG).is_some();
    (gen::tag_spec(3), 0u32..=21, 0u8..4)
        .prop_map(move |(mut s, kind, own)| {
            // mostly view the tag as what it is; sometimes as another kind
            if own != 0 || s.kind > 21 {
                s.kind = kind;
            }
            let mut img = gen::build_tag(&s);
            mb2_model::encode::pad8(&mut img, 0x5A);
            let mut excluded = 0;
            if open && kind == 7 && img.len() >= 784 && r8(le32(&img, 4) as usize) == 784 && img[555] > 7 {
                img[555] %= 8;
                excluded = 1;
            }
            TagCase { img: Hex(img), kind, excluded }
        })
        .boxed()
}

// ---------------------------------------------------------------------------
// pinned demonstrator of the open finding D16

#[derive(Clone, Debug, Serialize, Deserialize)]
pub struct Pinned {
    pub memory_model: u8,
}

fn d16_region(mm: u8) -> Vec<u8> {
    let mut t = mb2_model::encode::conformant_tag(7, 0xD16, 0, 0);
    t[555] = mm;
    mb2_model::encode::mbi(&[t], 0, 0, true)
}

fn eval_pinned(c: &Pinned, _obs: &mut Obs) -> Result<(), String> {
    let r = d16_region(c.memory_model);
    match sbx::mbi(&r, Place::End, MbiOpts { debug: true, max_steps: 200, typed_all: true }) {
        Boxed::Crash(s) => Err(format!("Debug-formatting a VBE tag whose memory-model byte is {} crashed: {s}", c.memory_model)),
        _ => Ok(()),
    }
}

struct PinnedSub;

impl Sub for PinnedSub {
    fn name(&self) -> &str {
        "known-d16"
    }
    fn run(&self, ctx: &Ctx) -> SubReport {
        let mut rep = SubReport::new("known-d16", "pinned input of the open known finding D16 (minimal boot information with one VBE tag whose memory-model byte is 8); re-demonstrated on every run");
        if ctx.worker != 0 {
            return rep;
        }
        let Some(what) = known::open(D16_SIG) else {
            return rep;
        };
        let mut obs = Obs::new();
        let r = eval_pinned(&Pinned { memory_model: 8 }, &mut obs);
        rep.evaluations = 1;
        if r.is_err() {
            rep.known.push(what);
        } else {
            rep.notes.push("the pinned D16 input no longer fails in this profile".into());
        }
        rep
    }
    fn replay(&self, case: &serde_json::Value) -> Result<(), String> {
        let c: Pinned = serde_json::from_value(case.clone()).map_err(|e| e.to_string())?;
        eval_pinned(&c, &mut Obs::new())
    }
}

// ---------------------------------------------------------------------------
// very long tag lists on a small stack

#[derive(Clone, Debug, Serialize, Deserialize)]
pub struct ManyCase {
    /// number of 8-byte filler tags (custom type)
    pub fillers: u32,
    /// positions (in units of filler tags) at which a module tag is inserted
    pub modules_at: Vec<u32>,
    pub filler_type: u32,
    /// 0: the fillers are 8-byte tags; 1..=3: the fillers are the *elements* of one
    /// tag instead - 1 ELF section headers of a type that is skipped (every 25000th
    /// in use), 2 EFI descriptors, 3 memory-map entries (at most 50 000)
    #[serde(default)]
    pub inner: u8,
}

/// The one tag of the `inner` variants.
fn inner_tag(c: &ManyCase) -> Vec<u8> {
    let n = c.fillers.min(50_000) as usize;
    match c.inner {
        1 => {
            let mut body = vec![0u8; 12 + 40 * n];
            put32(&mut body, 0, n as u32);
            put32(&mut body, 4, 40);
            put32(&mut body, 8, 0);
            for e in 0..n {
                put32(&mut body, 12 + 40 * e + 4, if e % 25000 == 24999 { 1 } else { 14 });
            }
            mb2_model::encode::tag(9, &body)
        }
        2 => {
            let mut body = vec![0u8; 8 + 40 * n];
            put32(&mut body, 0, 40);
            put32(&mut body, 4, 1);
            mb2_model::encode::tag(17, &body)
        }
        _ => {
            let mut body = vec![0u8; 8 + 24 * n];
            put32(&mut body, 0, 24);
            mb2_model::encode::tag(6, &body)
        }
    }
}

pub const SMALL_STACK: usize = 1 << 20;

fn many_region(c: &ManyCase) -> Vec<u8> {
    if c.inner != 0 {
        return mb2_model::encode::mbi(&[inner_tag(c)], 0, 0, true);
    }
    let mut v = vec![0u8; 8];
    let module = mb2_model::encode::conformant_tag(3, 0x3A, 3, 0);
    let mut at: Vec<u32> = c.modules_at.clone();
    at.sort_unstable();
    let mut next = 0usize;
    for i in 0..=c.fillers {
        while next < at.len() && at[next] <= i {
            v.extend_from_slice(&module);
            mb2_model::encode::pad8(&mut v, 0);
            next += 1;
        }
        if i < c.fillers {
            v.extend_from_slice(&c.filler_type.to_le_bytes());
            v.extend_from_slice(&8u32.to_le_bytes());
        }
    }
    v.extend_from_slice(&mb2_model::encode::END_TAG);
    let l = v.len() as u32;
    put32(&mut v, 0, l);
    v
}

/// A light exercise (no per-item transcript): counts, getters, Debug - run on a
/// thread with a 1 MiB stack inside the sandbox child, so that stack use that
/// grows with the number of tags becomes a crash.
fn many_exercise(ptr: *const u8) -> mb2_model::transcript::Transcript {
    let p = ptr as usize;
    let h = std::thread::Builder::new().stack_size(SMALL_STACK).spawn(move || {
        use mb2_model::panics::catch;
        let mut t = mb2_model::transcript::Transcript::new();
        let Some(Ok(mbi)) = catch(|| unsafe { multiboot2::BootInformation::load((p as *const u8).cast()) }) else {
            t.push("load", Val::Panic);
            return t;
        };
        t.push("load", Val::Txt("Ok".into()));
        t.push("tags", catch(|| mbi.tags().count()).map_or(Val::Panic, |n| Val::U(n as u64)));
        t.push("modules", catch(|| mbi.module_tags().count()).map_or(Val::Panic, |n| Val::U(n as u64)));
        t.push("last_module", catch(|| mbi.module_tags().last().map(|m| m as *const _ as *const u8 as usize - p)).map_or(Val::Panic, |o| o.map_or(Val::None, |o| Val::U(o as u64))));
        t.push("g.cmdline", catch(|| mbi.command_line_tag().is_some()).map_or(Val::Panic, Val::B));
        t.push("g.efi_mmap", catch(|| mbi.efi_memory_map_tag().is_some()).map_or(Val::Panic, Val::B));
        t.push("g.custom_end", catch(|| mbi.get_tag::<multiboot2::EndTag>().map(|e| e as *const _ as *const u8 as usize - p)).map_or(Val::Panic, |o| o.map_or(Val::None, |o| Val::U(o as u64))));
        t.push("dbg", catch(|| format!("{mbi:?}").len()).map_or(Val::Panic, |_| Val::Ok));
        // sub-iterators over the elements of one tag
        t.push("elf", catch(|| mbi.elf_sections_tag().map(|e| e.sections().count())).map_or(Val::Panic, |o| o.map_or(Val::None, |n| Val::U(n as u64))));
        t.push("elf.last", catch(|| mbi.elf_sections_tag().and_then(|e| e.sections().last().map(|s| s.section_type_raw()))).map_or(Val::Panic, |o| o.map_or(Val::None, |n| Val::U(n as u64))));
        t.push("efi", catch(|| mbi.efi_memory_map_tag().map(|e| e.memory_areas().count())).map_or(Val::Panic, |o| o.map_or(Val::None, |n| Val::U(n as u64))));
        t.push("mmap", catch(|| mbi.memory_map_tag().map(|e| e.memory_areas().len())).map_or(Val::Panic, |o| o.map_or(Val::None, |n| Val::U(n as u64))));
        t
    });
    match h.map(|h| h.join()) {
        Ok(Ok(t)) => t,
        _ => {
            let mut t = mb2_model::transcript::Transcript::new();
            t.push("thread", Val::Panic);
            t
        }
    }
}

pub fn eval_many(c: &ManyCase, obs: &mut Obs) -> Result<(), String> {
    if c.fillers > 200_000 || c.modules_at.len() > 8 || c.filler_type <= 21 || c.inner > 3 {
        return Err("malformed case".into());
    }
    let region = many_region(c);
    let ts = region.len();
    obs.class(format!("fillers-10^{}", (c.fillers.max(1) as f64).log10().floor() as u32));
    obs.nontrivial(fnv(format!("{c:?}").as_bytes()));
    obs.sample(json!({"filler_tags": c.fillers, "module_tags_at": c.modules_at, "region_bytes": ts, "stack": SMALL_STACK}));
    let t = match sbx::with_guarded(&region, 8, Place::End, |p, _| many_exercise(p)) {
        Boxed::Done(t) => t,
        Boxed::Crash(s) => return Err(format!("{} filler tags, modules at {:?}, 1 MiB stack: the process crashed: {s}", c.fillers, c.modules_at)),
        Boxed::Inconclusive(w) => {
            obs.inconclusive(w);
            return Ok(());
        }
    };
    let n_mod = c.modules_at.len() as u64;
    let total = c.fillers as u64 + n_mod + 1;
    let n = c.fillers.min(50_000) as u64;
    let want: Vec<(&str, Val)> = if c.inner == 0 {
        vec![("load", Val::Txt("Ok".into())), ("tags", Val::U(total)), ("modules", Val::U(n_mod)), ("g.cmdline", Val::B(false)), ("g.efi_mmap", Val::B(false)), ("g.custom_end", Val::U(ts as u64 - 8)), ("dbg", Val::Ok), ("elf", Val::None), ("efi", Val::None), ("mmap", Val::None)]
    } else {
        let mut w = vec![("load", Val::Txt("Ok".into())), ("tags", Val::U(2)), ("modules", Val::U(0)), ("g.custom_end", Val::U(ts as u64 - 8)), ("dbg", Val::Ok)];
        match c.inner {
            // an empty section table may be rejected or iterated as empty (see C19)
            1 if n > 0 => {
                w.push(("elf", Val::U(n / 25000)));
                w.push(("elf.last", if n >= 25000 { Val::U(1) } else { Val::None }));
            }
            2 => w.push(("efi", Val::U(n))),
            3 => w.push(("mmap", Val::U(n))),
            _ => {}
        }
        w
    };
    for (k, v) in want {
        if t.get(k) != Some(&v) {
            return Err(format!("{} filler tags, modules at {:?}: {k}: expected {}, got {:?}", c.fillers, c.modules_at, v.render(), t.get(k).map(|x| x.render())));
        }
    }
    Ok(())
}

fn enumerate_many(ctx: &Ctx) -> Box<dyn Iterator<Item = ManyCase>> {
    let mut v = Vec::new();
    let sizes: &[u32] = if ctx.tier == Tier::Thorough { &[0, 1, 100, 5_000, 20_000, 50_000, 100_000, 200_000] } else { &[0, 1, 100, 5_000, 20_000, 60_000] };
    for &n in sizes {
        v.push(ManyCase { fillers: n, modules_at: vec![], filler_type: 0x1234, inner: 0 });
        for inner in 1..=3u8 {
            v.push(ManyCase { fillers: n.min(50_000), modules_at: vec![], filler_type: 0x1234, inner });
        }
        v.push(ManyCase { fillers: n, modules_at: vec![0, n], filler_type: 22, inner: 0 });
        v.push(ManyCase { fillers: n, modules_at: vec![n / 2, n / 2, n], filler_type: 0xFFFF_FFFF, inner: 0 });
    }
    Box::new(v.into_iter())
}

fn strategy_many(_: &Ctx) -> BoxedStrategy<ManyCase> {
    (prop_oneof![3 => 0u32..2000, 1 => 2000u32..60_000], proptest::collection::vec(any::<u32>(), 0..4), 22u32..)
        .prop_map(|(fillers, at, filler_type)| ManyCase { fillers, modules_at: at.into_iter().map(|x| x % (fillers + 1)).collect(), filler_type, inner: if filler_type % 4 == 0 { 1 + (filler_type >> 2) as u8 % 3 } else { 0 } })
        .boxed()
}

pub fn subs() -> Vec<Box<dyn Sub>> {
    vec![
        Box::new(PropSub::<ManyCase> {
            name: "many-tags",
            rule: "very long lists: 0 .. 60 000 (thorough 200 000) 8-byte custom tags with 0..=3 module tags at chosen positions - or one tag with up to 50 000 elements (ELF section headers of a skipped type with every 25000th in use, EFI descriptors, memory-map entries) - exercised (load, tags().count(), module_tags().count()/last(), getters that have to walk the whole list, Debug of the boot information) on a thread with a 1 MiB stack inside the sandbox child, so that stack consumption that grows with the number of tags (recursion) becomes a crash. Oracle: no crash, counts and offsets equal the model. Every case is non-trivial; distinct by case",
            profiles: Profiles::Both,
            quick: 60,
            thorough: 2000,
            strategy: strategy_many,
            enumerate: Some(enumerate_many),
            enum_exhaustive: false,
            eval: eval_many,
        }),
        Box::new(PropSub::<Case> {
            name: "region",
            rule: "adversarial regions built by construction (0..=8, thorough 12, conformant tag images of all 22 kinds + custom types with tampered size words, counts, strides, indices, lengths, type bytes, terminators; random extra bytes; missing/invalid end tag; total size not a multiple of 8 / shortened / tiny) placed flush against a PROT_NONE page (80% end, 20% start) in a forked child; program = load, 4 region accessors, tags() walk incl. next-after-None, every item viewed as its typed tag with all accessors and sub-iterators (EFI, ELF, memory areas, palette), 22 typed getters + deprecated elf_sections(), module_tags(), Debug of every tag / iterator / the boot information ({:?} and {:#?}; 75% of cases). Oracle: no signal, step bounds, every returned reference/slice/str inside the declared region and inside the padded extent of the tag it came from. Non-trivial = loads and >=1 typed view of a kind with stored counts/lengths; distinct by hash(region, debug flag)",
            profiles: Profiles::Both,
            quick: 9000,
            thorough: 400000,
            strategy,
            enumerate: None,
            enum_exhaustive: false,
            eval,
        }),
        Box::new(PropSub::<TagCase> {
            name: "single-tag",
            rule: "stand-alone tag image ending at a PROT_NONE page - enumerated: every kind's conformant image at every declared size 8..=len+16, cut or padded to that size (counts and indices inside keep their values); generated: adversarial images - viewed through DynSizedStructure::<TagHeader>::ref_from_slice(..).cast::<T>() as each of the 22 built-in kinds (half of the time as its own kind) with all accessors/iterators/Debug: any read of even one byte beyond the tag's padded extent faults. Non-trivial = the typed view was obtained; distinct by hash(image, kind)",
            profiles: Profiles::Both,
            quick: 9000,
            thorough: 400000,
            strategy: tag_strategy,
            enumerate: Some(enumerate_tags),
            enum_exhaustive: false,
            eval: eval_tag,
        }),
        Box::new(PropSub::<SeqCase> {
            name: "mbi-sequences",
            rule: "2..=4 boot informations written one after the other to the same address and fully exercised in one process: a conformant region with up to 8 tags, then regions made of a prefix, a suffix or a rotation of its tags, one tag twice, the same region with a first tag that claims to be larger than the rest of the region, or an unrelated region. Oracle: extent check against the total size declared now (every returned reference inside the current region and its tag) and the complete stored transcript equals the reference model's for that region alone. Non-trivial = a later region is shorter than an earlier one; distinct by the sequence",
            profiles: Profiles::Both,
            quick: 4000,
            thorough: 200000,
            strategy: strategy_seq,
            enumerate: None,
            enum_exhaustive: false,
            eval: eval_seq,
        }),
        Box::new(PinnedSub),
        Box::new(super::fuzzsub::FuzzSub { target: "fuzz_mbi", name: "fuzz-mbi", runs: 1_000_000, quick_runs: 12_000, max_len: 2048 }),
        Box::new(super::fuzzsub::FuzzSub { target: "fuzz_tag", name: "fuzz-tag", runs: 1_600_000, quick_runs: 30_000, max_len: 1024 }),
    ]
}
