//! C01 - boot-information parsing never reads outside the loaded structure.

use crate::gen;
use crate::known;
use crate::runner::*;
use crate::sbx::{self, Boxed, Place};
use mb2_model::exercise_mbi::MbiOpts;
use mb2_model::transcript::Val;
use mb2_model::walk::*;
use mb2_model::*;
use proptest::prelude::*;
use serde::{Deserialize, Serialize};
use serde_json::json;

pub const D16_SIG: &str = "C01/vbe-memory-model";

#[derive(Clone, Debug, Serialize, Deserialize)]
pub struct Case {
    pub region: Hex,
    pub place: Place,
    pub debug: bool,
    #[serde(default)]
    pub excluded: u32,
}

pub use mb2_model::extent::{validate, validate_from, Stats};

pub fn eval(c: &Case, obs: &mut Obs) -> Result<(), String> {
    let bytes = &c.region.0;
    if bytes.len() < 8 || bytes.len() != r8(le32(bytes, 0) as usize).max(8) || bytes.len() > sbx::GUARD_CAP {
        return Err("malformed case: region length must be max(8, r8(total size))".into());
    }
    obs.excluded_known += c.excluded as u64;
    let ts = le32(bytes, 0) as usize;
    let opts = MbiOpts { debug: c.debug, max_steps: bytes.len() / 8 + 4, typed_all: true };
    let t = match sbx::mbi(bytes, c.place, opts) {
        Boxed::Done(t) => t,
        Boxed::Crash(s) => return Err(format!("the process crashed while loading/using the boot information: {s}")),
        Boxed::Inconclusive(w) => {
            obs.inconclusive(w);
            return Ok(());
        }
    };
    let st = validate(&t, ts)?;
    obs.class(if st.loaded { "loads" } else { "load-fails" });
    if ts % 8 != 0 {
        obs.class("size-not-multiple-of-8");
    }
    if st.panics > 0 {
        obs.class("has-controlled-panic");
    }
    let mut ks = st.kinds.clone();
    ks.sort_unstable();
    ks.dedup();
    for k in &ks {
        if *k <= 21 {
            obs.class(format!("!kind-{k}"));
        }
    }
    if st.loaded && st.counted_views > 0 {
        obs.nontrivial(fnv(bytes) ^ c.debug as u64);
        obs.sample(json!({"region": sample_bytes(bytes), "placement": format!("{:?}", c.place), "kinds_viewed": ks, "controlled_panics": st.panics, "transcript_lines": t.lines.len()}));
    }
    Ok(())
}

fn strategy(ctx: &Ctx) -> BoxedStrategy<Case> {
    let open = known::open(D16_SIG).is_some();
    let max_tags = if ctx.tier == Tier::Thorough { 12 } else { 8 };
    (gen::mbi_spec(max_tags, 3), prop_oneof![4 => Just(Place::End), 1 => Just(Place::Start)], prop_oneof![3 => Just(true), 1 => Just(false)])
        .prop_map(move |(s, place, debug)| {
            let mut region = gen::build_mbi(&s);
            let excluded = if open { gen::exclude_vbe_memory_model(&mut region) as u32 } else { 0 };
            Case { region: Hex(region), place, debug, excluded }
        })
        .boxed()
}

// ---------------------------------------------------------------------------
// single tag flush against the guard page

#[derive(Clone, Debug, Serialize, Deserialize)]
pub struct TagCase {
    pub img: Hex,
    pub kind: u32,
    #[serde(default)]
    pub excluded: u32,
}

pub fn eval_tag(c: &TagCase, obs: &mut Obs) -> Result<(), String> {
    let img = &c.img.0;
    if img.len() < 8 || img.len() % 8 != 0 {
        return Err("malformed case: image length must be a positive multiple of 8".into());
    }
    obs.excluded_known += c.excluded as u64;
    let opts = MbiOpts { debug: true, max_steps: img.len() / 8 + 4, typed_all: true };
    let t = match sbx::single_tag(img, c.kind, opts) {
        Boxed::Done(t) => t,
        Boxed::Crash(s) => {
            return Err(format!("viewing/using a stand-alone tag of kind {} (size word {}) that ends at a guard page crashed: {s}", c.kind, le32(img, 4)))
        }
        Boxed::Inconclusive(w) => {
            obs.inconclusive(w);
            return Ok(());
        }
    };
    let mut viewed = false;
    let tag_len = match t.get("ref") {
        Some(Val::Ext(0, l)) => *l,
        Some(Val::Ext(o, l)) => return Err(format!("ref_from_slice returned a structure at offset {o} (len {l})")),
        _ => 0,
    };
    for (k, v) in &t.lines {
        if let Val::Txt(s) = v {
            if s == "step-bound" {
                return Err(format!("{k}: iteration exceeded its step bound"));
            }
        }
        if k == "t0.cast" && !v.is_panic() {
            viewed = true;
        }
        if let Some((o, l)) = v.extent() {
            if o.checked_add(l).map_or(true, |e| e > tag_len) || tag_len > img.len() {
                return Err(format!("{k}: reference ({o},{l}) leaves the tag ({tag_len} bytes incl. padding, image {} bytes)", img.len()));
            }
        }
    }
    obs.class(format!("!kind-{}", c.kind));
    obs.class(if viewed { "typed-view" } else { "rejected" });
    if viewed {
        obs.nontrivial(fnv(img) ^ c.kind as u64);
        obs.sample(json!({"kind": c.kind, "image": sample_bytes(img)}));
    }
    Ok(())
}

fn tag_strategy(_: &Ctx) -> BoxedStrategy<TagCase> {
    let open = known::open(D16_SIG).is_some();
    (gen::tag_spec(3), 0u32..=21, 0u8..4)
        .prop_map(move |(mut s, kind, own)| {
            // mostly view the tag as what it is; sometimes as another kind
            if own != 0 || s.kind > 21 {
                s.kind = kind;
            }
            let mut img = gen::build_tag(&s);
            mb2_model::encode::pad8(&mut img, 0x5A);
            let mut excluded = 0;
            if open && kind == 7 && img.len() >= 784 && r8(le32(&img, 4) as usize) == 784 && img[555] > 7 {
                img[555] %= 8;
                excluded = 1;
            }
            TagCase { img: Hex(img), kind, excluded }
        })
        .boxed()
}

// ---------------------------------------------------------------------------
// pinned demonstrator of the open finding D16

#[derive(Clone, Debug, Serialize, Deserialize)]
pub struct Pinned {
    pub memory_model: u8,
}

fn d16_region(mm: u8) -> Vec<u8> {
    let mut t = mb2_model::encode::conformant_tag(7, 0xD16, 0, 0);
    t[555] = mm;
    mb2_model::encode::mbi(&[t], 0, 0, true)
}

fn eval_pinned(c: &Pinned, _obs: &mut Obs) -> Result<(), String> {
    let r = d16_region(c.memory_model);
    match sbx::mbi(&r, Place::End, MbiOpts { debug: true, max_steps: 200, typed_all: true }) {
        Boxed::Crash(s) => Err(format!("Debug-formatting a VBE tag whose memory-model byte is {} crashed: {s}", c.memory_model)),
        _ => Ok(()),
    }
}

struct PinnedSub;

impl Sub for PinnedSub {
    fn name(&self) -> &str {
        "known-d16"
    }
    fn run(&self, ctx: &Ctx) -> SubReport {
        let mut rep = SubReport::new("known-d16", "pinned input of the open known finding D16 (minimal boot information with one VBE tag whose memory-model byte is 8); re-demonstrated on every run");
        if ctx.worker != 0 {
            return rep;
        }
        let Some(what) = known::open(D16_SIG) else {
            return rep;
        };
        let mut obs = Obs::new();
        let r = eval_pinned(&Pinned { memory_model: 8 }, &mut obs);
        rep.evaluations = 1;
        if r.is_err() {
            rep.known.push(what);
        } else {
            rep.notes.push("the pinned D16 input no longer fails in this profile".into());
        }
        rep
    }
    fn replay(&self, case: &serde_json::Value) -> Result<(), String> {
        let c: Pinned = serde_json::from_value(case.clone()).map_err(|e| e.to_string())?;
        eval_pinned(&c, &mut Obs::new())
    }
}

pub fn subs() -> Vec<Box<dyn Sub>> {
    vec![
        Box::new(PropSub::<Case> {
            name: "region",
            rule: "adversarial regions built by construction (0..=8, thorough 12, conformant tag images of all 22 kinds + custom types with tampered size words, counts, strides, indices, lengths, type bytes, terminators; random extra bytes; missing/invalid end tag; total size not a multiple of 8 / shortened / tiny) placed flush against a PROT_NONE page (80% end, 20% start) in a forked child; program = load, 4 region accessors, tags() walk incl. next-after-None, every item viewed as its typed tag with all accessors and sub-iterators (EFI, ELF, memory areas, palette), 22 typed getters + deprecated elf_sections(), module_tags(), Debug of every tag / iterator / the boot information ({:?} and {:#?}; 75% of cases). Oracle: no signal, step bounds, every returned reference/slice/str inside the declared region and inside the padded extent of the tag it came from. Non-trivial = loads and >=1 typed view of a kind with stored counts/lengths; distinct by hash(region, debug flag)",
            profiles: Profiles::Both,
            quick: 9000,
            thorough: 400000,
            strategy,
            enumerate: None,
            enum_exhaustive: false,
            eval,
        }),
        Box::new(PropSub::<TagCase> {
            name: "single-tag",
            rule: "stand-alone adversarial tag image (padded to 8) ending at a PROT_NONE page, viewed through DynSizedStructure::<TagHeader>::ref_from_slice(..).cast::<T>() as each of the 22 built-in kinds (half of the time as its own kind) with all accessors/iterators/Debug: any read of even one byte beyond the tag's padded extent faults. Non-trivial = the typed view was obtained; distinct by hash(image, kind)",
            profiles: Profiles::Both,
            quick: 9000,
            thorough: 400000,
            strategy: tag_strategy,
            enumerate: None,
            enum_exhaustive: false,
            eval: eval_tag,
        }),
        Box::new(PinnedSub),
        Box::new(super::fuzzsub::FuzzSub { target: "fuzz_mbi", name: "fuzz-mbi", runs: 1_600_000, max_len: 2048 }),
        Box::new(super::fuzzsub::FuzzSub { target: "fuzz_tag", name: "fuzz-tag", runs: 3_200_000, max_len: 1024 }),
    ]
}
