//! C02 - loading accepts exactly the well-formed boot informations.

use crate::runner::*;
use crate::sbx::{self, Boxed, Place};
use mb2_model::transcript::{Rec, Transcript, Val};
use mb2_model::walk::*;
use mb2_model::*;
use proptest::prelude::*;
use serde::{Deserialize, Serialize};
use serde_json::json;

#[derive(Clone, Debug, Serialize, Deserialize)]
pub struct Case {
    pub null: bool,
    pub ts: u32,
    pub reserved: u32,
    pub last8: Hex,
    pub key: u64,
    pub place: Place,
    /// Some(x): an end-tag look-alike (type 0, size 8) is planted at an 8-aligned
    /// interior offset chosen by x (the region's interior is otherwise marker
    /// bytes that never look like an end tag)
    #[serde(default)]
    pub decoy: Option<u16>,
    /// Some(k): the region is not built from the fields above but is another
    /// structure handed to load() by mistake: 0/1 a valid Multiboot2 *header*
    /// (I386 / MIPS32, a few tags), 2 a Multiboot 1 header, 3 an ELF file header
    #[serde(default)]
    pub foreign: Option<u8>,
}

pub const MAX_TS: u32 = 1 << 20;

pub fn region(c: &Case) -> Vec<u8> {
    if let Some(k) = c.foreign {
        use mb2_model::encode::{conformant_hdr_tag, hdr, hdr_end_tag};
        let mut v = match k % 4 {
            0 | 1 => {
                let mut tags: Vec<Vec<u8>> = (0..(c.key % 4) as u32).map(|j| conformant_hdr_tag(2 + j, c.key, 1, 0)).collect();
                tags.push(hdr_end_tag());
                hdr(if k % 4 == 0 { 0 } else { 4 }, &tags, 0)
            }
            2 => {
                let flags = (c.key as u32) & 0x0001_0007;
                let mut v = vec![0u8; 48];
                put32(&mut v, 0, 0x1BAD_B002);
                put32(&mut v, 4, flags);
                put32(&mut v, 8, 0u32.wrapping_sub(0x1BAD_B002u32.wrapping_add(flags)));
                v
            }
            _ => {
                let mut v = vec![0u8; 64];
                v[..8].copy_from_slice(&[0x7f, b'E', b'L', b'F', 2, 1, 1, 0]);
                v
            }
        };
        // what load() may touch: max(8, r8(first word)) bytes - capped, the huge
        // first words of these structures are never fully mapped here
        v.resize(v.len().max(64), 0);
        return v;
    }
    let len = r8(c.ts as usize).max(8);
    let mut v: Vec<u8> = (0..len).map(|i| marker(c.key, i)).collect();
    let ts = c.ts as usize;
    if let Some(x) = c.decoy {
        // interior slots: offsets 8, 16, .. , len-16
        if len >= 24 {
            let slots = (len - 16) / 8;
            let at = 8 + 8 * (((x as usize) * slots) >> 16);
            v[at..at + 8].copy_from_slice(&mb2_model::encode::END_TAG);
        }
    }
    if ts >= 16 && ts <= len && c.last8.0.len() == 8 {
        v[ts - 8..ts].copy_from_slice(&c.last8.0);
    }
    put32(&mut v, 0, c.ts);
    put32(&mut v, 4, c.reserved);
    v
}

fn load_transcript(ptr: *const u8) -> Transcript {
    let mut rec = Rec::new(ptr as usize);
    let r = mb2_model::panics::catch(|| unsafe { multiboot2::BootInformation::load(ptr.cast()) });
    match r {
        None => rec.t.push("load", Val::Panic),
        Some(Err(e)) => rec.t.push("load", Val::Err(format!("{e:?}"))),
        Some(Ok(mbi)) => {
            rec.t.push("load", Val::Txt("Ok".into()));
            let base = rec.base;
            rec.call("mbi.start".into(), || Val::U(mbi.start_address().wrapping_sub(base) as u64));
            rec.call("mbi.end".into(), || Val::U(mbi.end_address().wrapping_sub(base) as u64));
            rec.call("mbi.total".into(), || Val::U(mbi.total_size() as u64));
            rec.call("mbi.ptr".into(), || Val::U((mbi.as_ptr() as usize).wrapping_sub(base) as u64));
        }
    }
    rec.t
}

pub fn eval(c: &Case, obs: &mut Obs) -> Result<(), String> {
    if c.null {
        let t = load_transcript(std::ptr::null());
        obs.class("null");
        obs.nontrivial(1);
        obs.sample(json!({"ptr": "null"}));
        return match t.get("load") {
            Some(Val::Err(e)) if e == "Memory(Null)" => Ok(()),
            other => Err(format!("load(null) must report Memory(Null), got {other:?}")),
        };
    }
    let bytes = region(c);
    let want = predict_mbi_load(&bytes);
    obs.class(format!("expect:{}", want.text()));
    let plain = want == MbiLoad::Ok && c.reserved == 0;
    if !plain {
        obs.nontrivial(fnv(format!("{}/{}/{}", c.ts, c.reserved, hex(&c.last8.0)).as_bytes()));
        obs.sample(json!({"total_size_word": c.ts, "reserved": c.reserved, "last8": hex(&c.last8.0), "expected": want.text()}));
    }
    let got = match sbx::with_guarded(&bytes, 8, c.place, |p, _| load_transcript(p)) {
        Boxed::Done(t) => t,
        Boxed::Crash(s) => return Err(format!("load crashed the process: {s} (total size word {})", c.ts)),
        Boxed::Inconclusive(w) => {
            obs.inconclusive(w);
            return Ok(());
        }
    };
    judge(c, want, &got)
}

fn judge(c: &Case, want: MbiLoad, got: &Transcript) -> Result<(), String> {
    let mut exp = transcript::Expected::new();
    if want == MbiLoad::Ok {
        exp.is("load", Val::Txt("Ok".into()));
        exp.u("mbi.start", 0);
        exp.u("mbi.end", c.ts as u64);
        exp.u("mbi.total", c.ts as u64);
        exp.u("mbi.ptr", 0);
    } else {
        exp.is("load", Val::Err(want.text().into()));
    }
    let d = exp.diff(got, &|_| true);
    if d.is_empty() {
        Ok(())
    } else {
        Err(format!("total size word {}{}: {}", if c.foreign.is_some() { le32(&region(c), 0) } else { c.ts }, if c.foreign.is_some() { " (another structure handed to load)" } else { "" }, d.join("; ")))
    }
}

// --- the same decision in every build configuration ------------------------------

fn config_regions() -> Vec<Vec<u8>> {
    let mut v: Vec<Vec<u8>> = addr_cases().iter().map(region).collect();
    for k in 0..4u8 {
        v.push(region(&Case { null: false, ts: 0, reserved: 0, last8: Hex(vec![0; 8]), key: 3, place: Place::End, decoy: None, foreign: Some(k) }));
    }
    // well-formed structures of 4 KiB .. 1 MiB (one large tag + end tag), and the same without end tag
    for total in [0x1000usize, 0xFFF8, 0x1_0000, 0x1_0008, 0x2_0000, 0x10_0000] {
        let body = vec![0x6Bu8; total - 8 - 8 - 8];
        v.push(mb2_model::encode::mbi(&[mb2_model::encode::tag(0x99, &body)], 0, 0, true));
        let mut broken = mb2_model::encode::mbi(&[mb2_model::encode::tag(0x99, &body)], 0, 0, true);
        let n = broken.len();
        broken[n - 4] = 9;
        v.push(broken);
    }
    v
}

fn config_ok(bytes: &[u8]) -> Result<(), String> {
    let want = predict_mbi_load(bytes);
    let want_line = if want == MbiLoad::Ok { "load = 'Ok'".to_string() } else { format!("load = Err({})", want.text()) };
    let mut padded = bytes.to_vec();
    padded.resize(r8(padded.len()).max(8), 0);
    let answers = super::c08::ask_line(&format!("M {}\n", hex(&padded))).map_err(|e| format!("INCONCLUSIVE: transcript servers: {e}"))?;
    for (cfg, text) in answers {
        let line = text.lines().find(|l| l.starts_with("load = ")).unwrap_or("(no load line)");
        if line != want_line {
            return Err(format!("region of {} bytes (total size word {}): configuration {cfg} answers `{line}`, the decision table says `{want_line}`", bytes.len(), le32(bytes, 0)));
        }
    }
    Ok(())
}

fn run_configs(ctx: &Ctx, rep: &mut SubReport) {
    for (i, bytes) in config_regions().into_iter().enumerate() {
        if !ctx.mine(i as u64) {
            continue;
        }
        rep.evaluations += 1;
        rep.nontrivial.insert(fnv(&bytes[..bytes.len().min(64)]) ^ bytes.len() as u64);
        match config_ok(&bytes) {
            Ok(()) => {}
            Err(m) if m.starts_with("INCONCLUSIVE") => {
                rep.inconclusive.push(m);
                return;
            }
            Err(m) => {
                rep.violations.push(Violation { sub: "load-all-configs".into(), profile: profile_name().into(), message: m, case: json!({"index": i}) });
                return;
            }
        }
    }
    rep.samples.push(json!({"total_size": "0x10008", "expect": "loads in all four configurations"}));
}

fn replay_configs(v: &serde_json::Value) -> Result<(), String> {
    let i = v["index"].as_u64().unwrap_or(0) as usize;
    match config_regions().get(i) {
        Some(b) => config_ok(b),
        None => Err("replay file names no region".into()),
    }
}

// --- the same decisions wherever the structure lives -----------------------------

fn addr_cases() -> Vec<Case> {
    let end = Hex(mb2_model::encode::END_TAG.to_vec());
    let bad = Hex(vec![0, 0, 0, 0, 9, 0, 0, 0]);
    let mut v = Vec::new();
    for (i, (ts, last8)) in [(16u32, &end), (24, &end), (64, &end), (24, &bad), (8, &end), (20, &end), (0, &end)].into_iter().enumerate() {
        v.push(Case { null: false, ts, reserved: if i % 2 == 0 { 0 } else { 0xFFFF_FFFF }, last8: last8.clone(), key: 0xADD0 + i as u64, place: Place::End, decoy: None, foreign: None });
    }
    v
}

fn run_addr(ctx: &Ctx, rep: &mut SubReport) {
    if ctx.worker != 0 {
        return;
    }
    let mut granted = 0;
    for addr in sbx::SPECIAL_ADDRS {
        for c in addr_cases() {
            let bytes = region(&c);
            let want = predict_mbi_load(&bytes);
            match sbx::at_address(addr, &bytes, |p, _| load_transcript(p)) {
                None => continue,
                Some(Boxed::Inconclusive(w)) => rep.inconclusive.push(w),
                Some(Boxed::Crash(s)) => {
                    rep.violations.push(Violation { sub: "special-addresses".into(), profile: profile_name().into(), message: format!("boot information at address {addr:#x}: load crashed the process: {s}"), case: json!({"addr": addr, "case": c}) });
                    return;
                }
                Some(Boxed::Done(t)) => {
                    granted += 1;
                    rep.evaluations += 1;
                    rep.nontrivial.insert(addr as u64 ^ fnv(&bytes));
                    if let Err(m) = judge(&c, want, &t) {
                        rep.violations.push(Violation { sub: "special-addresses".into(), profile: profile_name().into(), message: format!("boot information at address {addr:#x}: {m}"), case: json!({"addr": addr, "case": c}) });
                        return;
                    }
                }
            }
        }
    }
    rep.notes.push(format!("{granted} loads at special addresses (of {} address x case combinations; the rest could not be mapped)", sbx::SPECIAL_ADDRS.len() * addr_cases().len()));
    rep.samples.push(json!({"addr": "0x100000000", "expect": "same decision as anywhere else"}));
}

fn replay_addr(v: &serde_json::Value) -> Result<(), String> {
    let addr = v["addr"].as_u64().unwrap_or(0) as usize;
    let c: Case = serde_json::from_value(v["case"].clone()).map_err(|e| e.to_string())?;
    let bytes = region(&c);
    match sbx::at_address(addr, &bytes, |p, _| load_transcript(p)) {
        None => Err("INCONCLUSIVE: the address could not be mapped".into()),
        Some(Boxed::Inconclusive(w)) => Err(format!("INCONCLUSIVE: {w}")),
        Some(Boxed::Crash(s)) => Err(format!("crashed: {s}")),
        Some(Boxed::Done(t)) => judge(&c, predict_mbi_load(&bytes), &t),
    }
}

fn last8_variants() -> Vec<[u8; 8]> {
    let mk = |t: u32, s: u32| {
        let mut a = [0u8; 8];
        a[..4].copy_from_slice(&t.to_le_bytes());
        a[4..].copy_from_slice(&s.to_le_bytes());
        a
    };
    // (index 0 is the valid end tag; the first four are used by the coarser sweeps)
    vec![mk(0, 8), mk(1, 8), mk(0, 0), mk(0, 7), mk(0, 9), mk(0, 16), mk(0x100, 8), mk(0, 0x108), mk(0x1_0000, 8), mk(0x8000_0000, 8), mk(0xFFFF_0000, 8), mk(0, 0x1_0008), mk(0, 0x8000_0008)]
}

fn strategy(_: &Ctx) -> BoxedStrategy<Case> {
    let ts = prop_oneof![
        2 => 0u32..=72,
        4 => (1u32..=512, 0u32..8).prop_map(|(k, d)| (8 * k).saturating_sub(d)),
        2 => 0u32..=MAX_TS,
        2 => (1u32..=(MAX_TS / 8)).prop_map(|k| 8 * k),
    ];
    let last8 = prop_oneof![
        5 => Just(Hex(vec![0, 0, 0, 0, 8, 0, 0, 0])),
        3 => proptest::sample::select(last8_variants()).prop_map(|a| Hex(a.to_vec())),
        2 => any::<[u8; 8]>().prop_map(|a| Hex(a.to_vec())),
        1 => (any::<u32>()).prop_map(|t| { let mut a = vec![0u8; 8]; a[..4].copy_from_slice(&t.to_le_bytes()); a[4] = 8; Hex(a) }),
    ];
    (
        prop_oneof![200 => Just(false), 1 => Just(true)],
        ts,
        prop_oneof![Just(0u32), any::<u32>()],
        last8,
        any::<u64>(),
        prop_oneof![4 => Just(Place::End), 1 => Just(Place::Start)],
        prop_oneof![2 => Just(None), 1 => any::<u16>().prop_map(Some)],
    )
        .prop_map(|(null, ts, reserved, last8, key, place, decoy)| Case { null, ts, reserved, last8, key, place, decoy, foreign: if key % 23 == 0 { Some((key >> 8) as u8 % 4) } else { None } })
        .boxed()
}

fn enumerate(ctx: &Ctx) -> Box<dyn Iterator<Item = Case>> {
    let mut v = Vec::new();
    v.push(Case { null: true, ts: 0, reserved: 0, last8: Hex(vec![0; 8]), key: 0, place: Place::End, decoy: None, foreign: None });
    // other structures handed to load() by mistake
    for k in 0..4u8 {
        for key in 0..8u64 {
            v.push(Case { null: false, ts: 0, reserved: 0, last8: Hex(vec![0; 8]), key, place: Place::End, decoy: None, foreign: Some(k) });
        }
    }
    let variants = last8_variants();
    for ts in 0u32..=72 {
        for l in &variants {
            for reserved in [0u32, 0xDEAD_BEEF] {
                v.push(Case { null: false, ts, reserved, last8: Hex(l.to_vec()), key: ts as u64, place: Place::End, decoy: if reserved == 0 { None } else { Some((ts as u16).wrapping_mul(2657)) }, foreign: None });
            }
        }
    }
    let top = if ctx.tier == Tier::Thorough { 4096 } else { 1024 };
    for k in 10u32..=top / 8 {
        for d in 0u32..8 {
            let ts = 8 * k - d;
            for l in &variants[..2] {
                v.push(Case { null: false, ts, reserved: 0, last8: Hex(l.to_vec()), key: ts as u64, place: if k % 5 == 0 { Place::Start } else { Place::End }, decoy: if k % 3 == 0 { Some((ts as u16).wrapping_mul(40503)) } else { None }, foreign: None });
            }
        }
    }
    Box::new(v.into_iter())
}

// --- total sizes far beyond what a guarded mapping can hold -------------------------

#[derive(Clone, Debug, Serialize, Deserialize)]
pub struct HugeCase {
    pub ts: u32,
    pub reserved: u32,
    pub last8: Hex,
}

/// A lazily zero-filled 4 GiB mapping; only the header page and the page with
/// the last 8 bytes of the declared region are ever touched.
fn huge_mapping() -> *mut u8 {
    use std::sync::OnceLock;
    static P: OnceLock<usize> = OnceLock::new();
    *P.get_or_init(|| unsafe {
        let p = libc::mmap(std::ptr::null_mut(), (1usize << 32) + 4096, libc::PROT_READ | libc::PROT_WRITE, libc::MAP_PRIVATE | libc::MAP_ANONYMOUS | libc::MAP_NORESERVE, -1, 0);
        assert!(p != libc::MAP_FAILED, "cannot reserve 4 GiB of address space");
        p as usize
    }) as *mut u8
}

fn eval_huge(c: &HugeCase, obs: &mut Obs) -> Result<(), String> {
    if c.last8.0.len() != 8 || c.ts < 4096 {
        return Err("malformed case".into());
    }
    let p = huge_mapping();
    let ts = c.ts as usize;
    // the child gets a copy-on-write view: write there, so cases do not leak into each other
    let want = {
        if ts % 8 != 0 {
            MbiLoad::MissingPadding
        } else if c.last8.0 == mb2_model::encode::END_TAG {
            MbiLoad::Ok
        } else {
            MbiLoad::NoEndTag
        }
    };
    obs.class(format!("expect:{}", want.text()));
    obs.nontrivial(fnv(format!("{}/{}/{}", c.ts, c.reserved, hex(&c.last8.0)).as_bytes()));
    obs.sample(json!({"total_size_word": c.ts, "reserved": c.reserved, "last8": hex(&c.last8.0), "expected": want.text()}));
    let last8 = c.last8.0.clone();
    let (tsw, res) = (c.ts, c.reserved);
    let r = mb2_sandbox::run_child(|| {
        unsafe {
            let hdr = core::slice::from_raw_parts_mut(p, 8);
            put32(hdr, 0, tsw);
            put32(hdr, 4, res);
            if ts % 8 == 0 {
                core::ptr::copy_nonoverlapping(last8.as_ptr(), p.add(ts - 8), 8);
            }
        }
        load_transcript(p).render().into_bytes()
    });
    let t = match r {
        mb2_sandbox::ChildResult::Done(b) => Transcript::parse(&String::from_utf8_lossy(&b)).unwrap_or_default(),
        mb2_sandbox::ChildResult::Signal(s) => return Err(format!("load of a boot information declaring {} bytes crashed (signal {s})", c.ts)),
        _ => {
            obs.inconclusive("child did not report");
            return Ok(());
        }
    };
    let ok = match (want, t.get("load")) {
        (MbiLoad::Ok, Some(Val::Txt(s))) if s == "Ok" => t.get("mbi.total") == Some(&Val::U(c.ts as u64)) && t.get("mbi.end") == Some(&Val::U(c.ts as u64)) && t.get("mbi.start") == Some(&Val::U(0)),
        (w, Some(Val::Err(e))) => e == w.text(),
        _ => false,
    };
    if ok {
        Ok(())
    } else {
        Err(format!("total size word {:#x}: expected {}, got {}", c.ts, want.text(), t.render().replace('\n', " ")))
    }
}

fn enumerate_huge(_: &Ctx) -> Box<dyn Iterator<Item = HugeCase>> {
    let mut v = Vec::new();
    let variants = last8_variants();
    for ts in [0xFFFF_FFF8u32, 0xFFFF_FFFF, 0xFFFF_FFF9, 0xFFFF_FFF0, 0x8000_0000, 0x8000_0008, 0x7FFF_FFF8, 0x4000_0000, 0x1000_0000, 0x0100_0000, 0x0010_0008] {
        for l in &variants[..4] {
            v.push(HugeCase { ts, reserved: ts.rotate_left(7), last8: Hex(l.to_vec()) });
        }
    }
    Box::new(v.into_iter())
}

fn strategy_huge(_: &Ctx) -> BoxedStrategy<HugeCase> {
    (
        prop_oneof![3 => (0x0002_0000u32..=0x1FFF_FFFF).prop_map(|k| 8 * k), 1 => 0x0010_0000u32..=u32::MAX],
        any::<u32>(),
        prop_oneof![3 => Just(Hex(mb2_model::encode::END_TAG.to_vec())), 1 => proptest::sample::select(last8_variants()).prop_map(|a| Hex(a.to_vec()))],
    )
        .prop_map(|(ts, reserved, last8)| HugeCase { ts, reserved, last8 })
        .boxed()
}

// --- regions whose interior is a (well-formed or broken) tag chain ---------------------

#[derive(Clone, Debug, Serialize, Deserialize)]
pub struct ChainCase {
    pub region: Hex,
}

/// Acceptance depends on the header and the last 8 bytes only - whatever the
/// tags in between look like (e.g. a tag that reaches exactly to the end and
/// contains the end-tag-looking bytes in its payload).
fn eval_chain(c: &ChainCase, obs: &mut Obs) -> Result<(), String> {
    let bytes = &c.region.0;
    if bytes.len() < 8 || bytes.len() != r8(le32(bytes, 0) as usize).max(8) {
        return Err("malformed case".into());
    }
    let want = predict_mbi_load(bytes);
    let a = Aligned::new(bytes);
    let got = load_transcript(a.as_ptr());
    let w = if want == MbiLoad::Ok { Some(walk_mbi(bytes)) } else { None };
    let swallowed = w.as_ref().map_or(false, |w| w.items.last().map_or(false, |i| i.typ != 0 || i.size != 8 || i.off + 8 != bytes.len()));
    obs.class(format!("expect:{}", want.text()));
    if swallowed {
        obs.class("!end-tag-bytes-inside-another-tag");
    }
    if want != MbiLoad::Ok || swallowed {
        obs.nontrivial(fnv(bytes));
        obs.sample(json!({"region": sample_bytes(bytes), "expected": want.text(), "end_tag_bytes_inside_another_tag": swallowed}));
    }
    let ok = match (want, got.get("load")) {
        (MbiLoad::Ok, Some(Val::Txt(s))) => s == "Ok" && got.get("mbi.total") == Some(&Val::U(bytes.len() as u64)),
        (w, Some(Val::Err(e))) => e == w.text(),
        _ => false,
    };
    if ok {
        Ok(())
    } else {
        Err(format!("region {}: expected {}, got {}", hex(&bytes[..bytes.len().min(64)]), want.text(), got.render().replace('\n', " ")))
    }
}

fn enumerate_chain(ctx: &Ctx) -> Box<dyn Iterator<Item = ChainCase>> {
    // every small walk of C03 (DFS over the size words; includes tags that reach
    // exactly to the end of the region and tags that overrun it)
    Box::new(super::c03::enumerate_regions(ctx).map(|region| ChainCase { region }))
}

fn strategy_chain(_: &Ctx) -> BoxedStrategy<ChainCase> {
    crate::gen::mbi_spec(10, 2).prop_map(|s| ChainCase { region: Hex(crate::gen::build_mbi(&s)) }).boxed()
}

pub fn subs() -> Vec<Box<dyn Sub>> {
    vec![
    Box::new(LoopSub {
        name: "load-all-configs",
        profiles: Profiles::ReleaseOnly,
        rule: "BootInformation::load of 25 fixed regions inside each of the four transcript servers ({dev, release} x {default features, --no-default-features}): the small decision-table regions, other structures handed to load by mistake (Multiboot2 header, Multiboot 1 header, ELF file), well-formed structures of 4 KiB, 64 KiB - 8, 64 KiB, 64 KiB + 8, 128 KiB and 1 MiB with and without a valid end tag. Oracle: every configuration gives the decision of the statement's table. Non-trivial = every region",
        run: run_configs,
        replay: replay_configs,
    }),
    Box::new(LoopSub {
        name: "special-addresses",
        profiles: Profiles::Both,
        rule: "BootInformation::load of 7 fixed regions (valid with total sizes 16/24/64, bad end tag, total size 8 / 20 / 0) copied to addresses with a special bit pattern: multiples of 4 GiB, straddling the 2 GiB and 4 GiB marks, 1 TiB, the first mappable page, a high user-space address (mmap MAP_FIXED_NOREPLACE; addresses the kernel does not grant are skipped and counted). Oracle: the same decision table as `load`, start/end/total relative to the address. Non-trivial = every granted load",
        run: run_addr,
        replay: replay_addr,
    }),Box::new(PropSub::<ChainCase> {
        name: "load-chains",
        rule: "regions whose interior is a tag chain: every region of C03's exhaustive small-walk enumeration (incl. a last tag that reaches exactly to the end and so contains the end-tag bytes) and generated adversarial regions (tampered sizes, missing / invalid end tags, tampered total size). Oracle: the statement's decision table, which looks at the header and the last 8 bytes only. Non-trivial = load must fail, or the end-tag bytes lie inside another tag; distinct by region hash",
        profiles: Profiles::Both,
        quick: 8000,
        thorough: 300000,
        strategy: strategy_chain,
        enumerate: Some(enumerate_chain),
        enum_exhaustive: false,
        eval: eval_chain,
    }),
    Box::new(PropSub::<HugeCase> {
        name: "load-huge",
        rule: "BootInformation::load for total-size words from 1 MiB up to 2^32-1 on a lazily mapped 4 GiB region (only the header page and the page holding the last 8 bytes are touched; each case in a forked child): enumerated 2^32-8, 2^32-1, 2^32-7, 2^32-16, 2^31 (+8, -8), 2^30, 2^28, 2^24, 2^20+8 x 4 end-tag variants; generated: random multiples of 8 and random words. Oracle as `load`. Every case is non-trivial; distinct by (size word, reserved, last 8 bytes)",
        profiles: Profiles::Both,
        quick: 300,
        thorough: 20000,
        strategy: strategy_huge,
        enumerate: Some(enumerate_huge),
        enum_exhaustive: false,
        eval: eval_huge,
    }),
    Box::new(PropSub::<Case> {
        name: "load",
        rule: "BootInformation::load on a guarded mapping of max(8, r8(total size)) bytes; enumerated: null, every total-size word 0..=72 x 8 end-tag variants x 2 reserved words, every multiple of 8 up to 1024 (thorough 4096) with its 7 lower neighbours x {valid, wrong-type} end tag; generated: sizes up to 1 MiB, random reserved/last-8-bytes; a third of all cases carries an end-tag look-alike at a random interior offset. Oracle: the statement's precedence + start/end/size equalities. Non-trivial = not (valid size, valid end tag, reserved 0); distinct by (size word, reserved, last 8 bytes)",
        profiles: Profiles::Both,
        quick: 12000,
        thorough: 300000,
        strategy,
        enumerate: Some(enumerate),
        enum_exhaustive: false,
        eval,
    })]
}
