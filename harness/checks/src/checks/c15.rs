//! C15 - casting to a (user-defined) tag type never yields a view larger than
//! the tag.

use crate::runner::*;
use crate::sbx::{self, Boxed};
use mb2_model::exercise_mbi::MbiOpts;
use mb2_model::expect_mbi::cast_succeeds;
use mb2_model::transcript::Val;
use mb2_model::*;
use multiboot2::{BootInformation, TagHeader, TagType};
use multiboot2_common::{DynSizedStructure, MaybeDynSized, Tag};
use proptest::prelude::*;
use serde::{Deserialize, Serialize};
use serde_json::json;
use std::mem::size_of;

// --- the family of user-defined tag types ---------------------------------

macro_rules! sized_tag {
    ($name:ident, $n:expr, $id:expr) => {
        #[repr(C, align(8))]
        pub struct $name {
            header: TagHeader,
            extra: [u32; $n],
        }
        impl MaybeDynSized for $name {
            type Header = TagHeader;
            const BASE_SIZE: usize = size_of::<TagHeader>() + 4 * $n;
            fn dst_len(_: &TagHeader) {}
        }
        impl Tag for $name {
            type IDType = TagType;
            const ID: TagType = TagType::Custom($id);
        }
        impl Probe for $name {
            fn first_last(&self) -> (usize, usize, usize) {
                let base = self as *const Self as *const u8 as usize;
                let last = if $n == 0 { base + 4 } else { &self.extra[$n - 1] as *const u32 as usize };
                (base, last, std::mem::size_of_val(self))
            }
        }
    };
}

/// A sized type of `8 + 4 * W` bytes with the same ID as `T` - "another view of
/// the same tag", used to look a tag up twice on one loaded structure.
#[repr(C, align(8))]
pub struct SameId<T: Tag<IDType = TagType> + ?Sized, const W: usize> {
    header: TagHeader,
    extra: [u32; W],
    _t: std::marker::PhantomData<fn() -> *const T>,
}

impl<T: Tag<IDType = TagType> + ?Sized, const W: usize> MaybeDynSized for SameId<T, W> {
    type Header = TagHeader;
    const BASE_SIZE: usize = size_of::<TagHeader>() + 4 * W;
    fn dst_len(_: &TagHeader) {}
}

impl<T: Tag<IDType = TagType> + ?Sized, const W: usize> Tag for SameId<T, W> {
    type IDType = TagType;
    const ID: TagType = T::ID;
}

/// Truthful sized tag types of more than 4 GiB (never instantiated: only the
/// same-size check of `cast` sees them).
#[cfg(target_pointer_width = "64")]
#[repr(C, align(8))]
pub struct Huge<const EXTRA: usize> {
    header: TagHeader,
    blob: [u8; EXTRA],
}

#[cfg(target_pointer_width = "64")]
impl<const EXTRA: usize> MaybeDynSized for Huge<EXTRA> {
    type Header = TagHeader;
    const BASE_SIZE: usize = size_of::<TagHeader>() + EXTRA;
    fn dst_len(_: &TagHeader) {}
}

macro_rules! dst_tag {
    ($name:ident, $fixed_words:expr, $elem:ty, $id:expr) => {
        #[derive(ptr_meta::Pointee)]
        #[repr(C, align(8))]
        pub struct $name {
            header: TagHeader,
            fixed: [u32; $fixed_words],
            tail: [$elem],
        }
        impl MaybeDynSized for $name {
            type Header = TagHeader;
            const BASE_SIZE: usize = size_of::<TagHeader>() + 4 * $fixed_words;
            fn dst_len(header: &TagHeader) -> usize {
                assert!(header.size as usize >= Self::BASE_SIZE);
                (header.size as usize - Self::BASE_SIZE) / size_of::<$elem>()
            }
        }
        impl Tag for $name {
            type IDType = TagType;
            const ID: TagType = TagType::Custom($id);
        }
        impl Probe for $name {
            fn first_last(&self) -> (usize, usize, usize) {
                let base = self as *const Self as *const u8 as usize;
                let last = match self.tail.last() {
                    Some(e) => e as *const $elem as usize + size_of::<$elem>() - 1,
                    None => base + Self::BASE_SIZE - 1,
                };
                (base, last, std::mem::size_of_val(self))
            }
        }
    };
}

/// What the check needs to see of a typed view.
pub trait Probe {
    /// (address of the view, address of its last meaningful byte, size_of_val)
    fn first_last(&self) -> (usize, usize, usize);
}

/// Sized / DST types that do not embed `TagHeader` and are therefore only
/// 4-aligned (the trait does not demand more).
macro_rules! sized_tag_a4 {
    ($name:ident, $n:expr, $id:expr) => {
        #[repr(C)]
        pub struct $name {
            typ: multiboot2::TagTypeId,
            size: u32,
            extra: [u32; $n],
        }
        impl MaybeDynSized for $name {
            type Header = TagHeader;
            const BASE_SIZE: usize = 8 + 4 * $n;
            fn dst_len(_: &TagHeader) {}
        }
        impl Tag for $name {
            type IDType = TagType;
            const ID: TagType = TagType::Custom($id);
        }
        impl Probe for $name {
            fn first_last(&self) -> (usize, usize, usize) {
                let base = self as *const Self as *const u8 as usize;
                let _ = (&self.typ, &self.size);
                let last = &self.extra[$n - 1] as *const u32 as usize + 3;
                (base, last, std::mem::size_of_val(self))
            }
        }
    };
}

macro_rules! dst_tag_a4 {
    ($name:ident, $fixed_words:expr, $id:expr) => {
        #[derive(ptr_meta::Pointee)]
        #[repr(C)]
        pub struct $name {
            typ: multiboot2::TagTypeId,
            size: u32,
            fixed: [u32; $fixed_words],
            tail: [u32],
        }
        impl MaybeDynSized for $name {
            type Header = TagHeader;
            const BASE_SIZE: usize = 8 + 4 * $fixed_words;
            fn dst_len(header: &TagHeader) -> usize {
                assert!(header.size as usize >= Self::BASE_SIZE);
                (header.size as usize - Self::BASE_SIZE) / 4
            }
        }
        impl Tag for $name {
            type IDType = TagType;
            const ID: TagType = TagType::Custom($id);
        }
        impl Probe for $name {
            fn first_last(&self) -> (usize, usize, usize) {
                let base = self as *const Self as *const u8 as usize;
                let _ = (&self.typ, &self.size, &self.fixed);
                let last = match self.tail.last() {
                    Some(e) => e as *const u32 as usize + 3,
                    None => base + Self::BASE_SIZE - 1,
                };
                (base, last, std::mem::size_of_val(self))
            }
        }
    };
}

sized_tag_a4!(A1, 1, 0x1201);
sized_tag_a4!(A2, 2, 0x1202);
sized_tag_a4!(A3, 3, 0x1203);
sized_tag_a4!(A4, 4, 0x1204);
sized_tag_a4!(A5, 5, 0x1205);
dst_tag_a4!(B12, 1, 0x1211);
dst_tag_a4!(B20, 3, 0x1213);

sized_tag!(S0, 0, 0x1000);
sized_tag!(S1, 1, 0x1001);
sized_tag!(S2, 2, 0x1002);
sized_tag!(S3, 3, 0x1003);
sized_tag!(S4, 4, 0x1004);
sized_tag!(S5, 5, 0x1005);
sized_tag!(S6, 6, 0x1006);

type E3 = [u8; 3];
type E24 = [u64; 3];
// fixed part 8, 12, 16, 20, 24 bytes = 0..=4 extra words; element sizes 1,2,3,4,8,24
dst_tag!(D8x1, 0, u8, 0x1100);
dst_tag!(D12x1, 1, u8, 0x1101);
dst_tag!(D16x1, 2, u8, 0x1102);
dst_tag!(D20x1, 3, u8, 0x1103);
dst_tag!(D24x1, 4, u8, 0x1104);
dst_tag!(D8x2, 0, u16, 0x1110);
dst_tag!(D12x2, 1, u16, 0x1111);
dst_tag!(D20x2, 3, u16, 0x1113);
dst_tag!(D8x3, 0, E3, 0x1120);
dst_tag!(D12x3, 1, E3, 0x1121);
dst_tag!(D16x3, 2, E3, 0x1122);
dst_tag!(D8x4, 0, u32, 0x1130);
dst_tag!(D12x4, 1, u32, 0x1131);
dst_tag!(D20x4, 3, u32, 0x1133);
dst_tag!(D24x4, 4, u32, 0x1134);
// 8-aligned elements: the tail offset equals the fixed part only for 8/16/24
dst_tag!(D8x8, 0, u64, 0x1140);
dst_tag!(D16x8, 2, u64, 0x1142);
dst_tag!(D24x8, 4, u64, 0x1144);
dst_tag!(D8x24, 0, E24, 0x1150);
dst_tag!(D16x24, 2, E24, 0x1152);

/// (name, custom id, fixed part, element size; 0 = sized type)
pub const FAMILY: [(&str, u32, usize, usize); 34] = [
    ("S0", 0x1000, 8, 0),
    ("S1", 0x1001, 12, 0),
    ("S2", 0x1002, 16, 0),
    ("S3", 0x1003, 20, 0),
    ("S4", 0x1004, 24, 0),
    ("S5", 0x1005, 28, 0),
    ("S6", 0x1006, 32, 0),
    ("D8x1", 0x1100, 8, 1),
    ("D12x1", 0x1101, 12, 1),
    ("D16x1", 0x1102, 16, 1),
    ("D20x1", 0x1103, 20, 1),
    ("D24x1", 0x1104, 24, 1),
    ("D8x2", 0x1110, 8, 2),
    ("D12x2", 0x1111, 12, 2),
    ("D20x2", 0x1113, 20, 2),
    ("D8x3", 0x1120, 8, 3),
    ("D12x3", 0x1121, 12, 3),
    ("D16x3", 0x1122, 16, 3),
    ("D8x4", 0x1130, 8, 4),
    ("D12x4", 0x1131, 12, 4),
    ("D20x4", 0x1133, 20, 4),
    ("D24x4", 0x1134, 24, 4),
    ("D8x8", 0x1140, 8, 8),
    ("D16x8", 0x1142, 16, 8),
    ("D24x8", 0x1144, 24, 8),
    ("D8x24", 0x1150, 8, 24),
    ("D16x24", 0x1152, 16, 24),
    // 4-aligned members (index 27..): sized 12,16,20,24,28 bytes; DST with u32 tail
    ("A1", 0x1201, 12, 0),
    ("A2", 0x1202, 16, 0),
    ("A3", 0x1203, 20, 0),
    ("A4", 0x1204, 24, 0),
    ("A5", 0x1205, 28, 0),
    ("B12", 0x1211, 12, 4),
    ("B20", 0x1213, 20, 4),
];

#[derive(Debug, PartialEq, Eq, Clone, Copy)]
enum Out {
    Panic,
    NotFound,
    View { off: usize, last_off: usize, sov: usize },
}

fn probe<T: Probe + ?Sized>(r: Option<&T>, base: usize) -> Out {
    match r {
        None => Out::NotFound,
        Some(t) => {
            let (a, l, s) = t.first_last();
            Out::View { off: a.wrapping_sub(base), last_off: l.wrapping_sub(base), sov: s }
        }
    }
}

/// Views the tag at offset 8 of the boot information `region` as family member
/// `fam` through both public routes.
fn view(fam: usize, region: &Aligned, loose: &Aligned, over: &Aligned) -> (Out, Out, Out, Out, Out, Out) {
    use mb2_model::panics::catch;
    let base = region.as_ptr() as usize;
    let lbase = (loose.as_ptr() as usize).wrapping_sub(8);
    let mbi = unsafe { BootInformation::load(region.as_ptr().cast()) }.expect("case regions load");
    macro_rules! go {
        ($T:ty) => {{
            let a = catch(|| probe(mbi.get_tag::<$T>(), base)).unwrap_or(Out::Panic);
            let b = catch(|| {
                let g: &DynSizedStructure<TagHeader> = mbi.tags().next().unwrap();
                probe(Some(g.cast::<$T>()), base)
            })
            .unwrap_or(Out::Panic);
            // the tag followed by slack bytes, through the slice constructor
            let c = catch(|| {
                let g = DynSizedStructure::<TagHeader>::ref_from_slice(loose.as_slice()).expect("a slice that holds the tag and more");
                probe(Some(g.cast::<$T>()), lbase)
            })
            .unwrap_or(Out::Panic);
            // the same memory through the raw-pointer constructor (a structure it
            // refuses is no view at all: NotFound stands for "refused" here)
            let d = catch(|| match unsafe { DynSizedStructure::<TagHeader>::ref_from_ptr(core::ptr::NonNull::new(loose.as_ptr() as *mut TagHeader).unwrap()) } {
                Ok(g) => probe(Some(g.cast::<$T>()), lbase),
                Err(_) => Out::NotFound,
            })
            .unwrap_or(Out::Panic);
            // a copy of the region whose tag claims more bytes than the region has left
            // (the region still ends in an end tag, so it loads)
            let e = catch(|| {
                let obase = over.as_ptr() as usize;
                match unsafe { BootInformation::load(over.as_ptr().cast()) } {
                    Ok(m) => probe(m.get_tag::<$T>(), obase),
                    Err(_) => Out::NotFound,
                }
            })
            .unwrap_or(Out::Panic);
            // the same loaded structure asked twice for the same ID: first as another
            // view type (of 8, 16, .. 40 bytes - one of them may fit), then as $T
            let f = catch(|| {
                let m2 = unsafe { BootInformation::load(region.as_ptr().cast()) }.expect("case regions load");
                let _ = catch(|| m2.get_tag::<SameId<$T, 0>>().is_some());
                let _ = catch(|| m2.get_tag::<SameId<$T, 2>>().is_some());
                let _ = catch(|| m2.get_tag::<SameId<$T, 4>>().is_some());
                let _ = catch(|| m2.get_tag::<SameId<$T, 6>>().is_some());
                let _ = catch(|| m2.get_tag::<SameId<$T, 8>>().is_some());
                probe(m2.get_tag::<$T>(), base)
            })
            .unwrap_or(Out::Panic);
            (a, b, c, d, e, f)
        }};
    }
    match fam {
        0 => go!(S0),
        1 => go!(S1),
        2 => go!(S2),
        3 => go!(S3),
        4 => go!(S4),
        5 => go!(S5),
        6 => go!(S6),
        7 => go!(D8x1),
        8 => go!(D12x1),
        9 => go!(D16x1),
        10 => go!(D20x1),
        11 => go!(D24x1),
        12 => go!(D8x2),
        13 => go!(D12x2),
        14 => go!(D20x2),
        15 => go!(D8x3),
        16 => go!(D12x3),
        17 => go!(D16x3),
        18 => go!(D8x4),
        19 => go!(D12x4),
        20 => go!(D20x4),
        21 => go!(D24x4),
        22 => go!(D8x8),
        23 => go!(D16x8),
        24 => go!(D24x8),
        25 => go!(D8x24),
        26 => go!(D16x24),
        27 => go!(A1),
        28 => go!(A2),
        29 => go!(A3),
        30 => go!(A4),
        31 => go!(A5),
        32 => go!(B12),
        _ => go!(B20),
    }
}

#[derive(Clone, Debug, Serialize, Deserialize)]
pub struct Case {
    pub fam: usize,
    pub size: u32,
    pub key: u64,
    /// bytes behind the tag in the slice route: 0..=4 -> 8*k; 5 -> as many
    /// as make the slice as long as the viewing type's own size
    #[serde(default)]
    pub slack: u8,
    /// payload bytes: 0 markers, 1 all zero, 2 all 0xFF
    #[serde(default)]
    pub fill: u8,
}

fn fill_body(fill: u8, key: u64, n: usize) -> Vec<u8> {
    match fill % 3 {
        0 => (0..n).map(|i| marker(key, 8 + i)).collect(),
        1 => vec![0u8; n],
        _ => vec![0xFFu8; n],
    }
}

pub fn eval(c: &Case, obs: &mut Obs) -> Result<(), String> {
    let (name, id, fixed, elem) = FAMILY[c.fam % FAMILY.len()];
    let size = c.size as usize;
    if !(8..=4096).contains(&size) {
        return Err("malformed case: size out of the generated range".into());
    }
    let body: Vec<u8> = fill_body(c.fill, c.key, size - 8);
    let region = mb2_model::encode::mbi(&[mb2_model::encode::tag(id, &body)], 0, 0x5A, true);
    let a = Aligned::new(&region);
    let mut loose = mb2_model::encode::tag(id, &body);
    mb2_model::encode::pad8(&mut loose, 0x5A);
    let slack = match c.slack {
        0..=4 => 8 * c.slack as usize,
        _ => r8(fixed).saturating_sub(r8(size)),
    };
    loose.extend((0..slack).map(|i| marker(c.key ^ 0x51AC, i)));
    let la = Aligned::new(&loose);
    // (the claimed size: 8, 16 or 24 bytes more than the region has left behind the
    // tag's start - the padded tag and the end tag)
    let mut over = region.clone();
    put32(&mut over, 12, (r8(size) + 8 + 8 * (1 + c.key as usize % 3)) as u32);
    let oa = Aligned::new(&over);
    let (via_get, via_cast, via_slice, via_ptr, via_over, via_second) = view(c.fam % FAMILY.len(), &a, &la, &oa);
    let natural = if elem == 0 { r8(fixed) } else { 0 };
    let exact_fit = if elem == 0 { size == fixed } else { size >= fixed && (size - fixed) % elem == 0 };
    // a 4-aligned type whose own size is not a multiple of 8 has no tag it could
    // be a same-size view of: rejecting it is correct
    let a4 = c.fam % FAMILY.len() >= 27;
    let viewable = !a4 || (if elem == 0 { fixed % 8 == 0 } else { size % 8 == 0 });
    obs.class(format!("!{name}"));
    obs.class(if exact_fit { "exact-fit" } else { "misfit" });
    if exact_fit || (elem == 0 && r8(size) != natural) {
        obs.nontrivial(fnv(format!("{name}/{size}").as_bytes()));
        obs.sample(json!({"type": name, "fixed_part": fixed, "element_size": elem, "tag_size": size, "exact_fit": exact_fit}));
    }
    let slice_route = format!("ref_from_slice({} bytes of slack)+cast", slack);
    for (route, out) in [("get_tag", via_get), ("cast", via_cast), (slice_route.as_str(), via_slice)] {
        match out {
            Out::Panic => {
                if exact_fit && viewable {
                    return Err(format!("{name} via {route}: a tag of exactly fitting size {size} was rejected"));
                }
            }
            Out::NotFound => return Err(format!("{name} via {route}: the tag with the type's ID was not found")),
            Out::View { off, last_off, sov } => {
                if off != 8 {
                    return Err(format!("{name} via {route}: view at offset {off}, tag at 8"));
                }
                if sov != r8(size) {
                    return Err(format!("{name} via {route}: tag size {size} but the typed view has an in-memory size of {sov} (must be {})", r8(size)));
                }
                if last_off < 8 || last_off >= 8 + r8(size) {
                    return Err(format!("{name} via {route}: the view's last field byte at offset {last_off} does not alias the tag (8..{})", 8 + r8(size)));
                }
            }
        }
    }
    // the type-size dimension: a view type whose size exceeds the tag by 4 GiB (or by
    // 4 GiB + 8 ...) can only be rejected, like every type that is not the tag's size
    #[cfg(target_pointer_width = "64")]
    {
        let mbi = unsafe { BootInformation::load(a.as_ptr().cast()) }.expect("case regions load");
        let g: &DynSizedStructure<TagHeader> = mbi.tags().next().unwrap();
        let pad = r8(size) - 8;
        let views = [
            mb2_model::panics::catch(|| std::mem::size_of_val(g.cast::<Huge<{ 1 << 32 }>>())),
            mb2_model::panics::catch(|| std::mem::size_of_val(g.cast::<Huge<{ (1 << 32) + 8 }>>())),
            mb2_model::panics::catch(|| std::mem::size_of_val(g.cast::<Huge<{ (1 << 32) + 16 }>>())),
            mb2_model::panics::catch(|| std::mem::size_of_val(g.cast::<Huge<{ (2 << 32) + 8 }>>())),
        ];
        let _ = pad;
        if let Some(sov) = views.iter().flatten().next() {
            return Err(format!("a tag of size {size} is viewed as a sized type of {sov} bytes (more than 4 GiB larger than the tag) instead of being rejected"));
        }
    }
    // second lookup on the same loaded structure: exactly what the first lookup gives
    if via_second != via_get {
        return Err(format!("{name}: get_tag::<{name}>() gives {via_get:?} on a freshly loaded structure but {via_second:?} after the same structure was asked for other view types of the same ID (tag size {size})"));
    }
    // raw-pointer route: whatever it does not refuse obeys the same law
    if let Out::View { off, sov, .. } = via_ptr {
        if off != 8 || sov != r8(size) {
            return Err(format!("{name} via ref_from_ptr+cast: tag size {size}, typed view at offset {off} with an in-memory size of {sov} (must be at 8 with {})", r8(size)));
        }
    }
    // a tag that claims more than the region holds can only be rejected
    if let Out::View { off, sov, .. } = via_over {
        return Err(format!("{name} via get_tag: the tag claims {} bytes, {} more than the region has left, and is viewed as ({off},{sov}) instead of being rejected", le32(&over, 12), le32(&over, 12) as usize - r8(size) - 8));
    }
    Ok(())
}

fn enumerate(ctx: &Ctx) -> Box<dyn Iterator<Item = Case>> {
    let top = if ctx.tier == Tier::Thorough { 160 } else { 96 };
    Box::new((0..FAMILY.len()).flat_map(move |fam| (8..=top).flat_map(move |size| [0u8, 1, 5].into_iter().flat_map(move |slack| [0u8, 1].into_iter().map(move |fill| Case { fam, size, key: (fam * 1000 + size as usize) as u64, slack, fill })))))
}

fn strategy(_: &Ctx) -> BoxedStrategy<Case> {
    (0..FAMILY.len(), 8u32..=1024, any::<u64>(), 0u8..6, 0u8..3).prop_map(|(fam, size, key, slack, fill)| Case { fam, size, key, slack, fill }).boxed()
}

// --- built-in kinds ---------------------------------------------------------

#[derive(Clone, Debug, Serialize, Deserialize)]
pub struct BuiltinCase {
    pub kind: u32,
    pub size: u32,
    pub key: u64,
    /// payload bytes: 0 markers, 1 all zero, 2 all 0xFF
    #[serde(default)]
    pub fill: u8,
}

pub fn eval_builtin(c: &BuiltinCase, obs: &mut Obs) -> Result<(), String> {
    let size = c.size as usize;
    if !(8..=4096).contains(&size) || c.kind > 21 {
        return Err("malformed case".into());
    }
    let mut body: Vec<u8> = fill_body(c.fill, c.key, size - 8);
    // keep the VBE memory model defined (open finding D16 is about that byte)
    if c.kind == 7 && body.len() > 547 {
        body[547] %= 8;
    }
    // mmap: the crate only models 24-byte entries
    if c.kind == 6 && body.len() >= 4 {
        put32(&mut body, 0, 24);
    }
    let mut img = mb2_model::encode::tag(c.kind, &body);
    mb2_model::encode::pad8(&mut img, 0x5A);
    let t = match sbx::single_tag(&img, c.kind, MbiOpts { debug: false, max_steps: 600, typed_all: true }) {
        Boxed::Done(t) => t,
        Boxed::Crash(s) => return Err(format!("built-in kind {} at tag size {size}: crashed: {s}", c.kind)),
        Boxed::Inconclusive(w) => {
            obs.inconclusive(w);
            return Ok(());
        }
    };
    let ok = cast_succeeds(c.kind, size);
    obs.class(format!("!kind-{}", c.kind));
    obs.class(if ok { "fits" } else { "misfit" });
    obs.nontrivial(fnv(format!("{}/{}", c.kind, size).as_bytes()));
    obs.sample(json!({"kind": c.kind, "tag_size": size, "model_says_cast_succeeds": ok}));
    // every reference the view hands out must alias the tag (incl. its padding)
    let tag_len = r8(size);
    for (k, v) in &t.lines {
        if let Some((o, l)) = v.extent() {
            if o.checked_add(l).map_or(true, |e| e > tag_len) {
                return Err(format!("built-in kind {} at tag size {size}: {k}: reference ({o},{l}) does not alias the tag ({tag_len} bytes incl. padding)", c.kind));
            }
        }
    }
    // a view of a variable-length kind whose fixed part does not fit into the tag
    // has fields that lie outside the tag, whatever size it claims to have
    if let Some((fixed, _)) = mb2_model::expect_mbi::dst_fixed_elem(c.kind) {
        if size < fixed && matches!(t.get("t0.cast"), Some(Val::Ext(..))) {
            return Err(format!("built-in kind {} (fixed part {fixed} bytes) yields a typed view of a {size}-byte tag: its fixed fields cannot alias the tag", c.kind));
        }
    }
    // the same tag as the only tag of a boot information: whatever a typed getter of
    // the loaded structure returns is that whole tag (or nothing / an error)
    let region = mb2_model::encode::mbi(&[mb2_model::encode::tag(c.kind, &body)], 0, 0x5A, true);
    match sbx::mbi(&region, sbx::Place::End, MbiOpts { debug: false, max_steps: 600, typed_all: false }) {
        Boxed::Done(g) => {
            for (k, v) in &g.lines {
                if !k.starts_with("g.") || k == "g.end" || k.matches('.').count() != 1 {
                    continue;
                }
                if let Val::Ext(o, l) = v {
                    if (*o, *l) != (8, r8(size)) {
                        return Err(format!("built-in kind {} at tag size {size} as the only tag of a boot information: getter `{k}` returns a view ({o},{l}), the tag is (8,{})", c.kind, r8(size)));
                    }
                }
            }
        }
        Boxed::Crash(s) => return Err(format!("built-in kind {} at tag size {size} inside a boot information: crashed: {s}", c.kind)),
        Boxed::Inconclusive(w) => {
            obs.inconclusive(w);
            return Ok(());
        }
    }
    match t.get("t0.cast") {
        Some(Val::Panic) if !ok => Ok(()),
        Some(Val::Ext(0, l)) if *l == r8(size) => {
            if ok {
                Ok(())
            } else {
                // a same-size view of a tag the model would reject is allowed by
                // the statement (it is not larger than the tag)
                Ok(())
            }
        }
        Some(Val::Panic) => Err(format!("built-in kind {} rejects a tag of fitting size {size}", c.kind)),
        other => Err(format!("built-in kind {} at tag size {size}: typed view {:?}, must be a panic or (0,{})", c.kind, other.map(|v| v.render()), r8(size))),
    }
}

fn enumerate_builtin(ctx: &Ctx) -> Box<dyn Iterator<Item = BuiltinCase>> {
    let top = if ctx.tier == Tier::Thorough { 160 } else { 96 };
    let it = (0..=21u32).flat_map(move |kind| {
        let sizes: Vec<u32> = if kind == 7 { (8..=top).chain(760..=808).collect() } else { (8..=top).collect() };
        sizes.into_iter().flat_map(move |size| [0u8, 1].into_iter().map(move |fill| BuiltinCase { kind, size, key: (kind * 1000 + size) as u64, fill }))
    });
    Box::new(it)
}

fn strategy_builtin(_: &Ctx) -> BoxedStrategy<BuiltinCase> {
    (0u32..=21, 8u32..=1024, any::<u64>(), 0u8..3).prop_map(|(kind, size, key, fill)| BuiltinCase { kind, size, key, fill }).boxed()
}

pub fn subs() -> Vec<Box<dyn Sub>> {
    vec![
        Box::new(PropSub::<Case> {
            name: "custom-family",
            rule: "34 harness-defined tag types with truthful BASE_SIZE/dst_len (8-aligned: sized with 0..=6 extra words; DST tails with element sizes 1,2,3,4,8,24 behind fixed parts of 8..=24 bytes, alignment-compatible combinations; 4-aligned types that do not embed TagHeader: sized 12..=28 bytes, DST with u32 tail) with custom IDs, viewed through BootInformation::get_tag, DynSizedStructure::cast on the iterated tag, ref_from_slice over the tag followed by slack bytes (0, 8, .., 32, or exactly enough to make the slice as long as the viewing type) + cast, ref_from_ptr on the same memory + cast, get_tag on a copy of the region whose tag claims 8..24 bytes more than the region has left, and get_tag after the same loaded structure was asked for five other view types of the same ID (the answer must not depend on earlier lookups). Enumerated completely: every type x every tag size 8..=96 (thorough 160) x slack {0, 8, up-to-type-size} x payload {markers, all zero}; generated: sizes up to 1024. Oracle: panic, or a view at the tag's address with size_of_val == r8(tag size) whose last field byte aliases the tag; an exactly fitting size must be accepted. Non-trivial = exact fit, or a sized type at a non-matching size; distinct by (type, size)",
            profiles: Profiles::Both,
            quick: 20000,
            thorough: 300000,
            strategy,
            enumerate: Some(enumerate),
            enum_exhaustive: false,
            eval,
        }),
        Box::new(PropSub::<BuiltinCase> {
            name: "builtin-kinds",
            rule: "all 22 built-in kinds as stand-alone tags (payload markers / all zero / all 0xFF) at a PROT_NONE page, and as the only tag of a boot information queried through every typed getter: every tag size 8..=96 (thorough 160; VBE also 760..=808) x {markers, zero}, generated sizes up to 1024. Oracle: the typed view is a panic or spans exactly (0, r8(size)); sizes the model accepts must be accepted; whatever any getter of the loaded boot information returns is the whole tag (8, r8(size)), nothing or an error - never a view of another extent. Every case is non-trivial; distinct by (kind, size)",
            profiles: Profiles::Both,
            quick: 5000,
            thorough: 100000,
            strategy: strategy_builtin,
            enumerate: Some(enumerate_builtin),
            enum_exhaustive: false,
            eval: eval_builtin,
        }),
    ]
}
