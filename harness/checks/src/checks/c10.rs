//! C10 - header loading accepts exactly magic- and checksum-valid headers;
//! the checksum law.

use crate::runner::*;
use crate::sbx::{self, Boxed, Place};
use mb2_model::transcript::{Rec, Transcript, Val};
use mb2_model::walk::*;
use mb2_model::*;
use multiboot2_header::{HeaderTagISA, Multiboot2Header};
use proptest::prelude::*;
use serde::{Deserialize, Serialize};
use serde_json::{json, Value};

#[derive(Clone, Debug, Serialize, Deserialize)]
pub struct Case {
    pub null: bool,
    pub magic: u32,
    pub arch: u32,
    pub len: u32,
    /// checksum = the correct one + delta
    pub sum_delta: u32,
    pub key: u64,
    pub place: Place,
    /// the checksum word is the magic constant itself (sum_delta is ignored)
    #[serde(default)]
    pub sum_is_magic: bool,
}

pub const MAX_LEN: u32 = 1 << 20;

fn region(c: &Case) -> Vec<u8> {
    let n = r8(c.len as usize).max(16);
    let mut v: Vec<u8> = (0..n).map(|i| marker(c.key, i)).collect();
    put32(&mut v, 0, c.magic);
    put32(&mut v, 4, c.arch);
    put32(&mut v, 8, c.len);
    put32(&mut v, 12, if c.sum_is_magic { HDR_MAGIC } else { model_checksum(c.magic, c.arch, c.len).wrapping_add(c.sum_delta) });
    // the tag area is opaque to load(): every other region gets words that mean
    // something elsewhere (the magic again, an end tag, all-ones) in its first
    // and/or last tag slot
    let pats = &mb2_model::encode::PATTERNS;
    if c.key & 1 == 1 && n >= 24 {
        v[16..24].copy_from_slice(&pats[(c.key >> 4) as usize % pats.len()]);
    }
    if c.key & 2 == 2 && n >= 32 {
        v[n - 8..n].copy_from_slice(&pats[(c.key >> 8) as usize % pats.len()]);
    }
    v
}

fn load_transcript(ptr: *const u8) -> Transcript {
    let mut rec = Rec::new(ptr as usize);
    match mb2_model::panics::catch(|| unsafe { Multiboot2Header::load(ptr.cast()) }) {
        None => rec.t.push("load", Val::Panic),
        Some(Err(e)) => rec.t.push("load", Val::Err(format!("{e:?}"))),
        Some(Ok(h)) => {
            rec.t.push("load", Val::Txt("Ok".into()));
            rec.call("h.length".into(), || Val::U(h.length() as u64));
            rec.call("h.verify".into(), || Val::B(h.verify_checksum()));
        }
    }
    rec.t
}

pub fn eval(c: &Case, obs: &mut Obs) -> Result<(), String> {
    if c.arch != 0 && c.arch != 4 {
        return Err("malformed case: undefined architecture value".into());
    }
    if c.null {
        obs.class("null");
        obs.nontrivial(1);
        obs.sample(json!({"ptr": "null"}));
        let t = load_transcript(std::ptr::null());
        return match t.get("load") {
            Some(Val::Err(e)) if e == "Memory(Null)" => Ok(()),
            o => Err(format!("load(null) must report Memory(Null), got {o:?}")),
        };
    }
    let bytes = region(c);
    let want = predict_hdr_load(&bytes);
    obs.class(format!("expect:{}", want.text()));
    if want != HdrLoad::Ok || c.len != 16 {
        obs.nontrivial(fnv(&bytes[..16]));
        obs.sample(json!({"magic": format!("{:#x}", c.magic), "arch": c.arch, "length": c.len, "checksum_delta": c.sum_delta, "expected": want.text()}));
    }
    let got = match sbx::with_guarded(&bytes, 16, c.place, |p, _| load_transcript(p)) {
        Boxed::Done(t) => t,
        Boxed::Crash(s) => return Err(format!("load crashed the process: {s} (length word {})", c.len)),
        Boxed::Inconclusive(w) => {
            obs.inconclusive(w);
            return Ok(());
        }
    };
    judge(c, want, &got)
}

fn judge(c: &Case, want: HdrLoad, got: &Transcript) -> Result<(), String> {
    let ok = match (want, got.get("load")) {
        (HdrLoad::Ok, Some(Val::Txt(s))) if s == "Ok" => got.get("h.length") == Some(&Val::U(c.len as u64)) && got.get("h.verify") == Some(&Val::B(true)),
        (w, Some(Val::Err(e))) => e == w.text(),
        _ => false,
    };
    if ok {
        Ok(())
    } else {
        Err(format!("magic {:#x} arch {} length {} checksum delta {}: expected {}, got {}", c.magic, c.arch, c.len, c.sum_delta, want.text(), got.render().replace('\n', " ")))
    }
}

// --- headers one after the other at the same address ------------------------------

#[derive(Clone, Debug, Serialize, Deserialize)]
pub struct SeqCase {
    /// complete header images (16 header bytes + tag area), each a multiple of 8 long
    pub steps: Vec<Hex>,
}

/// The images are written one after the other to the same address and loaded
/// in one process (a forked child): every decision must be the one of the
/// table for that image alone, whatever was loaded there before.
fn eval_seq(c: &SeqCase, obs: &mut Obs) -> Result<(), String> {
    if c.steps.iter().any(|s| s.0.len() < 16 || s.0.len() % 8 != 0 || s.0.len() > 4096) {
        return Err("malformed case".into());
    }
    let r = mb2_sandbox::run_child(|| {
        let mut buf = Aligned::new(&vec![0u8; 4096]);
        for (i, img) in c.steps.iter().enumerate() {
            let mut all = vec![0xEEu8; 4096];
            all[..img.0.len()].copy_from_slice(&img.0);
            buf.overwrite(&all);
            let t = load_transcript(buf.as_ptr());
            let want = predict_hdr_load(&img.0);
            let ok = match (want, t.get("load")) {
                (HdrLoad::Ok, Some(Val::Txt(s))) if s == "Ok" => t.get("h.length") == Some(&Val::U(le32(&img.0, 8) as u64)) && t.get("h.verify") == Some(&Val::B(true)),
                (w, Some(Val::Err(e))) => e == w.text(),
                _ => false,
            };
            if !ok {
                return format!("E header {} of {} at the same address ({}): expected {}, got {}", i + 1, c.steps.len(), hex(&img.0[..16]), want.text(), t.render().replace('\n', " ")).into_bytes();
            }
        }
        b"OK".to_vec()
    });
    match r {
        mb2_sandbox::ChildResult::Done(b) if b == b"OK" => {}
        mb2_sandbox::ChildResult::Done(b) => return Err(String::from_utf8_lossy(&b[2.min(b.len())..]).into_owned()),
        mb2_sandbox::ChildResult::Signal(sig) => return Err(format!("loading {} headers one after the other at the same address crashed the process (signal {sig})", c.steps.len())),
        _ => {
            obs.inconclusive("child did not report");
            return Ok(());
        }
    }
    let verdicts: Vec<bool> = c.steps.iter().map(|s| predict_hdr_load(&s.0) == HdrLoad::Ok).collect();
    let mixed = verdicts.iter().any(|x| *x) && verdicts.iter().any(|x| !*x);
    obs.class(if mixed { "!accepted-and-rejected" } else { "uniform" });
    if mixed {
        obs.nontrivial(fnv(format!("{:?}", c.steps).as_bytes()));
        obs.sample(json!({"headers": c.steps.iter().map(|s| hex(&s.0[..16])).collect::<Vec<_>>()}));
    }
    Ok(())
}

fn strategy_seq(_: &Ctx) -> BoxedStrategy<SeqCase> {
    // a valid header and 1..=3 twins of it: the same bit flipped in one, two or three
    // of its four words (so that sums and xors over the words can stay the same),
    // a word replaced, or the valid header again
    let twin = (0u8..6, 0u32..32, 0usize..4, 0usize..4, any::<u32>());
    (prop_oneof![Just(0u32), Just(4u32)], (2u32..=8).prop_map(|k| 8 * k), any::<u64>(), proptest::collection::vec(twin, 1..=3), any::<bool>())
        .prop_map(|(arch, len, key, twins, valid_first)| {
            let mut base: Vec<u8> = (0..len as usize).map(|i| marker(key, i)).collect();
            put32(&mut base, 0, HDR_MAGIC);
            put32(&mut base, 4, arch);
            put32(&mut base, 8, len);
            put32(&mut base, 12, model_checksum(HDR_MAGIC, arch, len));
            let mut steps = vec![Hex(base.clone())];
            for (kind, bit, i, j, r) in twins {
                let mut t = base.clone();
                let flip = |t: &mut Vec<u8>, w: usize, m: u32| {
                    let v = le32(t, 4 * w) ^ m;
                    put32(t, 4 * w, v);
                };
                match kind {
                    0 => flip(&mut t, i, 1 << bit),
                    1 | 2 => {
                        flip(&mut t, i, 1 << bit);
                        flip(&mut t, if i == j { (j + 1) % 4 } else { j }, 1 << bit);
                    }
                    3 => {
                        for w in 0..4 {
                            if w != i {
                                flip(&mut t, w, 1 << bit);
                            }
                        }
                    }
                    4 => put32(&mut t, 4 * i, r),
                    _ => {}
                }
                // keep the image as long as its length word asks for (up to 4 KiB)
                let l = le32(&t, 8) as usize;
                if l % 8 == 0 && (16..=4096).contains(&l) {
                    t.resize(l, 0x5A);
                }
                steps.push(Hex(t));
            }
            if !valid_first {
                steps.swap(0, 1);
            }
            SeqCase { steps }
        })
        .boxed()
}

// --- the same decisions wherever the header lives ------------------------------

fn addr_cases() -> Vec<Case> {
    let mut v = Vec::new();
    for (i, (magic, len, sum_delta)) in [(HDR_MAGIC, 24u32, 0u32), (HDR_MAGIC, 16, 0), (HDR_MAGIC, 40, 0), (HDR_MAGIC, 24, 1), (HDR_MAGIC ^ 1, 24, 0), (HDR_MAGIC, 0, 0)].into_iter().enumerate() {
        for arch in [0u32, 4] {
            v.push(Case { null: false, magic, arch, len, sum_delta, key: 0xADD0 + 2 * i as u64, place: Place::End, sum_is_magic: false });
        }
    }
    v
}

fn run_addr(ctx: &Ctx, rep: &mut SubReport) {
    if ctx.worker != 0 {
        return;
    }
    let mut granted = 0;
    for addr in sbx::SPECIAL_ADDRS {
        for c in addr_cases() {
            let bytes = region(&c);
            let want = predict_hdr_load(&bytes);
            match sbx::at_address(addr, &bytes, |p, _| load_transcript(p)) {
                None => continue,
                Some(Boxed::Inconclusive(w)) => rep.inconclusive.push(w),
                Some(Boxed::Crash(s)) => {
                    rep.violations.push(Violation { sub: "special-addresses".into(), profile: profile_name().into(), message: format!("header at address {addr:#x}: load crashed the process: {s}"), case: json!({"addr": addr, "case": c}) });
                    return;
                }
                Some(Boxed::Done(t)) => {
                    granted += 1;
                    rep.evaluations += 1;
                    rep.nontrivial.insert(addr as u64 ^ fnv(&bytes[..16]));
                    if let Err(m) = judge(&c, want, &t) {
                        rep.violations.push(Violation { sub: "special-addresses".into(), profile: profile_name().into(), message: format!("header at address {addr:#x}: {m}"), case: json!({"addr": addr, "case": c}) });
                        return;
                    }
                }
            }
        }
    }
    rep.notes.push(format!("{granted} loads at special addresses (of {} address x case combinations; the rest could not be mapped)", sbx::SPECIAL_ADDRS.len() * addr_cases().len()));
    rep.samples.push(json!({"addr": "0x100000000", "expect": "same decision as anywhere else"}));
}

fn replay_addr(v: &Value) -> Result<(), String> {
    let addr = v["addr"].as_u64().unwrap_or(0) as usize;
    let c: Case = serde_json::from_value(v["case"].clone()).map_err(|e| e.to_string())?;
    let bytes = region(&c);
    match sbx::at_address(addr, &bytes, |p, _| load_transcript(p)) {
        None => Err("INCONCLUSIVE: the address could not be mapped".into()),
        Some(Boxed::Inconclusive(w)) => Err(format!("INCONCLUSIVE: {w}")),
        Some(Boxed::Crash(s)) => Err(format!("crashed: {s}")),
        Some(Boxed::Done(t)) => judge(&c, predict_hdr_load(&bytes), &t),
    }
}

fn magics() -> Vec<u32> {
    let mut v = vec![HDR_MAGIC, HDR_MAGIC.swap_bytes(), 0, MBI_MAGIC, 0x1BAD_B002];
    for b in [0, 1, 7, 15, 16, 31] {
        v.push(HDR_MAGIC ^ (1 << b));
    }
    v
}

fn enumerate(ctx: &Ctx) -> Box<dyn Iterator<Item = Case>> {
    let mut v = vec![Case { null: true, magic: 0, arch: 0, len: 0, sum_delta: 0, key: 0, place: Place::End, sum_is_magic: false }];
    let top = if ctx.tier == Tier::Thorough { 256 } else { 80 };
    for len in 0..=top {
        for arch in [0u32, 4] {
            for (mi, magic) in magics().into_iter().enumerate() {
                if mi >= 2 && len % 8 != 0 && len > 24 {
                    continue;
                }
                for sum_delta in [0u32, 1, u32::MAX] {
                    v.push(Case { null: false, magic, arch, len, sum_delta, key: len as u64, place: if len % 40 == 0 { Place::Start } else { Place::End }, sum_is_magic: false });
                    if sum_delta == 1 {
                        v.push(Case { null: false, magic, arch, len, sum_delta, key: len as u64, place: Place::End, sum_is_magic: true });
                    }
                }
            }
        }
    }
    Box::new(v.into_iter())
}

fn strategy(_: &Ctx) -> BoxedStrategy<Case> {
    (
        prop_oneof![300 => Just(false), 1 => Just(true)],
        prop_oneof![6 => Just(HDR_MAGIC), 2 => proptest::sample::select(magics()), 1 => any::<u32>()],
        prop_oneof![Just(0u32), Just(4u32)],
        prop_oneof![3 => 0u32..=96, 3 => (2u32..=(MAX_LEN / 8)).prop_map(|k| 8 * k), 2 => 0u32..=MAX_LEN],
        prop_oneof![5 => Just(0u32), 1 => Just(1u32), 1 => Just(u32::MAX), 1 => any::<u32>()],
        any::<u64>(),
        prop_oneof![4 => Just(Place::End), 1 => Just(Place::Start)],
        prop_oneof![9 => Just(false), 1 => Just(true)],
    )
        .prop_map(|(null, magic, arch, len, sum_delta, key, place, sum_is_magic)| Case { null, magic, arch, len, sum_delta, key, place, sum_is_magic })
        .boxed()
}

// --- the checksum law ----------------------------------------------------------

fn law(magic: u32, arch: u32, len: u32) -> Result<(), String> {
    let isa = if arch == 0 { HeaderTagISA::I386 } else { HeaderTagISA::MIPS32 };
    let c = Multiboot2Header::calc_checksum(magic, isa, len);
    let s = magic.wrapping_add(arch).wrapping_add(len).wrapping_add(c);
    if !(s == 0 && c == model_checksum(magic, arch, len)) {
        return Err(format!("calc_checksum({magic:#x}, arch {arch}, {len}) = {c:#x}: magic+arch+length+checksum = {s:#x} (mod 2^32), must be 0"));
    }
    // the same congruence decides verification: a 16-byte basic header carrying
    // that checksum verifies, one that is off by one does not
    let mut words = [0u64; 2];
    for (delta, want) in [(0u32, true), (1, false), (u32::MAX, false)] {
        let b = unsafe { core::slice::from_raw_parts_mut(words.as_mut_ptr() as *mut u8, 16) };
        put32(b, 0, magic);
        put32(b, 4, arch);
        put32(b, 8, len);
        put32(b, 12, c.wrapping_add(delta));
        let h = unsafe { &*(words.as_ptr() as *const multiboot2_header::Multiboot2BasicHeader) };
        if h.verify_checksum() != want || h.length() != len || h.header_magic() != magic || h.checksum() != c.wrapping_add(delta) {
            return Err(format!("header (magic {magic:#x}, arch {arch}, length {len}, checksum {:#x}): verify_checksum() = {}, the congruence says {want}", c.wrapping_add(delta), h.verify_checksum()));
        }
    }
    Ok(())
}

// --- load() with lengths far beyond what a guarded mapping can hold ----------------

#[derive(Clone, Debug, Serialize, Deserialize)]
pub struct HugeCase {
    pub arch: u32,
    pub len: u32,
    pub sum_delta: u32,
    /// the first word, when it is not the Multiboot2 header magic (another
    /// structure handed to load() by mistake, e.g. a Multiboot 1 header whose
    /// third word - its checksum - is then read as a length of gigabytes)
    #[serde(default)]
    pub magic: Option<u32>,
}

/// A lazily zero-filled 4 GiB mapping (never touched beyond its first page).
fn huge_mapping() -> *mut u8 {
    use std::sync::OnceLock;
    static P: OnceLock<usize> = OnceLock::new();
    *P.get_or_init(|| unsafe {
        let p = libc::mmap(std::ptr::null_mut(), (1usize << 32) + 4096, libc::PROT_READ | libc::PROT_WRITE, libc::MAP_PRIVATE | libc::MAP_ANONYMOUS | libc::MAP_NORESERVE, -1, 0);
        assert!(p != libc::MAP_FAILED, "cannot reserve 4 GiB of address space");
        p as usize
    }) as *mut u8
}

fn eval_huge(c: &HugeCase, obs: &mut Obs) -> Result<(), String> {
    if (c.len as usize > 1 << 30 && c.magic.is_none()) || (c.arch != 0 && c.arch != 4) {
        return Err("malformed case".into());
    }
    let p = huge_mapping();
    let hdr = unsafe { core::slice::from_raw_parts_mut(p, 16) };
    put32(hdr, 0, c.magic.unwrap_or(HDR_MAGIC));
    put32(hdr, 4, c.arch);
    put32(hdr, 8, c.len);
    put32(hdr, 12, model_checksum(c.magic.unwrap_or(HDR_MAGIC), c.arch, c.len).wrapping_add(c.sum_delta));
    let want = predict_hdr_load(hdr);
    obs.class(format!("expect:{}", want.text()));
    obs.nontrivial(fnv(hdr));
    obs.sample(json!({"arch": c.arch, "length": c.len, "checksum_delta": c.sum_delta, "expected": want.text()}));
    let t = match mb2_sandbox::run_child(|| load_transcript(p).render().into_bytes()) {
        mb2_sandbox::ChildResult::Done(b) => Transcript::parse(&String::from_utf8_lossy(&b)).unwrap_or_default(),
        mb2_sandbox::ChildResult::Signal(s) => return Err(format!("load of a header declaring {} bytes crashed (signal {s})", c.len)),
        _ => {
            obs.inconclusive("child did not report");
            return Ok(());
        }
    };
    let ok = match (want, t.get("load")) {
        (HdrLoad::Ok, Some(Val::Txt(s))) if s == "Ok" => t.get("h.verify") == Some(&Val::B(true)),
        (w, Some(Val::Err(e))) => e == w.text(),
        _ => false,
    };
    if ok {
        Ok(())
    } else {
        Err(format!("arch {} length {:#x} checksum delta {}: expected {}, got {}", c.arch, c.len, c.sum_delta, want.text(), t.render().replace('\n', " ")))
    }
}

fn enumerate_huge(_: &Ctx) -> Box<dyn Iterator<Item = HugeCase>> {
    let mut v = Vec::new();
    // around the length at which magic + arch + length first exceeds 2^32
    let wrap = 0u32.wrapping_sub(HDR_MAGIC);
    for base in [wrap - 64, wrap - 8, wrap, wrap + 8, 0x2000_0000, 0x3000_0008, 0x3FFF_FFF8, 0x4000_0000, 0x0100_0000] {
        for d in [0u32, 1, 4, 8] {
            for arch in [0u32, 4] {
                for sum_delta in [0u32, 1] {
                    let len = base.wrapping_add(d);
                    if len as usize <= 1 << 30 {
                        v.push(HugeCase { arch, len, sum_delta, magic: None });
                    }
                }
            }
        }
    }
    // a genuine Multiboot 1 header (magic, flags, checksum with sum 0) and other
    // first words, with the third word as it would be there
    for arch in [0u32, 4] {
        let mb1 = 0x1BAD_B002u32;
        for (magic, len) in [(mb1, 0u32.wrapping_sub(mb1.wrapping_add(arch))), (mb1, 0u32.wrapping_sub(mb1.wrapping_add(arch)).wrapping_add(8)), (MBI_MAGIC, 24), (24, 0), (0x464C_457F, 0x0001_0102)] {
            for sum_delta in [0u32, 1] {
                v.push(HugeCase { arch, len, sum_delta, magic: Some(magic) });
            }
        }
    }
    Box::new(v.into_iter())
}

fn strategy_huge(_: &Ctx) -> BoxedStrategy<HugeCase> {
    (prop_oneof![Just(0u32), Just(4u32)], (0x0010_0000u32..=0x0800_0000).prop_map(|k| 8 * k), prop_oneof![4 => Just(0u32), 1 => any::<u32>()])
        .prop_map(|(arch, len, sum_delta)| HugeCase { arch, len, sum_delta, magic: None })
        .boxed()
}

const LAW_MAGICS: [u32; 4] = [HDR_MAGIC, 0, 0xFFFF_FFFF, 0x1BAD_B002];

fn run_law(ctx: &Ctx, rep: &mut SubReport) {
    let full = ctx.tier == Tier::Thorough && profile_name() == "release";
    let mut fail = |rep: &mut SubReport, m: u32, a: u32, l: u32, msg: String| {
        rep.violations.push(Violation { sub: "checksum-law".into(), profile: profile_name().into(), message: msg, case: json!({"magic": m, "arch": a, "len": l}) });
    };
    // the catch keeps an arithmetic-overflow panic (dev) a violation, not a harness crash
    if full {
        let n = 1u64 << 32;
        let lo = n * ctx.worker as u64 / ctx.workers as u64;
        let hi = n * (ctx.worker as u64 + 1) / ctx.workers as u64;
        for magic in LAW_MAGICS {
            for arch in [0u32, 4] {
                for l in lo..hi {
                    if let Err(m) = law(magic, arch, l as u32) {
                        fail(rep, magic, arch, l as u32, m);
                        return;
                    }
                }
                rep.evaluations += hi - lo;
            }
        }
        for l in lo..(lo + (1 << 15)).min(hi) {
            rep.nontrivial.insert(l);
        }
        rep.exhaustive = true;
        rep.notes.push("all 2^32 lengths x 2 architectures x 4 magics enumerated (release); distinct set records a 2^15 prefix per worker".into());
    } else {
        let mut ls: Vec<u32> = (0..(1u32 << 16)).filter(|x| ctx.mine(*x as u64)).collect();
        for k in 0..32 {
            for d in 0..=16u32 {
                ls.push((1u32 << k).wrapping_sub(d));
                ls.push((1u32 << k).wrapping_add(d));
                ls.push(u32::MAX - d);
            }
        }
        for magic in LAW_MAGICS {
            ls.push(0u32.wrapping_sub(magic));
            ls.push(0u32.wrapping_sub(magic).wrapping_sub(4));
            ls.push(0u32.wrapping_sub(magic).wrapping_add(1));
        }
        let mut s = ctx.seed.wrapping_mul(0x9E3779B97F4A7C15) ^ (ctx.worker as u64 + 77);
        for _ in 0..(1 << 16) {
            s ^= s << 13;
            s ^= s >> 7;
            s ^= s << 17;
            ls.push(s as u32);
        }
        for l in ls {
            for magic in LAW_MAGICS {
                for arch in [0u32, 4] {
                    let r = mb2_model::panics::catch(|| law(magic, arch, l)).unwrap_or_else(|| Err(format!("calc_checksum({magic:#x}, arch {arch}, {l}) panicked")));
                    if let Err(m) = r {
                        fail(rep, magic, arch, l, m);
                        return;
                    }
                    rep.evaluations += 1;
                }
            }
            rep.nontrivial.insert(l as u64);
        }
    }
    rep.samples.push(json!({"magic": "0xe85250d6", "arch": 4, "length": 4294967295u64}));
    rep.samples.push(json!({"magic": "0xe85250d6", "arch": 0, "length": 397258538}));
}

fn replay_law(v: &Value) -> Result<(), String> {
    let (m, a, l) = (v["magic"].as_u64().unwrap_or(0) as u32, v["arch"].as_u64().unwrap_or(0) as u32, v["len"].as_u64().unwrap_or(0) as u32);
    mb2_model::panics::catch(|| law(m, a, l)).unwrap_or_else(|| Err("calc_checksum panicked".into()))
}

pub fn subs() -> Vec<Box<dyn Sub>> {
    vec![
        Box::new(PropSub::<Case> {
            name: "load",
            rule: "Multiboot2Header::load on a guarded mapping of max(16, r8(length)) bytes with a defined architecture; the tag area holds markers, in every other region with words that mean something elsewhere (the magic again, an end tag, all-ones, signatures) in its first and/or last slot. Enumerated: null; every length 0..=80 (thorough 256) x both architectures x 11 magics (correct, byte-swapped, 0, other magics, 6 single-bit flips) x checksum {correct, +1, -1, the magic constant itself}; generated: lengths up to 1 MiB, random magics/checksum deltas. Oracle: Null > ShorterThanHeader (<16) > MissingPadding (%8) > MagicNotFound > ChecksumMismatch > Ok, never a panic. Non-trivial = anything but the plain valid 16-byte header; distinct by the four header words",
            profiles: Profiles::Both,
            quick: 4000,
            thorough: 100000,
            strategy,
            enumerate: Some(enumerate),
            enum_exhaustive: false,
            eval,
        }),
        Box::new(PropSub::<HugeCase> {
            name: "load-huge",
            rule: "Multiboot2Header::load for headers that declare 8 MiB .. 1 GiB (lazily mapped, only the header page is ever touched), both architectures, valid / off-by-one / random checksum: enumerated around the length at which magic+arch+length exceeds 2^32 (0x17adaf2a) and at 2^24, 2^29, 2^30; generated: multiples of 8 in between. Oracle: the statement's decision table. Every case is non-trivial; distinct by the header words",
            profiles: Profiles::Both,
            quick: 400,
            thorough: 20000,
            strategy: strategy_huge,
            enumerate: Some(enumerate_huge),
            enum_exhaustive: false,
            eval: eval_huge,
        }),
        Box::new(PropSub::<SeqCase> {
            name: "load-sequences",
            rule: "2..=4 header images written one after the other to the same address and loaded in one process: a valid header and twins of it - the same bit flipped in one, two or three of its four words (sums and xors over the words stay the same), one word replaced, or the valid header again. Oracle: every decision is the decision table's for that image alone. Non-trivial = a sequence with an accepted and a rejected header; distinct by the sequence",
            profiles: Profiles::Both,
            quick: 40000,
            thorough: 2000000,
            strategy: strategy_seq,
            enumerate: None,
            enum_exhaustive: false,
            eval: eval_seq,
        }),
        Box::new(LoopSub {
            name: "special-addresses",
            profiles: Profiles::Both,
            rule: "Multiboot2Header::load of 12 fixed headers (valid with lengths 16/24/40, wrong checksum, wrong magic, length 0; both architectures) copied to addresses with a special bit pattern: multiples of 4 GiB, straddling the 2 GiB and 4 GiB marks, 1 TiB, the first mappable page, a high user-space address (mmap MAP_FIXED_NOREPLACE; addresses the kernel does not grant are skipped and counted). Oracle: the same decision table as `load`. Non-trivial = every granted load",
            run: run_addr,
            replay: replay_addr,
        }),
        Box::new(LoopSub {
            name: "checksum-law",
            profiles: Profiles::Both,
            rule: "calc_checksum(m, arch, len) + m + arch + len == 0 (mod 2^32) and equals the model's checksum, and a 16-byte basic header with that checksum verifies while checksum +-1 does not, for both architectures and 4 magics. Thorough/release: every length < 2^32 (exhaustive); otherwise every length < 2^16, every 2^k +- 0..=16, 2^32-1-d, the wrap-around lengths, 2^16 seeded samples. Distinct by length",
            run: run_law,
            replay: replay_law,
        }),
    ]
}
