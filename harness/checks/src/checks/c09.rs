//! C09 - header parsing never reads outside the declared header.

use crate::gen;
use crate::runner::*;
use crate::sbx::{self, Boxed, Place};
use mb2_model::exercise_hdr::HdrOpts;
use mb2_model::expect_hdr::sanitize_hdr_enums;
use mb2_model::transcript::Val;
use mb2_model::*;
use proptest::prelude::*;
use serde::{Deserialize, Serialize};
use serde_json::json;

#[derive(Clone, Debug, Serialize, Deserialize)]
pub struct Case {
    pub region: Hex,
    pub place: Place,
    /// enumerated fields rewritten to defined values by the generator
    #[serde(default)]
    pub sanitized: u32,
}

pub fn eval(c: &Case, obs: &mut Obs) -> Result<(), String> {
    let bytes = &c.region.0;
    if bytes.len() < 16 || bytes.len() != r8(le32(bytes, 8) as usize).max(16) {
        return Err("malformed case: region length must be max(16, r8(length))".into());
    }
    {
        // the statement quantifies over defined enumerated fields only
        let mut copy = bytes.clone();
        if sanitize_hdr_enums(&mut copy) != 0 {
            return Err("malformed case: an enumerated field holds an undefined value".into());
        }
    }
    let len = le32(bytes, 8) as usize;
    let t = match sbx::hdr(bytes, c.place, HdrOpts { debug: true, max_steps: bytes.len() / 8 + 4 }) {
        Boxed::Done(t) => t,
        Boxed::Crash(s) => return Err(format!("the process crashed while loading/using the header: {s}")),
        Boxed::Inconclusive(w) => {
            obs.inconclusive(w);
            return Ok(());
        }
    };
    let st = super::c01::validate_from(&t, len, 16)?;
    // "a malformed length ... leads to an error or a controlled panic"
    if (len < 16 || len % 8 != 0) && st.loaded {
        return Err(format!("load() accepted a header that declares the malformed length {len}"));
    }
    obs.class(if st.loaded { "loads" } else { "load-fails" });
    let getter_hit = t.lines.iter().any(|(k, v)| k.starts_with("g.") && matches!(v, Val::Ext(..)));
    let walk_panics = t.lines.iter().any(|(k, v)| k.starts_with('w') && k[1..].parse::<usize>().is_ok() && v.is_panic());
    if walk_panics {
        obs.class("!walk-panics");
    }
    if getter_hit {
        obs.class("!getter-returned-tag");
    }
    if st.loaded && (getter_hit || walk_panics) {
        obs.nontrivial(fnv(bytes));
        obs.sample(json!({"region": sample_bytes(bytes), "placement": format!("{:?}", c.place), "walk_panics": walk_panics, "controlled_panics": st.panics}));
    }
    Ok(())
}

fn strategy(ctx: &Ctx) -> BoxedStrategy<Case> {
    let max_tags = if ctx.tier == Tier::Thorough { 14 } else { 9 };
    (gen::hdr_spec(max_tags, true), prop_oneof![4 => Just(Place::End), 1 => Just(Place::Start)], 0u8..12)
        .prop_map(|(mut s, place, keep)| {
            // most cases should get past load(): keep magic/checksum/length intact in ~80%
            if keep >= 2 {
                s.magic_xor = 0;
                s.sum_delta = 0;
                s.len = gen::TsTweak::None;
            } else if keep == 0 {
                // a length below the 16-byte fixed part with everything else
                // consistent (magic, checksum computed for that length)
                s.magic_xor = 0;
                s.sum_delta = 0;
                s.len = gen::TsTweak::Tiny((s.arch as u8 + s.tags.len() as u8 * 4) % 17);
            }
            let mut region = gen::build_hdr(&s);
            let sanitized = sanitize_hdr_enums(&mut region) as u32;
            if sanitized > 0 && s.sum_delta == 0 {
                // arch may have changed: keep the checksum valid
                let (m, a, l) = (le32(&region, 0), le32(&region, 4), le32(&region, 8));
                put32(&mut region, 12, mb2_model::walk::model_checksum(m, a, l));
            }
            Case { region: Hex(region), place, sanitized }
        })
        .boxed()
}

#[derive(Clone, Debug, Serialize, Deserialize)]
pub struct TagCase {
    pub img: Hex,
    pub kind: u32,
}

pub fn eval_tag(c: &TagCase, obs: &mut Obs) -> Result<(), String> {
    let img = &c.img.0;
    if img.len() < 8 || img.len() % 8 != 0 || c.kind > 10 {
        return Err("malformed case".into());
    }
    let t = match sbx::single_hdr_tag(img, c.kind, HdrOpts { debug: true, max_steps: img.len() }) {
        Boxed::Done(t) => t,
        Boxed::Crash(s) => return Err(format!("stand-alone header tag viewed as kind {} (size word {}) ending at a guard page crashed: {s}", c.kind, le32(img, 4))),
        Boxed::Inconclusive(w) => {
            obs.inconclusive(w);
            return Ok(());
        }
    };
    let tag_len = match t.get("ref") {
        Some(Val::Ext(0, l)) => *l,
        _ => 0,
    };
    let mut viewed = false;
    for (k, v) in &t.lines {
        if k == "t0.cast" && !v.is_panic() {
            viewed = true;
        }
        if let Some((o, l)) = v.extent() {
            if o.checked_add(l).map_or(true, |e| e > tag_len) || tag_len > img.len() {
                return Err(format!("{k}: reference ({o},{l}) leaves the tag ({tag_len} bytes incl. padding, image {} bytes)", img.len()));
            }
        }
    }
    obs.class(format!("!kind-{}", c.kind));
    if viewed {
        obs.nontrivial(fnv(img) ^ c.kind as u64);
        obs.sample(json!({"kind": c.kind, "image": sample_bytes(img)}));
    }
    Ok(())
}

fn tag_strategy(_: &Ctx) -> BoxedStrategy<TagCase> {
    (gen::hdr_tag_spec(true), 0u32..=10, 0u8..4)
        .prop_map(|(mut s, kind, own)| {
            if own != 0 || s.kind > 10 {
                s.kind = kind;
            }
            let mut img = gen::build_hdr_tag(&s);
            mb2_model::encode::pad8(&mut img, 0x5A);
            // defined enumerated fields for whatever kind the image is viewed as
            let typ = le16(&img, 0);
            put16(&mut img, 0, typ % 11);
            let fl = le16(&img, 2);
            put16(&mut img, 2, fl & 1);
            if kind == 4 && img.len() >= 12 {
                let v = le32(&img, 8);
                put32(&mut img, 8, v & 1);
            }
            if kind == 10 && img.len() >= 24 {
                let v = le32(&img, 20);
                put32(&mut img, 20, v % 3);
            }
            TagCase { img: Hex(img), kind }
        })
        .boxed()
}

// --- headers one after the other at the same address ------------------------------

#[derive(Clone, Debug, Serialize, Deserialize)]
pub struct SeqCase {
    pub steps: Vec<Hex>,
}

/// The headers are written one after the other to the same address and fully
/// exercised in one process (a forked child, ordinary memory): every returned
/// reference lies inside the header declared *now*, and every stored result is
/// the reference model's for that header alone.
fn eval_seq(c: &SeqCase, obs: &mut Obs) -> Result<(), String> {
    for s in &c.steps {
        if s.0.len() < 16 || s.0.len() != r8(le32(&s.0, 8) as usize).max(16) || s.0.len() > 1 << 16 {
            return Err("malformed case".into());
        }
    }
    let cap = c.steps.iter().map(|s| s.0.len()).max().unwrap_or(16) + 4096;
    let r = mb2_sandbox::run_child(|| {
        let mut buf = Aligned::new(&vec![0xEEu8; cap]);
        for (i, img) in c.steps.iter().enumerate() {
            let mut all = vec![0xEEu8; cap];
            all[..img.0.len()].copy_from_slice(&img.0);
            buf.overwrite(&all);
            let t = unsafe { mb2_model::exercise_hdr::exercise_hdr(buf.as_ptr(), &HdrOpts { debug: true, max_steps: img.0.len() / 8 + 4 }) };
            let len = le32(&img.0, 8) as usize;
            if let Err(m) = super::c01::validate_from(&t, len, 16) {
                return format!("E header {} of {} at the same address: {m}", i + 1, c.steps.len()).into_bytes();
            }
            let d = mb2_model::expect_hdr::expect_hdr(&img.0).diff(&t, &|k| !k.split('.').any(|seg| seg == "dbg" || seg.starts_with('~')));
            if !d.is_empty() {
                return format!("E header {} of {} at the same address: {}", i + 1, c.steps.len(), d.join("; ")).into_bytes();
            }
        }
        b"OK".to_vec()
    });
    match r {
        mb2_sandbox::ChildResult::Done(b) if b == b"OK" => {}
        mb2_sandbox::ChildResult::Done(b) => return Err(String::from_utf8_lossy(&b[2.min(b.len())..]).into_owned()),
        mb2_sandbox::ChildResult::Signal(sig) => return Err(format!("{} headers one after the other at the same address crashed the process (signal {sig})", c.steps.len())),
        _ => {
            obs.inconclusive("child did not report");
            return Ok(());
        }
    }
    let lens: Vec<usize> = c.steps.iter().map(|s| s.0.len()).collect();
    let shrinks = lens.windows(2).any(|w| w[1] < w[0]);
    obs.class(if shrinks { "!later-header-shorter" } else { "not-shrinking" });
    if shrinks {
        obs.nontrivial(fnv(format!("{:?}", c.steps).as_bytes()));
        obs.sample(json!({"header_lengths": lens}));
    }
    Ok(())
}

fn strategy_seq(_: &Ctx) -> BoxedStrategy<SeqCase> {
    // a valid header with several tags, then headers made of a prefix / a suffix /
    // a rotation of its tags (the same tags at other offsets, a shorter header at
    // the same address), or an unrelated one
    (gen::hdr_spec(8, false), proptest::collection::vec((0u8..5, any::<u8>(), gen::hdr_spec(5, false)), 1..=3))
        .prop_map(|(mut base, vars)| {
            base.end = true;
            let build = |s: &gen::HdrSpec| {
                let mut region = gen::build_hdr(s);
                if sanitize_hdr_enums(&mut region) > 0 {
                    let (m, a, l) = (le32(&region, 0), le32(&region, 4), le32(&region, 8));
                    put32(&mut region, 12, mb2_model::walk::model_checksum(m, a, l));
                }
                Hex(region)
            };
            let mut steps = vec![build(&base)];
            for (kind, r, mut other) in vars {
                let mut v = base.clone();
                let k = v.tags.len();
                match kind {
                    0 if k > 0 => v.tags.truncate(r as usize % k),
                    1 if k > 0 => {
                        v.tags.drain(..(1 + r as usize % k).min(k));
                    }
                    2 if k > 1 => v.tags.rotate_left(1 + r as usize % (k - 1)),
                    3 if k > 0 => {
                        let i = r as usize % k;
                        let d = v.tags[i].clone();
                        v.tags.insert(0, d);
                    }
                    _ => {
                        other.end = true;
                        v = other;
                    }
                }
                steps.push(build(&v));
            }
            SeqCase { steps }
        })
        .boxed()
}

/// Every kind's conformant header tag at every declared size 8..=len+16, cut or
/// padded to that size (tag flush against the guard page).
fn enumerate_tags(_: &Ctx) -> Box<dyn Iterator<Item = TagCase>> {
    let mut v = Vec::new();
    for kind in 0u32..=10 {
        for n in [0usize, 1, 2, 3, 7] {
            if n > 0 && kind != 1 {
                continue;
            }
            for sel in [0u32, 1, 5, 9] {
                let base = mb2_model::encode::conformant_hdr_tag(kind, 0xC09, n, sel);
                for size in 8..=base.len() + 16 {
                    let mut img = base.clone();
                    img.resize(r8(size), 0x5A);
                    put32(&mut img, 4, size as u32);
                    v.push(TagCase { img: Hex(img), kind });
                }
            }
        }
    }
    Box::new(v.into_iter())
}

pub fn subs() -> Vec<Box<dyn Sub>> {
    vec![
        Box::new(PropSub::<Case> {
            name: "region",
            rule: "adversarial headers (0..=9, thorough 14, tags of the 11 kinds + unknown types, tampered size words 0..beyond the region, random extra bytes, with/without end tag; in 20% of the cases also wrong magic / checksum / length) whose enumerated fields are rewritten to defined values by the reference walk (count reported), flush against a PROT_NONE page in a forked child; program = load, 5 header accessors, iter() walk incl. next-after-None, every item as its typed tag with all accessors, 10 typed getters, Debug of the header and every tag. Oracle: no signal, step bounds, every returned reference inside the declared length and inside its tag. Non-trivial = loads and (a getter returned a tag or the walk ended in a panic); distinct by region hash",
            profiles: Profiles::Both,
            quick: 8000,
            thorough: 300000,
            strategy,
            enumerate: None,
            enum_exhaustive: false,
            eval,
        }),
        Box::new(PropSub::<TagCase> {
            name: "single-tag",
            rule: "stand-alone header tag ending at a PROT_NONE page (enumerated: every kind's conformant image at every declared size 8..=len+16, cut or padded to that size; generated: adversarial images) viewed as each of the 11 kinds via ref_from_slice + cast, with defined enumerated fields. Non-trivial = typed view obtained; distinct by hash(image, kind)",
            profiles: Profiles::Both,
            quick: 5000,
            thorough: 200000,
            strategy: tag_strategy,
            enumerate: Some(enumerate_tags),
            enum_exhaustive: false,
            eval: eval_tag,
        }),
        Box::new(PropSub::<SeqCase> {
            name: "hdr-sequences",
            rule: "2..=4 valid headers written one after the other to the same address and fully exercised in one process: a header with up to 8 tags, then headers made of a prefix, a suffix or a rotation of its tags, one of its tags twice, or an unrelated header. Oracle: extent check against the length declared now (every returned reference inside the current header) and the complete stored transcript equals the reference model's for that header alone. Non-trivial = a later header is shorter than an earlier one; distinct by the sequence",
            profiles: Profiles::Both,
            quick: 6000,
            thorough: 300000,
            strategy: strategy_seq,
            enumerate: None,
            enum_exhaustive: false,
            eval: eval_seq,
        }),
        Box::new(super::fuzzsub::FuzzSub { target: "fuzz_hdr", name: "fuzz-hdr", runs: 1_600_000, quick_runs: 30_000, max_len: 1024 }),
    ]
}
