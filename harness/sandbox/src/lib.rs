//! Engine C of DESIGN.md: guard-page placement of adversarial input and
//! fork-based case isolation.
//!
//! * [`Guarded`] maps `[PROT_NONE page][n RW pages][PROT_NONE page]` and places
//!   input bytes either flush against the trailing guard page (so a read of
//!   even one byte past the input faults) or directly after the leading guard
//!   page (so a read before the input faults).
//! * [`run_child`] executes a closure in a forked child and classifies the
//!   result: the bytes the closure returned, death by signal ("the process
//!   crashed"), or watchdog expiry (inconclusive, never a violation).

use std::io::Read;
use std::os::unix::io::FromRawFd;

pub const PAGE: usize = 4096;

/// An anonymous mapping with inaccessible pages on both sides.
pub struct Guarded {
    base: *mut u8,
    /// Bytes of the read/write middle part (multiple of the page size).
    cap: usize,
}

unsafe impl Send for Guarded {}

#[derive(Clone, Copy, Debug, PartialEq, Eq)]
pub enum Placement {
    /// Last input byte is the last byte before the trailing guard page.
    FlushEnd,
    /// First input byte is the first byte after the leading guard page.
    FlushStart,
}

impl Guarded {
    /// Creates a mapping whose accessible part holds at least `cap` bytes.
    pub fn new(cap: usize) -> Self {
        let cap = (cap.max(1) + PAGE - 1) / PAGE * PAGE;
        let total = cap + 2 * PAGE;
        unsafe {
            let p = libc::mmap(
                std::ptr::null_mut(),
                total,
                libc::PROT_NONE,
                libc::MAP_PRIVATE | libc::MAP_ANONYMOUS | libc::MAP_NORESERVE,
                -1,
                0,
            );
            assert!(p != libc::MAP_FAILED, "mmap failed");
            let base = p as *mut u8;
            let rc = libc::mprotect(
                base.add(PAGE) as *mut _,
                cap,
                libc::PROT_READ | libc::PROT_WRITE,
            );
            assert_eq!(rc, 0, "mprotect failed");
            Self { base, cap }
        }
    }

    pub fn capacity(&self) -> usize {
        self.cap
    }

    /// Copies `bytes` into the mapping with the requested placement and fills
    /// the rest of the accessible part with `fill`. With [`Placement::FlushEnd`]
    /// the returned pointer is 8-aligned iff `bytes.len() % 8 == 0`; use
    /// [`Self::place_padded`] when the input length is not a multiple of 8 but
    /// the pointer has to be aligned.
    pub fn place(&mut self, bytes: &[u8], placement: Placement, fill: u8) -> *mut u8 {
        assert!(bytes.len() <= self.cap, "input larger than the guarded mapping");
        unsafe {
            let lo = self.base.add(PAGE);
            std::ptr::write_bytes(lo, fill, self.cap);
            let dst = match placement {
                Placement::FlushEnd => lo.add(self.cap - bytes.len()),
                Placement::FlushStart => lo,
            };
            std::ptr::copy_nonoverlapping(bytes.as_ptr(), dst, bytes.len());
            dst
        }
    }

    /// Like [`Self::place`] with [`Placement::FlushEnd`], but the accessible
    /// extent is `max(min_len, len rounded up to 8)` bytes so that the pointer
    /// is 8-aligned; the slack between the input and the guard page is `fill`.
    pub fn place_padded(&mut self, bytes: &[u8], min_len: usize, fill: u8) -> *mut u8 {
        let ext = ((bytes.len() + 7) & !7).max(min_len);
        assert!(ext <= self.cap);
        unsafe {
            let lo = self.base.add(PAGE);
            std::ptr::write_bytes(lo, fill, self.cap);
            let dst = lo.add(self.cap - ext);
            std::ptr::copy_nonoverlapping(bytes.as_ptr(), dst, bytes.len());
            dst
        }
    }

    /// Address of the first byte of the trailing guard page.
    pub fn end_guard(&self) -> usize {
        self.base as usize + PAGE + self.cap
    }

    /// Address of the first accessible byte.
    pub fn start(&self) -> usize {
        self.base as usize + PAGE
    }
}

impl Drop for Guarded {
    fn drop(&mut self) {
        unsafe {
            libc::munmap(self.base as *mut _, self.cap + 2 * PAGE);
        }
    }
}

/// How a sandboxed case ended.
#[derive(Debug, Clone, PartialEq, Eq)]
pub enum ChildResult {
    /// The closure returned; these are the bytes it produced.
    Done(Vec<u8>),
    /// The child was killed by this signal (SIGSEGV, SIGBUS, SIGABRT, SIGILL,
    /// SIGFPE …): the process crashed.
    Signal(i32),
    /// The watchdog fired. Inconclusive, never a violation.
    Timeout,
    /// The child exited without producing a complete record.
    Broken(i32),
}

impl ChildResult {
    pub fn signal_name(sig: i32) -> &'static str {
        match sig {
            libc::SIGSEGV => "SIGSEGV",
            libc::SIGBUS => "SIGBUS",
            libc::SIGABRT => "SIGABRT",
            libc::SIGILL => "SIGILL",
            libc::SIGFPE => "SIGFPE",
            libc::SIGALRM => "SIGALRM",
            libc::SIGKILL => "SIGKILL",
            libc::SIGTRAP => "SIGTRAP",
            _ => "SIG?",
        }
    }
}

/// Seconds a single sandboxed case may take before it is declared
/// inconclusive.
pub const WATCHDOG_SECS: u32 = 20;

/// Runs `f` in a forked child. The calling process must be single-threaded at
/// this point (the harness is). Panics inside `f` are the caller's business:
/// wrap what may panic in `catch_unwind` and encode the outcome in the bytes.
pub fn run_child<F: FnOnce() -> Vec<u8>>(f: F) -> ChildResult {
    unsafe {
        let mut fds = [0i32; 2];
        assert_eq!(libc::pipe(fds.as_mut_ptr()), 0, "pipe failed");
        let pid = libc::fork();
        assert!(pid >= 0, "fork failed");
        if pid == 0 {
            libc::close(fds[0]);
            // Default dispositions: a fault must kill the child, not run a
            // handler that the parent might have installed.
            for s in [
                libc::SIGSEGV,
                libc::SIGBUS,
                libc::SIGABRT,
                libc::SIGILL,
                libc::SIGFPE,
                libc::SIGALRM,
            ] {
                libc::signal(s, libc::SIG_DFL);
            }
            libc::alarm(WATCHDOG_SECS);
            let out = f();
            let len = (out.len() as u64).to_le_bytes();
            write_all(fds[1], &len);
            write_all(fds[1], &out);
            libc::close(fds[1]);
            libc::_exit(0);
        }
        libc::close(fds[1]);
        let mut file = std::fs::File::from_raw_fd(fds[0]);
        let mut buf = Vec::new();
        let _ = file.read_to_end(&mut buf);
        drop(file);
        let mut status = 0i32;
        loop {
            let r = libc::waitpid(pid, &mut status, 0);
            if r == pid {
                break;
            }
            if r < 0 && *libc::__errno_location() != libc::EINTR {
                return ChildResult::Broken(-1);
            }
        }
        if libc::WIFSIGNALED(status) {
            let sig = libc::WTERMSIG(status);
            if sig == libc::SIGALRM {
                return ChildResult::Timeout;
            }
            return ChildResult::Signal(sig);
        }
        let code = libc::WEXITSTATUS(status);
        if code != 0 || buf.len() < 8 {
            return ChildResult::Broken(code);
        }
        let n = u64::from_le_bytes(buf[..8].try_into().unwrap()) as usize;
        if buf.len() != 8 + n {
            return ChildResult::Broken(code);
        }
        buf.drain(..8);
        ChildResult::Done(buf)
    }
}

unsafe fn write_all(fd: i32, mut b: &[u8]) {
    while !b.is_empty() {
        let n = libc::write(fd, b.as_ptr() as *const _, b.len());
        if n <= 0 {
            if n < 0 && *libc::__errno_location() == libc::EINTR {
                continue;
            }
            libc::_exit(3);
        }
        b = &b[n as usize..];
    }
}

#[cfg(test)]
mod tests {
    use super::*;

    #[test]
    fn guard_faults() {
        let mut g = Guarded::new(64);
        let p = g.place(&[1, 2, 3, 4, 5, 6, 7, 8], Placement::FlushEnd, 0xcc);
        assert_eq!(p as usize + 8, g.end_guard());
        let r = run_child(|| {
            let v = unsafe { std::ptr::read_volatile(p.add(8)) };
            vec![v]
        });
        assert_eq!(r, ChildResult::Signal(libc::SIGSEGV));
        let r = run_child(|| {
            let v = unsafe { std::ptr::read_volatile(p.add(7)) };
            vec![v]
        });
        assert_eq!(r, ChildResult::Done(vec![8]));
    }
}

/// A private read-write mapping at a chosen address (whole pages around
/// `[addr, addr + len)`), or `None` when the kernel does not grant exactly
/// that range. Unmapped on drop.
pub struct FixedMap {
    base: *mut u8,
    pages_len: usize,
    addr: usize,
}

impl FixedMap {
    pub fn new(addr: usize, len: usize) -> Option<Self> {
        let page = 4096usize;
        let lo = addr / page * page;
        let hi = (addr.checked_add(len)?.checked_add(page - 1)?) / page * page;
        unsafe {
            let p = libc::mmap(
                lo as *mut libc::c_void,
                hi - lo,
                libc::PROT_READ | libc::PROT_WRITE,
                libc::MAP_PRIVATE | libc::MAP_ANONYMOUS | libc::MAP_FIXED_NOREPLACE,
                -1,
                0,
            );
            if p == libc::MAP_FAILED {
                return None;
            }
            if p as usize != lo {
                libc::munmap(p, hi - lo);
                return None;
            }
            Some(Self { base: p as *mut u8, pages_len: hi - lo, addr })
        }
    }
    /// Copies `bytes` to the chosen address and returns it.
    pub fn put(&mut self, bytes: &[u8]) -> *mut u8 {
        assert!(self.addr + bytes.len() <= self.base as usize + self.pages_len);
        unsafe {
            std::ptr::copy_nonoverlapping(bytes.as_ptr(), self.addr as *mut u8, bytes.len());
        }
        self.addr as *mut u8
    }
}

impl Drop for FixedMap {
    fn drop(&mut self) {
        unsafe {
            libc::munmap(self.base as *mut libc::c_void, self.pages_len);
        }
    }
}
